"""C20 demo (rewrite t): evaluating a function over the sampling points in parallel gives, for every
number of worker processes, the same array in the same order as evaluating it serially -- for cheap
and unevenly expensive functions, scalar and vector valued, with and without shared extra arguments.
Exits 0 printing OK."""
import contextlib
import io
import os
import sys
import time

os.environ.setdefault("MPLBACKEND", "Agg")
import numpy as np
from koala import phase_diagrams as pd


def scalar_cheap(J):
    return J[0] - 2 * J[1] + 3 * J[2] ** 2


def scalar_uneven(J, scale=1.0, offset=0.0):
    # early points are the slow ones, so later chunks finish first
    time.sleep(0.02 * J[2] ** 4)
    return scale * J[0] * J[1] + offset


def vector_uneven(J, scale=1.0, offset=0.0):
    time.sleep(0.004 if int(round(J[0] * 1e6)) % 3 == 0 else 0.0)
    return np.array([scale * J[0] + offset, J[1] * J[2], J.sum(), float(np.argmax(J))])


def int_valued(J, table=None):
    return int(np.argmax(J)) if table is None else table[int(np.argmax(J))]


def quiet(fn, *args, **kwargs):
    with contextlib.redirect_stdout(io.StringIO()), contextlib.redirect_stderr(io.StringIO()):
        return fn(*args, **kwargs)


def main():
    point_sets = [
        pd.get_triangular_sampling_points(samples=2)[0],        # 3 points: fewer points than workers
        pd.get_triangular_sampling_points(samples=9)[0],
        pd.get_non_symmetric_triangular_sampling_points(samples=7)[0],
        pd.get_non_symmetric_triangular_sampling_points(samples=13)[0],
    ]
    cases = [
        (scalar_cheap, {}),
        (scalar_uneven, {}),
        (scalar_uneven, {"scale": 2.5, "offset": -1.0}),
        (vector_uneven, {}),
        (vector_uneven, {"scale": -3.0, "offset": 0.25}),
        (int_valued, {}),
        (int_valued, {"table": np.array([10, 20, 30])}),
    ]
    n_checked = 0
    for k, pts in enumerate(point_sets):
        for fn, extra in cases:
            serial = np.array([fn(J, **extra) for J in pts]).T
            for n_jobs in ((1, 2, 3, 5, 8, 16) if k % 2 == 0 else (1, 4, 7, 11)):
                par = quiet(pd.compute_phase_diagram, pts, fn, extra, n_jobs=n_jobs)
                assert isinstance(par, np.ndarray), type(par)
                assert par.shape == serial.shape, (fn.__name__, n_jobs, par.shape, serial.shape)
                assert par.dtype == serial.dtype, (fn.__name__, n_jobs, par.dtype, serial.dtype)
                assert np.array_equal(par, serial), (fn.__name__, extra, n_jobs)
                n_checked += 1
    # the points handed in are left alone
    pts = point_sets[1].copy()
    quiet(pd.compute_phase_diagram, pts, scalar_cheap, {}, n_jobs=3)
    assert np.array_equal(pts, point_sets[1])
    assert n_checked > 0
    print("OK")


if __name__ == "__main__":
    main()
    sys.exit(0)
