"""Demo for rewrite t (C12): permute_vertices / reorder_vertices.

Checks from first principles (no reference implementation) that
  * permute_vertices(l, ordering): new position i == old position ordering[i],
  * reorder_vertices(l, permutation): old vertex i ends up at permutation[i],
  * in both cases the result is isomorphic to the input under that relabelling
    with identical edge order, crossings, edge vectors and plaquettes,
  * the two functions are inverse conventions of each other and round-trip.
All permutations are used for lattices with at most 6 vertices, random ones otherwise.
Run:  PYTHONPATH=/tmp/rw-C12/src /venv/bin/python out/t/demo.py
"""
import itertools
import sys
import warnings

import numpy as np

from koala.lattice import (Lattice, LatticeException, cut_boundaries,
                           permute_vertices)
from koala.graph_utils import reorder_vertices
from koala import example_graphs as eg
from koala.voronization import generate_lattice

warnings.filterwarnings("ignore")  # degenerate (discarded) plaquettes divide by zero area
rng = np.random.default_rng(121212)


def hand_torus():
    pos = np.array([[.25, .25], [.75, .25], [.25, .75], [.75, .75]])
    edges = np.array([[0, 1], [0, 1], [2, 3], [3, 2], [0, 2], [2, 0], [1, 3],
                      [3, 1]])
    crossing = np.array([[0, 0], [-1, 0], [0, 0], [1, 0], [0, 0], [0, 1],
                         [0, 0], [0, 1]])
    return Lattice(pos, edges, crossing)


def no_edges_lattice():
    return Lattice(np.array([[.1, .2], [.5, .5], [.7, .3]]),
                   np.zeros((0, 2), dtype=int), np.zeros((0, 2), dtype=int))


def inputs():
    amo = generate_lattice(rng.random((7, 2)))
    return [
        ("hand_torus", hand_torus()),                     # V = 4
        ("no_edges", no_edges_lattice()),                 # V = 3
        ("two_triangles", eg.two_triangles()),            # V <= 6
        ("single_pentagon", eg.single_plaquette(5)),      # V = 5
        ("single_hexagon", eg.single_plaquette(6)),       # V = 6
        ("tri_square_pent", eg.tri_square_pent()),
        ("multi_graph", eg.multi_graph()),
        ("bridge", eg.bridge_graph()),
        ("honeycomb", eg.honeycomb_lattice(2)),
        ("amorphous", amo),
        ("amorphous_cut", cut_boundaries(amo, (True, False))),
    ]


def permutations_for(n):
    if n <= 6:
        return [np.array(p, dtype=int) for p in itertools.permutations(range(n))]
    perms = [np.arange(n), np.arange(n)[::-1].copy(), np.roll(np.arange(n), 1)]
    perms += [rng.permutation(n) for _ in range(12)]
    return perms


def plaquettes_or_none(lattice):
    try:
        return list(lattice.plaquettes)
    except LatticeException:
        return None


def plaq_key(p, relabel=None):
    verts = [int(v) for v in p.vertices]
    if relabel is not None:
        verts = [int(relabel[v]) for v in verts]
    return (frozenset(zip([int(e) for e in p.edges], [int(d) for d in p.directions])),
            frozenset(verts))


def assert_relabelled(l_new, l, new_label_of_old, what):
    """l_new must be l with old vertex v renamed new_label_of_old[v]"""
    n = l.n_vertices
    assert isinstance(l_new, Lattice), what
    assert l_new.n_vertices == n and l_new.n_edges == l.n_edges, what
    assert l_new.vertices.positions.shape == l.vertices.positions.shape, what
    assert l_new.vertices.positions.dtype == l.vertices.positions.dtype, what
    for v in range(n):
        assert np.array_equal(l_new.vertices.positions[new_label_of_old[v]],
                              l.vertices.positions[v]), what
    assert l_new.edges.indices.shape == l.edges.indices.shape, what
    assert np.issubdtype(l_new.edges.indices.dtype, np.integer), what
    for k in range(l.n_edges):
        a, b = l.edges.indices[k]
        assert l_new.edges.indices[k, 0] == new_label_of_old[a], what
        assert l_new.edges.indices[k, 1] == new_label_of_old[b], what
    assert np.array_equal(l_new.edges.crossing, l.edges.crossing), what
    assert np.allclose(l_new.edges.vectors, l.edges.vectors, atol=1e-15), what
    # same plaquettes
    p_old = plaquettes_or_none(l)
    if p_old is None:
        return
    p_new = plaquettes_or_none(l_new)
    assert p_new is not None and len(p_new) == len(p_old), what
    new_by_key = {plaq_key(p): p for p in p_new}
    for p in p_old:
        key = plaq_key(p, new_label_of_old)
        assert key in new_by_key, (what, "plaquette differs")
        q = new_by_key[key]
        assert q.n_sides == p.n_sides, what
        assert np.allclose(q.center, p.center, atol=1e-12), what


def same_arrays(a, b, what):
    assert np.array_equal(a.vertices.positions, b.vertices.positions), what
    assert np.array_equal(a.edges.indices, b.edges.indices), what
    assert np.array_equal(a.edges.crossing, b.edges.crossing), what


def main():
    n_checked = 0
    for name, l in inputs():
        before = (l.vertices.positions.copy(), l.edges.indices.copy(),
                  l.edges.crossing.copy())
        for perm in permutations_for(l.n_vertices):
            inverse = np.empty_like(perm)
            for i, p in enumerate(perm):
                inverse[p] = i
            what = (name, perm.tolist())

            # permute_vertices: new vertex i is old vertex perm[i]
            l_p = permute_vertices(l, perm)
            for i in range(l.n_vertices):
                assert np.array_equal(l_p.vertices.positions[i],
                                      l.vertices.positions[perm[i]]), what
            assert_relabelled(l_p, l, inverse, ("permute",) + what)
            same_arrays(permute_vertices(l, perm.tolist()), l_p, what)  # lists are fine

            # reorder_vertices: old vertex i becomes vertex perm[i]
            l_r = reorder_vertices(l, perm)
            assert_relabelled(l_r, l, perm, ("reorder",) + what)

            # the two conventions are inverse to each other, and both round-trip
            same_arrays(reorder_vertices(l, inverse), l_p, what)
            same_arrays(permute_vertices(l_p, inverse), l, what)
            same_arrays(reorder_vertices(l_r, inverse), l, what)
            n_checked += 1
        assert np.array_equal(before[0], l.vertices.positions)
        assert np.array_equal(before[1], l.edges.indices)
        assert np.array_equal(before[2], l.edges.crossing)
    print(f"OK ({n_checked} lattice/permutation pairs)")
    return 0


if __name__ == "__main__":
    sys.exit(main())
