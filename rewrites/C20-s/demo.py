"""C20 demo (rewrite s): sampling points lie on the coupling simplex, every triangulation has one
node per sampling point, the six symmetric triangulations are congruent; a parallel map over the
points equals the serial one.  Exits 0 printing OK."""
import contextlib
import io
import os
import sys

os.environ.setdefault("MPLBACKEND", "Agg")
import numpy as np
import matplotlib.tri as mtri
from koala import phase_diagrams as pd


def check_simplex(P, what):
    assert isinstance(P, np.ndarray) and P.ndim == 2 and P.shape[1] == 3, (what, P.shape)
    assert P.dtype == np.float64, (what, P.dtype)
    assert len(P) >= 1, what
    assert np.all(np.isfinite(P)), what
    assert np.all(P >= 0), (what, P.min())
    assert np.allclose(P.sum(axis=1), 1.0, rtol=0, atol=1e-12), what


def pairwise(x, y):
    p = np.stack([x, y], axis=1)
    return np.linalg.norm(p[:, None, :] - p[None, :, :], axis=-1)


def main():
    for samples in list(range(2, 41)):
        P, tri = pd.get_non_symmetric_triangular_sampling_points(samples=samples)
        check_simplex(P, ("plain", samples))
        assert isinstance(tri, mtri.Triangulation)
        assert len(tri.x) == len(tri.y) == len(P), ("plain", samples)

        P, tris = pd.get_triangular_sampling_points(samples=samples)
        check_simplex(P, ("symmetric", samples))
        assert len(tris) == 6, samples
        for t in tris:
            assert isinstance(t, mtri.Triangulation)
            assert len(t.x) == len(t.y) == len(P), ("symmetric", samples)
        if samples <= 12:
            # congruent images: every one of the six node sets has the same mutual distances
            d0 = pairwise(tris[0].x, tris[0].y)
            for t in tris[1:]:
                assert np.allclose(pairwise(t.x, t.y), d0, rtol=0, atol=1e-12), samples
            # and the six images are different placements (they tile the triangle)
            cents = np.array([[t.x.mean(), t.y.mean()] for t in tris])
            dc = np.linalg.norm(cents[:, None] - cents[None], axis=-1) + np.eye(6)
            assert dc.min() > 1e-3, samples

    # default argument
    P, tris = pd.get_triangular_sampling_points()
    check_simplex(P, "default")
    P2, tri = pd.get_non_symmetric_triangular_sampling_points()
    check_simplex(P2, "default plain")

    # parallel == serial on these very points
    def f(J, scale=1.0):
        return scale * (J[0] - 2 * J[1] + 3 * J[2] ** 2)

    def g(J, scale=1.0):
        return np.array([scale * J[0], J[1] * J[2], J.sum()])

    for pts in (P, P2):
        for fn in (f, g):
            for extra in ({}, {"scale": 2.5}):
                serial = np.array([fn(J, **extra) for J in pts]).T
                for n_jobs in (1, 3):
                    with contextlib.redirect_stdout(io.StringIO()), contextlib.redirect_stderr(io.StringIO()):
                        par = pd.compute_phase_diagram(pts, fn, extra, n_jobs=n_jobs)
                    assert isinstance(par, np.ndarray)
                    assert par.shape == serial.shape and par.dtype == serial.dtype
                    assert np.array_equal(par, serial), (fn.__name__, extra, n_jobs)
    print("OK")


if __name__ == "__main__":
    main()
    sys.exit(0)
