"""Demo for rewrite r (C19): bluenoise with a cell grid for the spacing test.

Checks, on a handful of (k, nx, ny, seed) including nx != ny and thin domains:
  * every point lies in [0,1]^2,
  * all pairwise distances (before normalisation by (nx, ny)) are > 1,
  * for k >= 20 the points reach within two grid spacings of all four sides,
  * same seeded generator -> same points, irrespective of the global numpy
    random state, and the global state is left untouched.
Exits 0 and prints OK on success.
"""
import sys
import numpy as np
from koala import pointsets


def global_state_fingerprint():
    st = np.random.get_state()
    return (st[0], st[1].tobytes(), st[2], st[3], st[4])


def check_bluenoise(k, nx, ny, seed):
    np.random.seed(1234 + seed)
    before = global_state_fingerprint()
    a = pointsets.bluenoise(k, nx, ny, rng=np.random.default_rng(seed))
    assert global_state_fingerprint() == before, "global random state disturbed"
    np.random.seed(987654 - seed)
    b = pointsets.bluenoise(k, nx, ny, rng=np.random.default_rng(seed))
    assert a.shape == b.shape and np.array_equal(a, b), "not reproducible"

    assert a.ndim == 2 and a.shape[1] == 2 and a.shape[0] >= 1
    assert a.dtype == np.float64
    assert np.all(a >= 0) and np.all(a <= 1), "point outside the unit square"

    p = a * np.array([nx, ny])
    if len(p) > 1:
        d = np.linalg.norm(p[:, None, :] - p[None, :, :], axis=-1)
        iu = np.triu_indices(len(p), 1)
        # 1e-9 slack only absorbs the round-trip through normalisation
        assert d[iu].min() > 1 - 1e-9, "spacing violated: %r" % d[iu].min()
    return p


def main():
    cases = [
        (1, 3, 3, 0), (2, 1, 5, 1), (3, 5, 1, 2), (5, 2, 2, 3), (7, 4, 9, 4),
        (12, 12, 3, 5), (20, 6, 6, 6), (20, 3, 11, 7), (25, 10, 4, 8),
        (30, 3, 3, 9), (33, 8, 12, 10), (40, 12, 12, 11), (40, 2, 7, 12),
    ]
    for k, nx, ny, seed in cases:
        p = check_bluenoise(k, nx, ny, seed)
        if k >= 20 and min(nx, ny) >= 2:
            assert p[:, 0].min() <= 2 and p[:, 0].max() >= nx - 2, (k, nx, ny, seed)
            assert p[:, 1].min() <= 2 and p[:, 1].max() >= ny - 2, (k, nx, ny, seed)

    # hyperuniform / uniform are untouched by this rewrite; quick sanity only
    h = pointsets.hyperuniform(7, 5, 0.05, rng=np.random.default_rng(3))
    assert np.all(h >= 0) and np.all(h <= 1)
    for n in (0, 1, 17, 1000):
        u = pointsets.uniform(n, rng=np.random.default_rng(n))
        assert u.shape == (n, 2) and np.all(u >= 0) and np.all(u <= 1)
    print("OK")
    return 0


if __name__ == "__main__":
    sys.exit(main())
