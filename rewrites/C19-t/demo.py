"""Demo for rewrite t (C19): hyperuniform / uniform re-derived (reordered
random draws, 'ij' cell order, mask crop, shared rng helper, validation).

Checks on a handful of inputs:
  * hyperuniform(nx, ny, kick): float64 array of shape (m, 2), m <= nx*ny,
    every point in the unit square, for nx != ny and kicks 0 .. 0.1,
  * uniform(n): exactly n points, shape (n, 2), in the unit square,
  * bluenoise: in the unit square (its rng default handling was touched),
  * same seeded generator -> same points, irrespective of the global numpy
    random state, and the global state is left untouched.
Exits 0 and prints OK on success.
"""
import sys
import numpy as np
from koala import pointsets


def global_state_fingerprint():
    st = np.random.get_state()
    return (st[0], st[1].tobytes(), st[2], st[3], st[4])


def twice(fn, seed):
    """Run fn with two equally seeded generators under different global
    random states; check reproducibility and that the global state is kept."""
    np.random.seed(1000 + seed)
    before = global_state_fingerprint()
    a = fn(np.random.default_rng(seed))
    assert global_state_fingerprint() == before, "global random state disturbed"
    np.random.seed(77777 - seed)
    np.random.random(5)
    b = fn(np.random.default_rng(seed))
    assert a.dtype == b.dtype == np.float64
    assert a.shape == b.shape and np.array_equal(a, b), "not reproducible"
    return a


def main():
    hyper_cases = [
        (2, 2, 0.0, 0), (2, 20, 1e-3, 1), (20, 2, 0.1, 2), (3, 7, 0.05, 3),
        (11, 4, 0.0, 4), (20, 20, 0.1, 5), (13, 17, 0.02, 6), (5, 5, 1e-3, 7),
        (9, 2, 0.1, 8), (19, 20, 0.07, 9),
    ]
    for nx, ny, kick, seed in hyper_cases:
        h = twice(lambda g: pointsets.hyperuniform(nx, ny, kick, rng=g), seed)
        assert h.ndim == 2 and h.shape[1] == 2, h.shape
        assert h.shape[0] <= nx * ny
        assert np.all(h >= 0) and np.all(h <= 1), "point outside the unit square"
        assert np.all(np.isfinite(h))
    # default kick strength, keyword rng
    h = twice(lambda g: pointsets.hyperuniform(6, 8, rng=g), 10)
    assert np.all(h >= 0) and np.all(h <= 1) and 0 < len(h) <= 48

    for n in (0, 1, 2, 3, 10, 99, 500, 1000):
        u = twice(lambda g: pointsets.uniform(n, rng=g), n)
        assert u.shape == (n, 2), u.shape
        assert np.all(u >= 0) and np.all(u <= 1), "point outside the unit square"

    for k, nx, ny, seed in [(3, 2, 5, 0), (20, 6, 4, 1), (40, 3, 3, 2)]:
        b = twice(lambda g: pointsets.bluenoise(k, nx, ny, rng=g), seed)
        assert b.ndim == 2 and b.shape[1] == 2
        assert np.all(b >= 0) and np.all(b <= 1)
        p = b * np.array([nx, ny])
        if len(p) > 1:
            d = np.linalg.norm(p[:, None, :] - p[None, :, :], axis=-1)
            assert d[np.triu_indices(len(p), 1)].min() > 1 - 1e-9

    # no rng supplied: still valid output
    assert pointsets.uniform(12).shape == (12, 2)
    h = pointsets.hyperuniform(4, 4)
    assert h.shape[1] == 2 and np.all(h > 0) and np.all(h < 1)
    print("OK")
    return 0


if __name__ == "__main__":
    sys.exit(main())
