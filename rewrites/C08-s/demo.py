"""Demo for property C08 (Bloch Hamiltonian of a unit cell reproduces the spectrum of the tiled system).

Checks, on a handful of varied unit cells / tilings / couplings:
  * union over allowed momenta of eig(H(k)) == spectrum of the real-space Majorana Hamiltonian of the tiling
  * H(k) Hermitian, 2*pi periodic in each component, H(0) == majorana_hamiltonian of the unit cell
  * each call of the generated function returns a fresh matrix
  * analyse_hk: mean lower-half energy, min |E|, (k_list, energies) ; gap_over_phase_space: per-k min |E|
Exits 0 and prints OK if everything holds.
"""
import sys
import numpy as np
from numpy import linalg as la

import koala.phase_space as ps
from koala.hamiltonian import majorana_hamiltonian
from koala.example_graphs import (honeycomb_lattice, hex_square_oct_lattice,
                                  tile_unit_cell, tri_non_lattice)
from koala.graph_color import color_lattice
from koala.voronization import generate_lattice

TOL = 1e-9
rng = np.random.default_rng(8)


def unit_cells():
    yield 'honeycomb1 (parallel edges)', honeycomb_lattice(1)
    yield 'honeycomb2', honeycomb_lattice(2)
    yield 'hex_square_oct1', hex_square_oct_lattice(1)
    yield 'tri_non1', tri_non_lattice(1)
    for n in (3, 7, 12):
        yield 'voronoi%d' % n, generate_lattice(rng.random((n, 2)))


def tiled(lattice, nx, ny):
    return tile_unit_cell(lattice.vertices.positions, lattice.edges.indices,
                          lattice.edges.crossing, [nx, ny])


def check(cond, msg):
    if not cond:
        print('FAIL:', msg)
        sys.exit(1)


def main():
    tilings = [(1, 1), (2, 2), (3, 2), (1, 4), (3, 3)]
    for n_case, (name, cell) in enumerate(unit_cells()):
        ne, nv = cell.n_edges, cell.n_vertices
        use_coloring = n_case % 3 != 2
        coloring = color_lattice(cell) if use_coloring else None
        ujk = rng.choice([-1, 1], size=ne)
        J = rng.uniform(0.2, 1.5, size=3)
        Hk = ps.k_hamiltonian_generator(cell, coloring, ujk, J)

        # k = 0, hermiticity, periodicity, fresh result
        H0 = Hk(np.array([0., 0.]))
        check(H0.shape == (nv, nv) and np.iscomplexobj(H0), name + ' shape/dtype')
        check(np.allclose(H0, majorana_hamiltonian(cell, coloring, ujk, J), atol=TOL, rtol=0),
              name + ' H(0) != real space H')
        k = rng.uniform(-4, 4, size=2)
        Hq = Hk(k)
        keep = Hq.copy()
        check(np.allclose(Hq, Hq.conj().T, atol=TOL, rtol=0), name + ' hermitian')
        for shift in ([2 * np.pi, 0], [0, 2 * np.pi], [-2 * np.pi, 4 * np.pi]):
            check(np.allclose(Hk(k + np.array(shift)), keep, atol=TOL, rtol=0), name + ' periodic')
        check(np.array_equal(Hq, keep), name + ' earlier result changed by later calls')
        # explicit entrywise formula
        ref = np.zeros((nv, nv), dtype=complex)
        jv = J[coloring] if coloring is not None else np.full(ne, J[0])
        for e in range(ne):
            a, b = cell.edges.indices[e]
            h = 0.5j * jv[e] * ujk[e] * np.exp(1j * np.dot(cell.edges.crossing[e], k))
            ref[b, a] += h
            ref[a, b] += np.conj(h)
        check(np.allclose(keep, ref, atol=TOL, rtol=0), name + ' entrywise formula')

        for (nx, ny) in tilings[n_case % 2::2] + [tilings[n_case % len(tilings)]]:
            big = tiled(cell, nx, ny)
            big_col = np.tile(coloring, nx * ny) if coloring is not None else None
            big_u = np.tile(ujk, nx * ny)
            e_real = la.eigvalsh(majorana_hamiltonian(big, big_col, big_u, J))
            ks = [2 * np.pi * np.array([mx / nx, my / ny]) for my in range(ny) for mx in range(nx)]
            per_k = [la.eigvalsh(Hk(q)) for q in ks]
            e_bloch = np.sort(np.concatenate(per_k))
            check(e_real.shape == e_bloch.shape and np.max(np.abs(e_real - e_bloch)) < TOL,
                  '%s %dx%d spectrum' % (name, nx, ny))

            # analyse_hk with per-axis k_num (and scalar when square)
            half = nv // 2
            low = np.array([e[:half] for e in per_k])
            gs_ref = 2 * low.sum() / (nx * ny * nv)
            gap_ref = np.min(np.abs(low))
            k_nums = [[nx, ny], (nx, ny)] + ([nx] if nx == ny else [])
            for k_num in k_nums:
                gs, gap = ps.analyse_hk(Hk, k_num)
                check(abs(gs - gs_ref) < TOL and abs(gap - gap_ref) < TOL,
                      '%s analyse_hk %r' % (name, k_num))
                out = ps.analyse_hk(Hk, k_num, return_all_results=True)
                check(len(out) == 4, 'analyse_hk tuple length')
                gs2, gap2, k_list, energies = out
                check(abs(gs2 - gs_ref) < TOL and abs(gap2 - gap_ref) < TOL, 'analyse_hk all')
                check(k_list.shape == (nx * ny, 2) and energies.shape == (nx * ny, half),
                      'analyse_hk shapes')
                check(np.allclose(k_list, np.array(ks), atol=TOL, rtol=0), 'k_list')
                check(np.allclose(energies, low, atol=TOL, rtol=0), 'energies')

            if nx == ny:
                gaps, k_vals = ps.gap_over_phase_space(Hk, nx, return_k_values=True)
                gaps_only = ps.gap_over_phase_space(Hk, nx)
                check(gaps.shape == (nx, nx) and k_vals.shape == (nx, nx, 2), 'gap shapes')
                check(np.allclose(gaps, gaps_only, atol=TOL, rtol=0), 'gap variants')
                for iy in range(nx):
                    for ix in range(nx):
                        q = 2 * np.pi * np.array([ix, iy]) / nx
                        check(np.allclose(k_vals[iy, ix], q, atol=TOL, rtol=0), 'k_vals')
                        g = np.min(np.abs(la.eigvalsh(Hk(q))))
                        check(abs(gaps[iy, ix] - g) < TOL, 'per-momentum gap')
                check(abs(gaps.min() - np.min(np.abs(np.concatenate(per_k)))) < TOL, 'overall gap')
    print('OK')


if __name__ == '__main__':
    main()
