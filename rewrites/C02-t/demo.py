"""C02 demo for rewrite t: the query helpers in koala.graph_utils agree with
the adjacency tables of the lattice.

  * vertex_neighbours(l, v): the edges are exactly vertices.adjacent_edges[v]
    and edge i joins v to neighbour i
  * edge_neighbours(l, e): exactly edges.adjacent_edges[e]
  * get_edge_vectors(v, es, l): the table's edge vectors, seen from v
  * clockwise_about(v, l): the same edges as the table, sorted by their angle
    from the positive x axis, i.e. the table's clockwise cycle run backwards
  * adjacent_plaquettes(l, n): the valid entries of
    plaquettes[n].adjacent_plaquettes with the edges they are across, and
    consistent with edges.adjacent_plaquettes
on periodic / strip / open lattices, dangling edges, isolated vertices (also as
the highest index), coordination 0..12, multi-edges, fresh and unpickled.
Run:  PYTHONPATH=/tmp/rw-C02/src /venv/bin/python out/t/demo.py
"""
import pickle
import sys
import warnings

import numpy as np

from koala import example_graphs as eg
from koala.graph_utils import (adjacent_plaquettes, clockwise_about,
                               clockwise_edges_about, edge_neighbours,
                               get_edge_vectors, remove_vertices,
                               vertex_neighbours)
from koala.lattice import INVALID, Lattice, cut_boundaries
from koala.voronization import generate_lattice


def inputs():
    rng = np.random.default_rng(23)
    out = []
    hc = eg.honeycomb_lattice(3)
    out += [("honeycomb", hc),
            ("honeycomb strip", cut_boundaries(hc, [True, False])),
            ("honeycomb open + dangling", cut_boundaries(hc))]
    vor = generate_lattice(rng.random((18, 2)))
    out += [("voronoi", vor),
            ("voronoi open", cut_boundaries(vor)),
            ("voronoi holes", remove_vertices(vor, np.array([0, 9])))]
    e = vor.edges.indices.copy()
    c = vor.edges.crossing.copy()
    flip = rng.random(len(e)) < 0.5
    e[flip] = e[flip][:, ::-1]
    c[flip] = -c[flip]
    out.append(("voronoi, some edges reversed",
                Lattice(vor.vertices.positions, e, c)))
    op = cut_boundaries(vor)
    pos = np.concatenate([op.vertices.positions, [[.5, .5], [.02, .97]]])
    out.append(("isolated, highest index",
                Lattice(pos, op.edges.indices, op.edges.crossing)))
    n = 12
    a = 2 * np.pi * np.arange(n) / n + 0.1
    pos = np.concatenate([[[.5, .5]],
                          .5 + .3 * np.stack([np.cos(a), np.sin(a)], 1),
                          [[.95, .95]], [[.05, .9]]])
    e = np.array([(0, i + 1) if i % 2 else (i + 1, 0) for i in range(n)] +
                 [(1 + i, 1 + (i + 1) % n) for i in range(n)] + [(3, n + 1)])
    out.append(("wheel12", Lattice(pos, e, np.zeros_like(e))))
    out.append(("tiny torus",
                Lattice(np.array([[.25, .5], [.75, .5]]),
                        np.array([[0, 1], [1, 0], [0, 1]]),
                        np.array([[0, 0], [1, 0], [0, 1]]))))
    out.append(("no edges", Lattice(rng.random((3, 2)), np.zeros((0, 2), int),
                                    np.zeros((0, 2), int))))
    for k in range(3):
        nv = int(rng.integers(3, 12))
        ed = rng.integers(0, nv, (int(rng.integers(1, 25)), 2))
        ed = ed[ed[:, 0] != ed[:, 1]]
        cr = rng.integers(-1, 2, ed.shape) if k % 2 else np.zeros_like(ed)
        out.append((f"random multigraph {k}", Lattice(rng.random((nv, 2)), ed, cr)))
    return out


def is_rotation(a, b):
    a, b = list(a), list(b)
    return len(a) == len(b) and (not a or any(a[i:] + a[:i] == b for i in range(len(a))))


def check(name, l, with_plaquettes):
    ind = l.edges.indices
    for v in range(l.n_vertices):
        table = np.asarray(l.vertices.adjacent_edges[v])
        vs, es = vertex_neighbours(l, v)
        assert vs.shape == es.shape == table.shape, (name, v)
        assert sorted(es.tolist()) == sorted(table.tolist()), (name, v)
        for w, e in zip(vs, es):
            assert sorted(ind[e].tolist()) == sorted([v, int(w)]), (name, v, e)

        # vectors seen from v
        vec = get_edge_vectors(v, es, l)
        sign = np.where(ind[es, 0] == v, 1, -1)
        assert vec.shape == (len(es), 2)
        assert np.allclose(vec, l.edges.vectors[es] * sign[:, None], rtol=0, atol=1e-12)

        # ordering about v
        cvs, ces = clockwise_about(v, l)
        assert np.array_equal(ces, clockwise_edges_about(v, l))
        assert sorted(ces.tolist()) == sorted(table.tolist())
        for w, e in zip(cvs, ces):
            assert sorted(ind[e].tolist()) == sorted([v, int(w)])
        out = l.edges.vectors[ces] * np.where(ind[ces, 0] == v, 1, -1)[:, None]
        ang = np.arctan2(out[:, 1], out[:, 0])
        ang = np.where(ang > 0, ang, ang + 2 * np.pi)
        assert np.all(np.diff(ang) >= -1e-12), (name, v, ang)
        if len(ang) == len(set(np.round(ang, 9))):  # no two edges in one direction
            assert is_rotation(ces[::-1].tolist(), table.tolist()), (name, v)

    for e in range(l.n_edges):
        got = edge_neighbours(l, e)
        assert sorted(got.tolist()) == sorted(np.asarray(l.edges.adjacent_edges[e]).tolist())
        assert e not in got

    if not with_plaquettes:
        return
    ep = l.edges.adjacent_plaquettes
    for n, p in enumerate(l.plaquettes):
        others, shared = adjacent_plaquettes(l, n)
        keep = p.adjacent_plaquettes != INVALID
        assert np.array_equal(others, p.adjacent_plaquettes[keep]), (name, n)
        assert np.array_equal(shared, p.edges[keep]), (name, n)
        assert others.dtype == np.dtype(int) and others.ndim == shared.ndim == 1
        for q, e in zip(others, shared):
            assert sorted(ep[e].tolist()) == sorted([n, int(q)]), (name, n, e)


def main():
    warnings.filterwarnings("ignore", category=RuntimeWarning)
    count = 0
    for name, l in inputs():
        check(name, l, True)
        check(name + " (unpickled)", pickle.loads(pickle.dumps(l)), True)
        count += 2
    print(f"OK ({count} lattices)")
    return 0


if __name__ == "__main__":
    sys.exit(main())
