"""Demo for rewrite r (C12): remove_vertices / remove_trailing_edges.

Checks, against a tiny pure-python oracle written here (not against the old
implementation), that
  * remove_vertices removes exactly the selected vertices and the edges touching
    them, reports those edges, renumbers the rest in order and keeps positions,
    crossings and edge order;
  * remove_trailing_edges gives the largest sub-lattice without degree-one
    vertices, is idempotent and creates no new plaquettes;
  * untouched plaquettes survive with the same geometry.
Run:  PYTHONPATH=/tmp/rw-C12/src /venv/bin/python out/r/demo.py
"""
import os
import pickle
import sys
import warnings

import numpy as np

from koala.lattice import Lattice, LatticeException, cut_boundaries
from koala.graph_utils import remove_vertices, remove_trailing_edges
from koala import example_graphs as eg
from koala.voronization import generate_lattice

warnings.filterwarnings("ignore")  # degenerate (discarded) plaquettes divide by zero area
rng = np.random.default_rng(12)


# --------------------------------------------------------------------------
# inputs
def tailed_lattice():
    # a square with two tails of different length, a separate 3-path
    # (its middle vertex becomes isolated), a separate 2-path and a lone vertex
    pos = np.array([[.2, .2], [.4, .2], [.4, .4], [.2, .4],      # square 0-3
                    [.5, .5], [.6, .6], [.7, .7],                # tail off 2
                    [.1, .1],                                    # tail off 0
                    [.8, .1], [.85, .2], [.9, .1],               # 3-path
                    [.1, .8], [.15, .9],                         # 2-path
                    [.6, .9]])                                   # lone vertex
    edges = np.array([[0, 1], [2, 4], [1, 2], [4, 5], [2, 3], [6, 5], [3, 0],
                      [7, 0], [8, 9], [10, 9], [11, 12]])
    return Lattice(pos, edges, np.zeros_like(edges))


def no_edges_lattice():
    return Lattice(np.array([[.1, .2], [.5, .5], [.7, .3]]),
                   np.zeros((0, 2), dtype=int), np.zeros((0, 2), dtype=int))


def inputs():
    out = [
        ("tailed", tailed_lattice()),
        ("no_edges", no_edges_lattice()),
        ("tri_square_pent", eg.tri_square_pent()),
        ("bridge", eg.bridge_graph()),
        ("multi_graph", eg.multi_graph()),
        ("ladder", eg.n_ladder(4, True)),
        ("honeycomb", eg.honeycomb_lattice(3)),
        ("square", eg.square_lattice(3, 4)),
    ]
    amo = generate_lattice(rng.random((9, 2)))
    out.append(("amorphous", amo))
    for sel in [(True, True), (True, False), (False, True)]:
        out.append((f"amorphous_cut{sel}", cut_boundaries(amo, sel)))
    out.append(("honeycomb_cut", cut_boundaries(eg.honeycomb_lattice(3))))
    pkl = os.path.join(os.path.dirname(os.path.abspath(__file__)), "..", "..",
                       "tests", "data", "trailing_lattice_example.pickle")
    if os.path.exists(pkl):
        with open(pkl, "rb") as f:
            out.append(("pickled_trailing", pickle.load(f)))
    return out


# --------------------------------------------------------------------------
# helpers
def plaquettes_or_none(lattice):
    try:
        return list(lattice.plaquettes)
    except LatticeException:
        return None


def plaq_key(edges, directions):
    return frozenset(zip([int(e) for e in edges], [int(d) for d in directions]))


def check_plaquettes(l_in, l_out, removed_edges, what, may_create_new):
    p_in = plaquettes_or_none(l_in)
    if p_in is None:
        return
    p_out = plaquettes_or_none(l_out)
    assert p_out is not None, what
    removed_edges = set(int(e) for e in removed_edges)
    kept = [e for e in range(l_in.n_edges) if e not in removed_edges]
    new_edge = {old: new for new, old in enumerate(kept)}
    out_by_key = {plaq_key(p.edges, p.directions): p for p in p_out}
    assert len(out_by_key) == len(p_out), what
    surviving = set()
    for p in p_in:
        if removed_edges & set(int(e) for e in p.edges):
            continue
        key = plaq_key([new_edge[int(e)] for e in p.edges], p.directions)
        assert key in out_by_key, (what, "plaquette lost")
        q = out_by_key[key]
        assert q.n_sides == p.n_sides, what
        assert np.allclose(q.center, p.center, atol=1e-12), what
        assert np.allclose(
            np.sort(l_out.vertices.positions[q.vertices], axis=0),
            np.sort(l_in.vertices.positions[p.vertices], axis=0)), what
        surviving.add(key)
    if not may_create_new:
        assert surviving == set(out_by_key), (what, "new plaquette appeared")


def oracle_remove(l, doomed):
    """(positions, edges, crossing, removed edge set) expected after deleting `doomed`"""
    doomed = set(int(v) for v in doomed)
    keep = [v for v in range(l.n_vertices) if v not in doomed]
    rank = {v: i for i, v in enumerate(keep)}
    e_new, c_new, gone = [], [], set()
    for k, (a, b) in enumerate(l.edges.indices.tolist()):
        if a in doomed or b in doomed:
            gone.add(k)
        else:
            e_new.append([rank[a], rank[b]])
            c_new.append(l.edges.crossing[k].tolist())
    return (l.vertices.positions[keep], np.array(e_new).reshape(-1, 2),
            np.array(c_new).reshape(-1, 2), gone)


def assert_is(l_out, pos, edges, crossing, what):
    assert isinstance(l_out, Lattice), what
    assert l_out.n_vertices == len(pos) and l_out.n_edges == len(edges), what
    assert l_out.vertices.positions.shape == (len(pos), 2), what
    assert np.array_equal(l_out.vertices.positions, pos), what
    assert l_out.edges.indices.shape == (len(edges), 2), what
    assert np.issubdtype(l_out.edges.indices.dtype, np.integer), what
    assert np.array_equal(l_out.edges.indices, edges), what
    assert np.array_equal(l_out.edges.crossing, crossing), what
    # edge vectors follow from positions, indices and crossing
    if len(edges):
        vec = pos[edges[:, 1]] - pos[edges[:, 0]] + crossing
        assert np.allclose(l_out.edges.vectors, vec, atol=1e-14), what


def degrees(n, edges):
    deg = [0] * n
    for a, b in edges:
        deg[a] += 1
        if b != a:
            deg[b] += 1
    return deg


def oracle_peel(l):
    """set of vertices removed by repeatedly deleting all degree-one vertices"""
    edges = [tuple(e) for e in l.edges.indices.tolist()]
    gone = set()
    while True:
        live = [(a, b) for a, b in edges if a not in gone and b not in gone]
        deg = degrees(l.n_vertices, live)
        leaves = {v for v in range(l.n_vertices) if v not in gone and deg[v] == 1}
        if not leaves:
            return gone
        gone |= leaves


# --------------------------------------------------------------------------
def vertex_subsets(l):
    n = l.n_vertices
    yield np.array([])                       # none (float64 empty array)
    yield np.array([], dtype=int)
    yield np.arange(n)                       # all
    for size in sorted({1, 2, n // 3, n // 2, n - 1} & set(range(1, n + 1))):
        for _ in range(3):
            yield rng.choice(n, size=size, replace=False)
    if n > 2:
        yield [0, n - 1]                     # a plain list
    # isolate vertex 0: delete all of its neighbours
    if l.n_edges:
        e = l.edges.indices
        nb = set(e[e[:, 0] == 0, 1].tolist()) | set(e[e[:, 1] == 0, 0].tolist())
        nb.discard(0)
        if nb:
            yield np.array(sorted(nb))


def check_remove_vertices(name, l):
    for subset in vertex_subsets(l):
        what = (name, "remove_vertices", list(np.asarray(subset)))
        pos, edges, crossing, gone = oracle_remove(l, np.asarray(subset).astype(int))
        l_out = remove_vertices(l, subset)
        assert_is(l_out, pos, edges, crossing, what)
        l_out2, reported = remove_vertices(l, subset, return_edge_removal=True)
        assert_is(l_out2, pos, edges, crossing, what)
        reported = np.asarray(reported)
        assert reported.ndim == 1 and np.issubdtype(reported.dtype, np.integer), what
        assert set(reported.tolist()) == gone, what
        check_plaquettes(l, l_out, gone, what, may_create_new=True)


def check_trailing(name, l):
    what = (name, "remove_trailing_edges")
    gone_v = oracle_peel(l)
    pos, edges, crossing, gone_e = oracle_remove(l, gone_v)
    l_out = remove_trailing_edges(l)
    assert_is(l_out, pos, edges, crossing, what)
    assert 1 not in degrees(l_out.n_vertices, l_out.edges.indices.tolist()), what
    # largest: every sub-lattice obtained by deleting vertices and having no
    # degree-one vertex must avoid all peeled vertices -- check on the peel order
    # (each peeled vertex had degree one among the vertices not yet peeled)
    l_again = remove_trailing_edges(l_out)
    assert_is(l_again, pos, edges, crossing, what + ("idempotent",))
    check_plaquettes(l, l_out, gone_e, what, may_create_new=False)


def main():
    n = 0
    for name, l in inputs():
        check_remove_vertices(name, l)
        check_trailing(name, l)
        # cut after delete, delete after trailing: compositions still consistent
        if l.n_vertices > 3:
            sub = rng.choice(l.n_vertices, size=max(1, l.n_vertices // 4), replace=False)
            check_trailing(name + "/after_removal", remove_vertices(l, sub))
        n += 1
    print(f"OK ({n} lattices)")
    return 0


if __name__ == "__main__":
    sys.exit(main())
