"""Demo for rewrite t (Lattice.__eq__ / __ne__).

Checks that lattice equality
 * always returns a plain bool and never raises: lattices of different vertex or edge counts,
   non-lattices, lattices whose arrays have other dtypes,
 * is reflexive and symmetric, and `!=` is its negation,
 * holds between a lattice and its pickled copy (protocols 2..5, before/after plaquettes are cached),
   its copy built from the legacy dictionary state, and an independently constructed twin,
 * detects any changed edge endpoint, swapped edge direction, changed crossing, and any vertex
   moved by more than a hundredth of the mean spacing 1/sqrt(n_vertices).
Exits 0 and prints OK on the unchanged tree and with the rewrite applied.
"""
import pickle
import sys
import warnings
warnings.simplefilter("ignore")

import numpy as np

from koala import example_graphs as eg
from koala import voronization
from koala.lattice import Lattice, cut_boundaries


def parts(l):
    return l.vertices.positions.copy(), l.edges.indices.copy(), l.edges.crossing.copy()


def eq(a, b):
    """a == b, checked for type, symmetry and agreement of ==, !=, __eq__, __ne__"""
    if isinstance(b, np.ndarray):   # with an array on the left numpy broadcasts, not our business
        results = [a == b, not (a != b), a.__eq__(b), not a.__ne__(b)]
        assert all(type(r) is bool for r in results) and len(set(results)) == 1
        return results[0]
    results = [a == b, b == a]
    if isinstance(a, Lattice):
        results += [a.__eq__(b), not a.__ne__(b)]
        assert type(a.__eq__(b)) is bool and type(a.__ne__(b)) is bool
    if isinstance(b, Lattice):
        results += [b.__eq__(a), not b.__ne__(a)]
    results += [not (a != b), not (b != a)]
    for r in results:
        assert type(r) is bool, type(r)
    assert len(set(results)) == 1, results
    return results[0]


def check(l, rng):
    pos, edges, crossing = parts(l)
    n = l.n_vertices
    tol = 1 / np.sqrt(n) / 100
    twin = Lattice(*parts(l))
    assert eq(l, l) and eq(l, twin)

    # pickled copies and the legacy state
    for protocol in (2, 3, 4, 5):
        assert eq(l, pickle.loads(pickle.dumps(twin, protocol=protocol)))
    twin.plaquettes
    restored = pickle.loads(pickle.dumps(twin))
    assert eq(l, restored) and eq(twin, restored)
    legacy = Lattice.__new__(Lattice)
    legacy.__setstate__(dict(twin.__dict__))
    assert eq(legacy, l) and eq(legacy, restored)
    # other dtypes for the same data
    assert eq(l, Lattice(pos.astype(np.float32), edges.astype(np.uint32), crossing.astype(np.int8)))

    # non-lattices
    for other in (None, 0, 1.5, "lattice", (pos, edges, crossing), [l], {"a": 1}, pos, object(), Lattice):
        assert not eq(l, other)
        assert l.__eq__(other) is False and l.__ne__(other) is True

    # vertex displacements
    for _ in range(6):
        v = rng.integers(n)
        angle = rng.uniform(0, 2 * np.pi)
        direction = np.array([np.cos(angle), np.sin(angle)])
        for factor, expected in ((0.0, True), (1e-6, True), (0.5, True), (0.9, True),
                                 (1.1, False), (1.5, False), (3.0, False), (50.0, False)):
            moved = pos.copy()
            moved[v] += factor * tol * direction
            assert eq(l, Lattice(moved, edges, crossing)) is expected, (factor, expected)
    # every vertex moved a little is fine, every vertex moved a lot is not
    jitter = rng.uniform(-1, 1, size=pos.shape) * tol * 0.5
    assert eq(l, Lattice(pos + jitter, edges, crossing))
    assert not eq(l, Lattice(pos + 2 * tol, edges, crossing))

    # changed edges
    for _ in range(6):
        e = rng.integers(l.n_edges)
        changed = edges.copy()
        changed[e] = changed[e, ::-1]                      # same bond, other direction
        assert not eq(l, Lattice(pos, changed, crossing))
        changed = edges.copy()
        changed[e, rng.integers(2)] = (changed[e, 0] + 1 + rng.integers(n - 1)) % n
        if not np.array_equal(changed, edges):
            try:
                other = Lattice(pos, changed, crossing)
            except Exception:
                other = None
            if other is not None:
                assert not eq(l, other)
        changed = crossing.copy()
        changed[e, rng.integers(2)] += rng.choice([-1, 1])
        assert not eq(l, Lattice(pos, edges, changed))
    if l.n_edges > 1:
        order = np.arange(l.n_edges)
        order[[0, -1]] = order[[-1, 0]]
        if not np.array_equal(edges[order], edges):
            assert not eq(l, Lattice(pos, edges[order], crossing[order]))   # edge order matters

    # different sizes
    assert not eq(l, Lattice(pos, edges[:-1], crossing[:-1]))
    assert not eq(l, Lattice(np.concatenate([pos, [[0.5, 0.5]]]), edges, crossing))
    assert not eq(l, Lattice(np.concatenate([pos, [[0.5, 0.5]]]), edges[:-1], crossing[:-1]))
    assert not eq(l, cut_boundaries(l)) or np.all(crossing == 0)


def main():
    rng = np.random.default_rng(3)
    amorphous = voronization.generate_lattice(rng.uniform(size=(49, 2)))
    honeycomb = eg.honeycomb_lattice(6)
    lattices = [
        eg.two_triangles(),
        eg.tri_square_pent(),
        eg.n_ladder(7, wobble=True),
        eg.square_lattice(5, 3),
        eg.higher_coordination_number_example(5),
        eg.bridge_graph(),
        honeycomb,
        cut_boundaries(honeycomb),
        amorphous,
        cut_boundaries(amorphous, [False, True]),
        voronization.generate_lattice(rng.uniform(size=(144, 2))),
        eg.single_plaquette(256),
    ]
    for l in lattices:
        check(l, rng)
    # all pairs: equal exactly on the diagonal
    for i, a in enumerate(lattices):
        for j, b in enumerate(lattices):
            assert eq(a, b) is (i == j), (i, j)
    # same sizes, unrelated lattices
    a = voronization.generate_lattice(rng.uniform(size=(16, 2)))
    b = voronization.generate_lattice(rng.uniform(size=(16, 2)))
    assert a.n_vertices == b.n_vertices and not eq(a, b)
    print("OK")
    return 0


if __name__ == "__main__":
    sys.exit(main())
