"""Standalone check of property C11 (path finding returns valid / shortest paths; metrics are metrics).

Runs on the unchanged tree and on the rewritten tree; prints OK and exits 0 when every clause holds.
Usage: PYTHONPATH=/tmp/rw-C11/src /venv/bin/python demo.py
"""
import heapq
import itertools
import math
import sys
import warnings

import numpy as np

warnings.filterwarnings("ignore")

from koala import example_graphs as eg
from koala import voronization
from koala.lattice import INVALID, cut_boundaries
from koala.flux_finder import fluxes_from_bonds
from koala.flux_finder.pathfinding import (
    PathFindingError, path_between_plaquettes, path_between_vertices,
    periodic_straight_line_length, straight_line_length)

METRICS = [straight_line_length, periodic_straight_line_length]
TOL = 1e-9


def fail(msg):
    print("FAIL:", msg)
    sys.exit(1)


# --------------------------------------------------------------------------
# independent reference graph + Dijkstra
# --------------------------------------------------------------------------
def plaquette_graph(l):
    nbrs = [[] for _ in range(l.n_plaquettes)]
    for e, (a, b) in enumerate(l.edges.adjacent_plaquettes):
        if a != INVALID and b != INVALID:
            nbrs[a].append((int(b), e))
            nbrs[b].append((int(a), e))
    pos = [p.center for p in l.plaquettes]
    return nbrs, pos


def vertex_graph(l):
    nbrs = [[] for _ in range(l.n_vertices)]
    for e, (a, b) in enumerate(l.edges.indices):
        nbrs[a].append((int(b), e))
        nbrs[b].append((int(a), e))
    return nbrs, list(l.vertices.positions)


def connected(nbrs):
    if not nbrs:
        return False
    seen, todo = {0}, [0]
    while todo:
        for q, _ in nbrs[todo.pop()]:
            if q not in seen:
                seen.add(q)
                todo.append(q)
    return len(seen) == len(nbrs)


def dijkstra(nbrs, pos, metric, src):
    dist = [math.inf] * len(nbrs)
    dist[src] = 0.0
    heap = [(0.0, src)]
    while heap:
        d, u = heapq.heappop(heap)
        if d > dist[u]:
            continue
        for v, _ in nbrs[u]:
            nd = d + float(metric(pos[u], pos[v]))
            if nd < dist[v]:
                dist[v] = nd
                heapq.heappush(heap, (nd, v))
    return dist


# --------------------------------------------------------------------------
# the clauses
# --------------------------------------------------------------------------
def check_chain(kind, l, nodes, edges, start, goal):
    nodes, edges = list(nodes), list(edges)
    if len(nodes) < 1 or len(edges) != len(nodes) - 1:
        fail(f"{kind}: need one edge per step, got {len(nodes)} nodes / {len(edges)} edges")
    if int(nodes[-1]) != int(start) or int(nodes[0]) != int(goal):
        fail(f"{kind}: ends {nodes[0]}, {nodes[-1]} are not goal={goal}, start={start}")
    table = l.edges.adjacent_plaquettes if kind == "plaq" else l.edges.indices
    for a, b, e in zip(nodes[:-1], nodes[1:], edges):
        if sorted(int(x) for x in table[e]) != sorted((int(a), int(b))):
            fail(f"{kind}: edge {e} does not join {a} and {b}")


def path_length(nodes, pos, metric):
    return sum(float(metric(pos[a], pos[b])) for a, b in zip(nodes[:-1], nodes[1:]))


def check_lattice(name, l, rng, all_pairs_limit=14, n_random=12):
    budget = l.n_edges
    for kind, finder, (nbrs, pos) in (
        ("plaq", path_between_plaquettes, plaquette_graph(l)),
        ("vert", path_between_vertices, vertex_graph(l)),
    ):
        if not connected(nbrs):
            continue
        n = len(nbrs)
        if n <= all_pairs_limit:
            pairs = list(itertools.product(range(n), repeat=2))
        else:
            pairs = [tuple(rng.integers(n, size=2)) for _ in range(n_random)]
            pairs += [(int(p), int(p)) for p in rng.integers(n, size=2)]
        bonds0 = np.ones(l.n_edges, dtype=int)
        flux0 = fluxes_from_bonds(l, bonds0) if kind == "plaq" else None
        ref = {}
        for start, goal in pairs:
            for metric in METRICS:
                for early in (True, False):
                    try:
                        nodes, edges = finder(l, start, goal, heuristic=metric,
                                              early_stopping=early, maxits=budget)
                    except PathFindingError as err:
                        fail(f"{name}/{kind}: no path with budget n_edges: {err}")
                    check_chain(kind, l, nodes, edges, start, goal)
                    if not early:
                        key = (metric.__name__, int(start))
                        if key not in ref:
                            ref[key] = dijkstra(nbrs, pos, metric, int(start))
                        got = path_length(nodes, pos, metric)
                        want = ref[key][int(goal)]
                        if abs(got - want) > TOL * max(1.0, want):
                            fail(f"{name}/{kind}: {start}->{goal} length {got} but shortest is {want}")
                    if kind == "plaq":
                        bonds = bonds0.copy()
                        bonds[np.asarray(edges, dtype=int)] *= -1
                        changed = set(np.nonzero(fluxes_from_bonds(l, bonds) != flux0)[0].tolist())
                        expect = set() if int(start) == int(goal) else {int(start), int(goal)}
                        if changed != expect:
                            fail(f"{name}: flipping path {start}->{goal} changed fluxes {changed}")


def check_metrics(rng):
    pts = [rng.random(2) for _ in range(60)]
    pts += [np.array(p, dtype=float) for p in
            [(0, 0), (0.5, 0.5), (0, 0.5), (0.25, 0.75), (0.999999, 0.0), (0.0, 0.999999),
             (0.5, 0.0), (1e-9, 1 - 1e-9), (0.75, 0.25), (0.1, 0.6)]]
    for a in pts:
        for b in pts:
            e_ab, e_ba = straight_line_length(a, b), straight_line_length(b, a)
            p_ab, p_ba = periodic_straight_line_length(a, b), periodic_straight_line_length(b, a)
            if e_ab != e_ba or p_ab != p_ba:
                fail(f"metric not symmetric at {a}, {b}")
            if e_ab < 0 or p_ab < 0:
                fail(f"metric negative at {a}, {b}")
            same = bool(np.all(a == b))
            if (e_ab == 0) != same or (p_ab == 0) != same:
                fail(f"metric zero-ness wrong at {a}, {b}")
            if p_ab > e_ab:
                fail(f"periodic metric longer than Euclidean at {a}, {b}")
            d = np.abs(a - b)
            want_e = math.hypot(*d)
            want_p = math.hypot(*(min(x, 1 - x) for x in d))
            if abs(e_ab - want_e) > 1e-12 or abs(p_ab - want_p) > 1e-12:
                fail(f"metric value wrong at {a}, {b}")
            if not isinstance(e_ab, float) or not isinstance(p_ab, float):
                fail("metric does not return a float")


def main():
    rng = np.random.default_rng(20240611)
    check_metrics(rng)

    lattices = []
    for n_seeds in (9, 12, 30, 70):
        pts = rng.random((n_seeds, 2))
        lattices.append((f"voronoi{n_seeds}", voronization.generate_lattice(pts)))
    lattices.append(("honeycomb3", eg.honeycomb_lattice(3)))
    lattices.append(("square4x4", eg.square_lattice(4, 4)))
    lattices.append(("hexsqoct2", eg.hex_square_oct_lattice(2)))
    big = voronization.generate_lattice(rng.random((40, 2)))
    lattices.append(("voronoi40-open", cut_boundaries(big, [True, True])))
    lattices.append(("voronoi40-strip", cut_boundaries(big, [True, False])))
    lattices.append(("honeycomb4-open", cut_boundaries(eg.honeycomb_lattice(4), [True, True])))
    lattices.append(("square5x5-strip", cut_boundaries(eg.square_lattice(5, 5), [False, True])))

    for name, l in lattices:
        check_lattice(name, l, rng)
    print("OK")


if __name__ == "__main__":
    main()
