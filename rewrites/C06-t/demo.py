"""C06 demo for rewrite t (deprecated find_flux_sector / fluxes_from_bonds expressed through the current
solver and flux function plus a per-plaquette convention sign; make_amorphous calling the current solver
directly, with a scipy connectivity test and a tabulated ansatz).  Checks: the deprecated pair obeys the solver
contract in its own flux convention (recomputed independently here from the n_sides mod 4 sign table), both
for real and complex fluxes; the current pair still does; make_amorphous returns a proper 3-edge-colouring
and int8 +-1 bonds realising ground_state_ansatz (exactly when periodic, up to one plaquette when open),
reproducibly for a seeded generator; make_honeycomb.  Exits 0 printing OK.

Run:  PYTHONPATH=/tmp/rw-C06/src /venv/bin/python out/t/demo.py
"""
import itertools
import sys
import warnings

import numpy as np

warnings.simplefilter("ignore", DeprecationWarning)

from koala import example_graphs as eg
from koala import voronization
from koala.flux_finder import (find_flux_sector, fluxes_from_bonds,
                               fluxes_from_ujk, ujk_from_fluxes)
from koala.lattice import INVALID, cut_boundaries


def plaquettes_connected(lattice):
    n = lattice.n_plaquettes
    if n == 0:
        return False
    nbrs = [[] for _ in range(n)]
    for a, b in lattice.edges.adjacent_plaquettes:
        if a != INVALID and b != INVALID:
            nbrs[a].append(b)
            nbrs[b].append(a)
    seen, todo = {0}, [0]
    while todo:
        for q in nbrs[todo.pop()]:
            if q not in seen:
                seen.add(q)
                todo.append(q)
    return len(seen) == n


def check_solver(lattice, solver, flux_of, target, guess, tag):
    """The contract: +-1 int8 bonds, target reached up to the parity obstruction, inputs untouched."""
    t_before = None if target is None else target.copy()
    g_before = None if guess is None else guess.copy()
    args = [lattice]
    if target is not None or guess is not None:
        args.append(target)
    if guess is not None:
        args.append(guess)
    bonds = solver(*args)

    assert isinstance(bonds, np.ndarray), tag
    assert bonds.shape == (lattice.n_edges, ), tag
    assert bonds.dtype == np.int8, (tag, bonds.dtype)
    assert np.all(np.abs(bonds) == 1), tag
    if target is not None:
        assert np.array_equal(target, t_before) and target.dtype == t_before.dtype, tag
    if guess is not None:
        assert np.array_equal(guess, g_before) and guess.dtype == g_before.dtype, tag

    start = np.ones(lattice.n_edges, dtype=np.int8) if guess is None else guess
    if target is None:
        # the default target is convention specific: checked by the caller
        return bonds
    must_change = np.count_nonzero(flux_of(lattice, start) != target)
    wrong = np.count_nonzero(flux_of(lattice, bonds) != target)
    assert wrong == must_change % 2, (tag, must_change, wrong)
    return bonds


def targets_for(lattice, rng):
    F = lattice.n_plaquettes
    if F <= 6:
        for bits in itertools.product([1, -1], repeat=F):
            yield np.array(bits, dtype=int)
        return
    yield np.ones(F, dtype=int)
    yield -np.ones(F, dtype=np.int8)
    for k in (1, 2, 2, 3, 4):  # sparse: isolated, usually far apart
        t = np.ones(F, dtype=int)
        t[rng.choice(F, size=min(k, F), replace=False)] = -1
        yield t
    # the two plaquettes that are furthest apart in the unit square
    centres = np.array([p.center for p in lattice.plaquettes])
    d = np.linalg.norm(centres[:, None] - centres[None, :], axis=-1)
    a, b = np.unravel_index(np.argmax(d), d.shape)
    t = np.ones(F, dtype=int)
    t[[a, b]] = -1
    yield t
    for p_minus in (0.3, 0.5, 0.8):  # dense
        yield rng.choice([1, -1], size=F, p=[1 - p_minus, p_minus])


def lattices(rng):
    yield "honeycomb2", eg.honeycomb_lattice(2)
    yield "honeycomb5", eg.honeycomb_lattice(5)
    yield "square3x4", eg.square_lattice(3, 4)
    yield "hex_square_oct2", eg.hex_square_oct_lattice(2)
    for n in (9, 25, 60):
        yield f"voronoi{n}", voronization.generate_lattice(rng.uniform(size=(n, 2)))
    # open / strip cuts (kept only if the plaquette adjacency graph is connected)
    opens = [
        ("honeycomb6-open", cut_boundaries(eg.honeycomb_lattice(6))),
        ("honeycomb6-strip", cut_boundaries(eg.honeycomb_lattice(6), [True, False])),
        ("square5x5-open", cut_boundaries(eg.square_lattice(5, 5))),
        ("square4x6-strip", cut_boundaries(eg.square_lattice(4, 6), [False, True])),
    ]
    for n in (20, 40, 80):
        l = voronization.generate_lattice(rng.uniform(size=(n, 2)))
        opens.append((f"voronoi{n}-open", cut_boundaries(l)))
        opens.append((f"voronoi{n}-strip", cut_boundaries(l, [False, True])))
    for name, l in opens:
        if plaquettes_connected(l):
            yield name, l


def check_make_amorphous():
    n = 0
    for length in (3, 4, 5, 6):
        for obc in (False, True):
            seed = 100 * length + obc
            lattice, coloring, ujk = eg.make_amorphous(length, open_boundary_conditions=obc,
                                                       rng=np.random.default_rng(seed))
            tag = (length, obc)
            # proper 3-edge-colouring
            assert coloring.shape == (lattice.n_edges, ), tag
            assert set(np.unique(coloring)) <= {0, 1, 2}, tag
            for v in range(lattice.n_vertices):
                colours = coloring[lattice.vertices.adjacent_edges[v]]
                assert len(set(colours)) == len(colours), tag
            # bonds
            assert isinstance(ujk, np.ndarray) and ujk.dtype == np.int8, tag
            assert ujk.shape == (lattice.n_edges, ) and np.all(np.abs(ujk) == 1), tag
            ansatz = np.array([eg.ground_state_ansatz(p.n_sides) for p in lattice.plaquettes])
            wrong = np.count_nonzero(fluxes_from_bonds(lattice, ujk) != ansatz)
            assert wrong == 0 if not obc else wrong <= 1, (tag, wrong)
            if obc:
                assert plaquettes_connected(lattice), tag
                assert np.all(lattice.edges.crossing == 0), tag
            else:
                assert lattice.n_plaquettes == length**2, tag
            # reproducible, with and without return_points
            l2, c2, u2, points = eg.make_amorphous(length, return_points=True,
                                                   open_boundary_conditions=obc,
                                                   rng=np.random.default_rng(seed))
            assert l2 == lattice and np.array_equal(c2, coloring) and np.array_equal(u2, ujk), tag
            assert points.shape == (length**2, 2), tag
            n += 2
    # unseeded call and the regular counterpart
    lattice, coloring, ujk = eg.make_amorphous(4)
    assert ujk.dtype == np.int8 and lattice.n_plaquettes == 16
    for L in (2, 3, 6):
        lattice, coloring, ujk = eg.make_honeycomb(L)
        assert ujk.dtype == np.int8 and coloring.dtype == np.int8
        assert np.all(ujk == 1) and ujk.shape == (lattice.n_edges, )
        for v in range(lattice.n_vertices):
            assert sorted(coloring[lattice.vertices.adjacent_edges[v]]) == [0, 1, 2]
        assert np.all(fluxes_from_ujk(lattice, ujk) == fluxes_from_ujk(lattice, ujk)[0])
    return n + 1


def main():
    rng = np.random.default_rng(606)
    n_cases = 0
    for name, lattice in lattices(rng):
        assert plaquettes_connected(lattice), name
        for i, target in enumerate(targets_for(lattice, rng)):
            guess = rng.choice([1, -1], size=lattice.n_edges).astype(np.int8)
            for g in (None, guess):
                check_solver(lattice, ujk_from_fluxes, fluxes_from_ujk, target, g,
                             (name, "new", i))
                check_solver(lattice, find_flux_sector, fluxes_from_bonds, target, g,
                             (name, "old", i))
                n_cases += 2
        # default arguments: all -1 (new convention) / all +1 (old convention), from all-ones bonds
        b = check_solver(lattice, ujk_from_fluxes, fluxes_from_ujk, None, None, (name, "new-default"))
        start = np.ones(lattice.n_edges, dtype=np.int8)
        need = np.count_nonzero(fluxes_from_ujk(lattice, start) != -1)
        assert np.count_nonzero(fluxes_from_ujk(lattice, b) != -1) == need % 2, name
        b = check_solver(lattice, find_flux_sector, fluxes_from_bonds, None, None, (name, "old-default"))
        need = np.count_nonzero(fluxes_from_bonds(lattice, start) != 1)
        assert np.count_nonzero(fluxes_from_bonds(lattice, b) != 1) == need % 2, name

        # the deprecated flux function against its definition, written out independently
        u = rng.choice([1, -1], size=lattice.n_edges).astype(np.int8)
        sign_table = [1, -1, -1, 1]
        expected_real = np.array([
            sign_table[p.n_sides % 4] * np.prod(u[p.edges] * p.directions)
            for p in lattice.plaquettes
        ])
        expected_complex = np.array([(1j if p.n_sides % 2 else 1) * f
                                     for p, f in zip(lattice.plaquettes, expected_real)])
        got = fluxes_from_bonds(lattice, u)
        assert got.dtype == np.dtype(int) and np.array_equal(got, expected_real), name
        got = fluxes_from_bonds(lattice, u, real=False)
        assert got.dtype == np.dtype(complex) and np.array_equal(got, expected_complex), name
        assert np.array_equal(fluxes_from_bonds(lattice, u, False), expected_complex), name
        # target handed over as a plain list, as the old implementation tolerated
        t = [int(x) for x in rng.choice([1, -1], size=lattice.n_plaquettes)]
        b = find_flux_sector(lattice, list(t))
        need = np.count_nonzero(fluxes_from_bonds(lattice, np.ones(lattice.n_edges, dtype=np.int8)) != t)
        assert np.count_nonzero(fluxes_from_bonds(lattice, b) != t) == need % 2, name

    assert n_cases > 300, n_cases
    n_amorphous = check_make_amorphous()
    print("OK", n_cases, "solver cases,", n_amorphous, "make_amorphous calls")
    return 0


if __name__ == "__main__":
    sys.exit(main())
