"""Demo for C18: Chern / crosshair markers implement their defining formula and symmetries.

Checks, on a handful of varied inputs, every clause of the property against an
independent element-by-element reference written here:
  formula, realness, zero sum, x<->y antisymmetry, vertex relabelling, gauge invariance,
  no mutation of inputs / repeatable second call, result shape and dtype.
Exits 0 and prints OK on the unchanged tree and with the rewrite applied.
"""
import sys
import numpy as np
from numpy import linalg as la

from koala import chern_number as cn
from koala.lattice import Lattice
from koala.pointsets import uniform
from koala.voronization import generate_lattice
from koala.graph_color import color_lattice
from koala.hamiltonian import majorana_hamiltonian
from koala.example_graphs import honeycomb_lattice

TOL = 1e-9
rng = np.random.default_rng(180018)
n_checks = 0


def ref_marker(P, a, b):
    """4*pi*Im diag(P A P B P) with A=diag(a), B=diag(b); plain dense products."""
    A = np.diag(np.asarray(a, dtype=float))
    B = np.diag(np.asarray(b, dtype=float))
    M = P.astype(complex) @ A @ P.astype(complex) @ B @ P.astype(complex)
    return 4 * np.pi * np.array([M[i, i].imag for i in range(P.shape[0])])


def ring_lattice(pos):
    n = pos.shape[0]
    if n == 2:
        edges = np.array([[0, 1]])
    else:
        edges = np.array([[i, (i + 1) % n] for i in range(n)])
    return Lattice(pos, edges, np.zeros_like(edges))


def random_projector(n, rank, real=False):
    if real:
        M = rng.normal(size=(n, n))
    else:
        M = rng.normal(size=(n, n)) + 1j * rng.normal(size=(n, n))
    q, _ = la.qr(M)
    v = q[:, :rank]
    return v @ v.conj().T, v


def close(a, b, scale=1.0):
    return np.max(np.abs(np.asarray(a) - np.asarray(b)), initial=0.0) <= TOL * max(1.0, scale)


def check(cond, msg):
    global n_checks
    n_checks += 1
    if not cond:
        print("FAIL:", msg)
        sys.exit(1)


def check_all(lattice, P, crosshairs, states=None, tag=""):
    pos = lattice.vertices.positions
    n = pos.shape[0]
    P0 = P.copy()
    pos0 = pos.copy()
    scale = max(1.0, float(np.max(np.abs(P))) ** 3 * n * n)

    # ---- chern marker
    ch = cn.chern_marker(lattice, P)
    check(isinstance(ch, np.ndarray) and ch.shape == (n,) and ch.dtype == np.float64,
          f"{tag} chern shape/dtype {getattr(ch, 'shape', None)} {getattr(ch, 'dtype', None)}")
    check(np.all(np.isreal(ch)) and np.all(np.isfinite(ch)), f"{tag} chern real/finite")
    check(close(ch, ref_marker(P, pos[:, 0], pos[:, 1]), scale), f"{tag} chern formula")
    check(abs(ch.sum()) <= TOL * scale * n, f"{tag} chern sum zero: {ch.sum()}")
    check(np.array_equal(cn.chern_marker(lattice, P), ch), f"{tag} chern second call")

    # ---- crosshair marker
    for c in crosshairs:
        c0 = np.array(c, copy=True)
        cr = cn.crosshair_marker(lattice, P, c)
        check(isinstance(cr, np.ndarray) and cr.shape == (n,) and cr.dtype == np.float64,
              f"{tag} crosshair shape/dtype")
        tx = pos[:, 0] < c[0]
        ty = pos[:, 1] < c[1]
        check(close(cr, ref_marker(P, tx, ty), scale), f"{tag} crosshair formula at {c}")
        check(abs(cr.sum()) <= TOL * scale * n, f"{tag} crosshair sum zero at {c}: {cr.sum()}")
        check(np.array_equal(cn.crosshair_marker(lattice, P, c), cr), f"{tag} crosshair second call")
        check(np.array_equal(np.asarray(c), c0), f"{tag} crosshair position mutated")

    # ---- x <-> y exchange flips the sign
    swapped = ring_lattice(np.ascontiguousarray(pos[:, ::-1]))
    check(close(cn.chern_marker(swapped, P), -ch, scale), f"{tag} chern xy antisymmetry")
    for c in crosshairs:
        cr = cn.crosshair_marker(lattice, P, c)
        crs = cn.crosshair_marker(swapped, P, np.array([c[1], c[0]]))
        check(close(crs, -cr, scale), f"{tag} crosshair xy antisymmetry at {c}")

    # ---- relabelling of vertices: the marker follows the sites
    perm = rng.permutation(n)
    relab = ring_lattice(pos[perm])
    Pp = P[np.ix_(perm, perm)]
    check(close(cn.chern_marker(relab, Pp), ch[perm], scale), f"{tag} chern relabelling")
    for c in crosshairs:
        cr = cn.crosshair_marker(lattice, P, c)
        check(close(cn.crosshair_marker(relab, Pp, c), cr[perm], scale),
              f"{tag} crosshair relabelling at {c}")

    # ---- site-wise sign gauge on the states spanning P
    s = rng.choice([-1.0, 1.0], size=n)
    if states is not None:
        gv = s[:, None] * states
        Pg = gv @ gv.conj().T
    else:
        Pg = (s[:, None] * P) * s[None, :]
    check(close(cn.chern_marker(lattice, Pg), ch, scale), f"{tag} chern gauge")
    for c in crosshairs:
        cr = cn.crosshair_marker(lattice, P, c)
        check(close(cn.crosshair_marker(lattice, Pg, c), cr, scale), f"{tag} crosshair gauge at {c}")

    # ---- inputs untouched
    check(np.array_equal(P, P0), f"{tag} projector mutated")
    check(np.array_equal(lattice.vertices.positions, pos0), f"{tag} positions mutated")


def crosshairs_for(pos):
    n = pos.shape[0]
    v = pos[rng.integers(n)]
    w = pos[rng.integers(n)]
    return [
        np.array([0.5, 0.5]),
        rng.uniform(0, 1, size=2),
        np.array([v[0], v[1]]),            # exactly on a vertex
        np.array([v[0], w[1]]),            # on vertex coordinates of two different sites
        np.array([-0.3, 0.4]),             # outside: nothing below in x
        np.array([0.4, -2.0]),             # outside: nothing below in y
        np.array([1.7, 2.5]),              # outside: everything below
        np.array([pos[:, 0].min(), pos[:, 1].max()]),   # strictness at the extremes
    ]


# 1. random projectors of every rank on small random lattices
for n in (2, 3, 5, 8, 13):
    pos = rng.uniform(0, 1, size=(n, 2))
    lat = ring_lattice(pos)
    for rank in range(n + 1):
        P, v = random_projector(n, rank)
        check_all(lat, P, crosshairs_for(pos), states=v, tag=f"rand n={n} r={rank}")

# 2. a few larger random lattices, selected ranks, real projectors as well
for n in (31, 60):
    pos = rng.uniform(0, 1, size=(n, 2))
    lat = ring_lattice(pos)
    for rank in (0, 1, n // 2, n - 1, n):
        P, v = random_projector(n, rank)
        check_all(lat, P, crosshairs_for(pos), states=v, tag=f"rand n={n} r={rank}")
    P, v = random_projector(n, n // 3, real=True)
    check_all(lat, P, crosshairs_for(pos), states=v, tag=f"real n={n}")

# 3. spectral projectors of Majorana Hamiltonians (Voronoi + honeycomb), random u and J
majorana_lattices = [("voronoi", generate_lattice(uniform(14, rng=rng))),
                     ("honeycomb", honeycomb_lattice(3))]
for name, lat in majorana_lattices:
    coloring = color_lattice(lat)
    for trial in range(2):
        ujk = rng.choice([-1, 1], size=lat.n_edges)
        J = rng.uniform(0.2, 1.5, size=3)
        H = majorana_hamiltonian(lat, coloring, ujk, J)
        eigs, vecs = la.eigh(H)
        occ = vecs[:, eigs < 0]
        P = occ @ occ.conj().T
        check_all(lat, P, crosshairs_for(lat.vertices.positions), states=occ,
                  tag=f"{name} trial={trial}")

print(f"OK ({n_checks} checks)")
