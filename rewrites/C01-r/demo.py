"""Standalone check of property C01 (plaquettes == legitimate faces of the embedding).

Run with  PYTHONPATH=/tmp/rw-C01/src /venv/bin/python demo.py
Exits 0 and prints OK when every clause holds on every input below.

The reference face enumeration in this file is independent of koala: it builds its own
rotation system from math.atan2, traces all face walks, and keeps those with no repeated
edge, zero net crossing and positive shoelace area.  Plaquettes are compared with it as
SETS of directed-edge cycles, so neither the order of the list nor the start of a cycle matter.
"""
import os
import sys
import math
import itertools
import warnings

os.environ.setdefault("MPLBACKEND", "Agg")
import numpy as np

from koala.lattice import Lattice, LatticeException, cut_boundaries
from koala import voronization, graph_utils
from koala import example_graphs as eg

FOCUS = "r"  # which rewrite this copy of the demo accompanies (r, s or t)


def fail(msg):
    print("FAIL:", msg)
    sys.exit(1)


# --------------------------------------------------------------------------- reference
def reference_faces(l):
    E = np.asarray(l.edges.indices)
    X = np.asarray(l.edges.crossing)
    P = np.asarray(l.vertices.positions, dtype=float)
    vec = {}
    leaving = {v: [] for v in range(P.shape[0])}
    for e in range(E.shape[0]):
        a, b = int(E[e, 0]), int(E[e, 1])
        dx = P[b, 0] - P[a, 0] + X[e, 0]
        dy = P[b, 1] - P[a, 1] + X[e, 1]
        vec[(e, 1)] = (dx, dy)
        vec[(e, -1)] = (-dx, -dy)
        leaving[a].append((math.atan2(dy, dx), e, 1))
        leaving[b].append((math.atan2(-dy, -dx), e, -1))
    succ = {}
    for v, lst in leaving.items():
        lst.sort()  # anticlockwise by angle
        k = len(lst)
        for j, (_, e, d) in enumerate(lst):
            # dart (e,-d) arrives at v; keep the face on the left: leave along the next edge clockwise
            _, e2, d2 = lst[(j - 1) % k]
            succ[(e, -d)] = (e2, d2)
    faces, seen = [], set()
    for start in sorted(succ):
        if start in seen:
            continue
        walk, dart = [], start
        while dart not in seen:
            seen.add(dart)
            walk.append(dart)
            dart = succ[dart]
        assert dart == start
        faces.append(walk)
    legit = []
    for walk in faces:
        es = [e for e, _ in walk]
        if len(set(es)) != len(es):
            continue
        net = sum(d * X[e] for e, d in walk)
        if np.any(net != 0):
            continue
        pts = np.cumsum(np.array([vec[d] for d in walk]), axis=0)
        x, y = pts[:, 0], pts[:, 1]
        area = 0.5 * np.sum(x * np.roll(y, -1) - np.roll(x, -1) * y)
        if area <= 0:
            continue
        legit.append(frozenset(walk))
    return succ, vec, legit


def centroid(points):
    x, y = points[:, 0], points[:, 1]
    xn, yn = np.roll(x, -1), np.roll(y, -1)
    c = x * yn - xn * y
    a = 0.5 * np.sum(c)
    return np.array([np.sum((x + xn) * c), np.sum((y + yn) * c)]) / (6 * a), a


# --------------------------------------------------------------------------- the check
def check(name, l):
    succ, vec, legit = reference_faces(l)
    with warnings.catch_warnings():
        warnings.simplefilter("ignore")
        plaqs = l.plaquettes
    if not (isinstance(plaqs, np.ndarray) and plaqs.dtype == object and plaqs.ndim == 1):
        fail(f"{name}: plaquettes is not a 1-d object array")
    if l.n_plaquettes != len(plaqs):
        fail(f"{name}: n_plaquettes mismatch")
    E = l.edges.indices
    P = l.vertices.positions
    got = []
    for n, p in enumerate(plaqs):
        for arr in (p.vertices, p.edges, p.directions):
            if not (isinstance(arr, np.ndarray) and arr.ndim == 1 and arr.dtype.kind in "iu"):
                fail(f"{name}[{n}]: index arrays must be 1-d integer ndarrays")
        k = len(p.edges)
        if not (p.n_sides == k == len(p.vertices) == len(p.directions)) or k < 2:
            fail(f"{name}[{n}]: n_sides / lengths disagree")
        if not set(np.unique(p.directions)) <= {1, -1}:
            fail(f"{name}[{n}]: directions not +-1")
        walk = [(int(e), int(d)) for e, d in zip(p.edges, p.directions)]
        for i, (e, d) in enumerate(walk):
            tail = E[e, 0] if d == 1 else E[e, 1]
            head = E[e, 1] if d == 1 else E[e, 0]
            if tail != p.vertices[i] or head != p.vertices[(i + 1) % k]:
                fail(f"{name}[{n}]: edge {i} does not lead from vertex {i} to vertex {i+1}")
            if succ[(e, d)] != walk[(i + 1) % k]:
                fail(f"{name}[{n}]: walk does not follow the face boundary")
        vs = np.array([vec[d] for d in walk])
        if np.abs(vs.sum(axis=0)).max() > 1e-9:
            fail(f"{name}[{n}]: edge vectors do not sum to zero")
        if len({e for e, _ in walk}) != k:
            fail(f"{name}[{n}]: an edge is used twice")
        if np.any(sum(d * l.edges.crossing[e] for e, d in walk) != 0):
            fail(f"{name}[{n}]: net boundary crossing")
        pts = P[p.vertices[0]] + np.concatenate([[[0.0, 0.0]], np.cumsum(vs, axis=0)[:-1]])
        c, a = centroid(pts)
        if not a > 0:
            fail(f"{name}[{n}]: not anticlockwise")
        ctr = np.asarray(p.center)
        if ctr.shape != (2,) or ctr.dtype.kind != "f" or not np.allclose(ctr, c, rtol=0, atol=1e-8):
            fail(f"{name}[{n}]: center {ctr} is not the centroid {c}")
        got.append(frozenset(walk))
    if len(set(got)) != len(got):
        fail(f"{name}: a plaquette is listed twice")
    all_darts = list(itertools.chain.from_iterable(got))
    if len(set(all_darts)) != len(all_darts):
        fail(f"{name}: a directed edge belongs to two plaquettes")
    if set(got) != set(legit):
        fail(f"{name}: plaquettes {len(got)} != legitimate faces {len(legit)}")
    # bookkeeping derived from the list (kept consistent whatever the order)
    adj = l.edges.adjacent_plaquettes
    for n, p in enumerate(plaqs):
        side = ((1 - p.directions) // 2).astype(int)
        if np.any(adj[p.edges, side] != n):
            fail(f"{name}: edges.adjacent_plaquettes inconsistent with plaquette {n}")
    return len(got)


def subgraph(l, keep):
    keep = np.asarray(keep, dtype=bool)
    return Lattice(l.vertices.positions, l.edges.indices[keep], l.edges.crossing[keep])


def inputs():
    rng = np.random.default_rng(20240101)
    for n in (2, 3, 4, 5, 7, 12, 25):
        pts = rng.random((n, 2))
        for shift in (True, False):
            yield f"voronoi{n}/{shift}", voronization.generate_lattice(pts, shift_vertices=shift)
    base = voronization.generate_lattice(rng.random((14, 2)))
    for cut in ([True, False], [False, True], [True, True]):
        yield f"cut{cut}", cut_boundaries(base, cut)
    for k in range(6):
        keep = rng.random(base.n_edges) > (0.15 + 0.12 * k)
        yield f"edge-deleted{k}", subgraph(base, keep)
        sub = subgraph(cut_boundaries(base, [True, False]), keep[: cut_boundaries(base, [True, False]).n_edges])
        yield f"strip-edge-deleted{k}", sub
    for k in range(3):
        gone = rng.choice(base.n_vertices, size=3 + 2 * k, replace=False)
        yield f"vertex-deleted{k}", graph_utils.remove_vertices(base, gone)
    yield "dual", graph_utils.make_dual(voronization.generate_lattice(rng.random((30, 2))))
    yield "dual-small", graph_utils.make_dual(voronization.generate_lattice(rng.random((16, 2))))
    for name, l in [
        ("tri_square_pent", eg.tri_square_pent()), ("two_triangles", eg.two_triangles()),
        ("tutte", eg.tutte_graph()), ("ladder", eg.n_ladder(6, True)), ("bridge", eg.bridge_graph()),
        ("concave", eg.concave_plaquette()), ("highcoord", eg.higher_coordination_number_example(7)),
        ("star", eg.star_lattice_sheared()[0]), ("single5", eg.single_plaquette(5)),
        ("honeycomb1", eg.honeycomb_lattice(1)), ("honeycomb2", eg.honeycomb_lattice(2)),
        ("honeycomb4", eg.honeycomb_lattice(4)), ("hso1", eg.hex_square_oct_lattice(1)),
        ("hso2", eg.hex_square_oct_lattice(2)), ("square3x2", eg.square_lattice(3, 2)),
        ("square2x2", eg.square_lattice(2, 2)),
    ]:
        yield name, l
    yield "no-edges", Lattice(rng.random((4, 2)), np.zeros((0, 2), dtype=int), np.zeros((0, 2), dtype=int))
    # exhaustively every edge subset of small base embeddings
    for bname, b in (("bridge", eg.bridge_graph()), ("honeycomb1", eg.honeycomb_lattice(1)),
                     ("voronoi2", voronization.generate_lattice(np.array([[0.21, 0.33], [0.68, 0.74]])))):
        if b.n_edges > 9:
            continue
        for mask in itertools.product([False, True], repeat=b.n_edges):
            yield f"{bname}-subset{mask}", subgraph(b, mask)


def main():
    total, count = 0, 0
    for name, l in inputs():
        if np.any(l.edges.indices[:, 0] == l.edges.indices[:, 1]):
            continue  # self-loops are outside the property
        total += check(name, l)
        count += 1
    # outside the quantifier, but part of koala's test-suite contract: self-loops are refused
    for bad in (eg.multi_graph(), eg.square_lattice(1, 1)):
        try:
            with warnings.catch_warnings():
                warnings.simplefilter("ignore")
                bad.plaquettes
        except LatticeException:
            pass
        else:
            fail("self-loop lattice did not raise LatticeException")
    if count < 60 or total < 200:
        fail(f"too few inputs exercised ({count} lattices, {total} plaquettes)")
    print(f"checked {count} lattices, {total} plaquettes ({FOCUS})")
    print("OK")


if __name__ == "__main__":
    main()
