"""C06 demo for rewrite r (closed-set A* on a heap + adjacent-pair pass that no longer stops at the
first boundary edge).  Checks the solver contract of ujk_from_fluxes / find_flux_sector on periodic,
open and strip lattices, with emphasis on open cuts (where the adjacent-pair pass differs) and on
far-apart sparse targets (where the path search does the work).  Exits 0 printing OK.

Run:  PYTHONPATH=/tmp/rw-C06/src /venv/bin/python out/r/demo.py
"""
import itertools
import sys
import warnings

import numpy as np

warnings.simplefilter("ignore", DeprecationWarning)

from koala import example_graphs as eg
from koala import voronization
from koala.flux_finder import (find_flux_sector, fluxes_from_bonds,
                               fluxes_from_ujk, ujk_from_fluxes,
                               path_between_plaquettes)
from koala.lattice import INVALID, cut_boundaries


def plaquettes_connected(lattice):
    n = lattice.n_plaquettes
    if n == 0:
        return False
    nbrs = [[] for _ in range(n)]
    for a, b in lattice.edges.adjacent_plaquettes:
        if a != INVALID and b != INVALID:
            nbrs[a].append(b)
            nbrs[b].append(a)
    seen, todo = {0}, [0]
    while todo:
        for q in nbrs[todo.pop()]:
            if q not in seen:
                seen.add(q)
                todo.append(q)
    return len(seen) == n


def check_solver(lattice, solver, flux_of, target, guess, tag):
    """The contract: +-1 int8 bonds, target reached up to the parity obstruction, inputs untouched."""
    t_before = None if target is None else target.copy()
    g_before = None if guess is None else guess.copy()
    args = [lattice]
    if target is not None or guess is not None:
        args.append(target)
    if guess is not None:
        args.append(guess)
    bonds = solver(*args)

    assert isinstance(bonds, np.ndarray), tag
    assert bonds.shape == (lattice.n_edges, ), tag
    assert bonds.dtype == np.int8, (tag, bonds.dtype)
    assert np.all(np.abs(bonds) == 1), tag
    if target is not None:
        assert np.array_equal(target, t_before) and target.dtype == t_before.dtype, tag
    if guess is not None:
        assert np.array_equal(guess, g_before) and guess.dtype == g_before.dtype, tag

    start = np.ones(lattice.n_edges, dtype=np.int8) if guess is None else guess
    if target is None:
        # the default target is convention specific: checked by the caller
        return bonds
    must_change = np.count_nonzero(flux_of(lattice, start) != target)
    wrong = np.count_nonzero(flux_of(lattice, bonds) != target)
    assert wrong == must_change % 2, (tag, must_change, wrong)
    return bonds


def targets_for(lattice, rng):
    F = lattice.n_plaquettes
    if F <= 6:
        for bits in itertools.product([1, -1], repeat=F):
            yield np.array(bits, dtype=int)
        return
    yield np.ones(F, dtype=int)
    yield -np.ones(F, dtype=np.int8)
    for k in (1, 2, 2, 3, 4):  # sparse: isolated, usually far apart
        t = np.ones(F, dtype=int)
        t[rng.choice(F, size=min(k, F), replace=False)] = -1
        yield t
    # the two plaquettes that are furthest apart in the unit square
    centres = np.array([p.center for p in lattice.plaquettes])
    d = np.linalg.norm(centres[:, None] - centres[None, :], axis=-1)
    a, b = np.unravel_index(np.argmax(d), d.shape)
    t = np.ones(F, dtype=int)
    t[[a, b]] = -1
    yield t
    for p_minus in (0.3, 0.5, 0.8):  # dense
        yield rng.choice([1, -1], size=F, p=[1 - p_minus, p_minus])


def lattices(rng):
    yield "honeycomb2", eg.honeycomb_lattice(2)
    yield "honeycomb5", eg.honeycomb_lattice(5)
    yield "square3x4", eg.square_lattice(3, 4)
    yield "hex_square_oct2", eg.hex_square_oct_lattice(2)
    for n in (9, 25, 60):
        yield f"voronoi{n}", voronization.generate_lattice(rng.uniform(size=(n, 2)))
    # open / strip cuts (kept only if the plaquette adjacency graph is connected)
    opens = [
        ("honeycomb6-open", cut_boundaries(eg.honeycomb_lattice(6))),
        ("honeycomb6-strip", cut_boundaries(eg.honeycomb_lattice(6), [True, False])),
        ("square5x5-open", cut_boundaries(eg.square_lattice(5, 5))),
        ("square4x6-strip", cut_boundaries(eg.square_lattice(4, 6), [False, True])),
    ]
    for n in (20, 40, 80):
        l = voronization.generate_lattice(rng.uniform(size=(n, 2)))
        opens.append((f"voronoi{n}-open", cut_boundaries(l)))
        opens.append((f"voronoi{n}-strip", cut_boundaries(l, [False, True])))
    for name, l in opens:
        if plaquettes_connected(l):
            yield name, l


def main():
    rng = np.random.default_rng(606)
    n_cases = 0
    for name, lattice in lattices(rng):
        assert plaquettes_connected(lattice), name
        for i, target in enumerate(targets_for(lattice, rng)):
            guess = rng.choice([1, -1], size=lattice.n_edges).astype(np.int8)
            for g in (None, guess):
                check_solver(lattice, ujk_from_fluxes, fluxes_from_ujk, target, g,
                             (name, "new", i))
                check_solver(lattice, find_flux_sector, fluxes_from_bonds, target, g,
                             (name, "old", i))
                n_cases += 2
        # default arguments: all -1 (new convention) / all +1 (old convention), from all-ones bonds
        b = check_solver(lattice, ujk_from_fluxes, fluxes_from_ujk, None, None, (name, "new-default"))
        start = np.ones(lattice.n_edges, dtype=np.int8)
        need = np.count_nonzero(fluxes_from_ujk(lattice, start) != -1)
        assert np.count_nonzero(fluxes_from_ujk(lattice, b) != -1) == need % 2, name
        b = check_solver(lattice, find_flux_sector, fluxes_from_bonds, None, None, (name, "old-default"))
        need = np.count_nonzero(fluxes_from_bonds(lattice, start) != 1)
        assert np.count_nonzero(fluxes_from_bonds(lattice, b) != 1) == need % 2, name

        # the path search used by the solver: a valid dual path between any two plaquettes,
        # found within the iteration budget the solver grants it (n_edges)
        F = lattice.n_plaquettes
        for _ in range(6):
            a, c = rng.choice(F, size=2, replace=False)
            for early in (True, False):
                ps, es = path_between_plaquettes(lattice, a, c, early_stopping=early,
                                                 maxits=lattice.n_edges)
                assert ps[0] == c and ps[-1] == a and len(es) == len(ps) - 1, name
                for p, q, e in zip(ps[:-1], ps[1:], es):
                    assert set(lattice.edges.adjacent_plaquettes[e]) == {p, q}, name
    assert n_cases > 300, n_cases
    print("OK", n_cases, "solver cases")
    return 0


if __name__ == "__main__":
    sys.exit(main())
