"""Demo for rewrite s (dimerise: hand-built clauses, explicit enumerate-and-block loop).

Checks against brute force that dimerise is sound (every vertex touches exactly one dimer), complete
(ValueError only when no perfect matching exists) and exact (each dimerisation listed exactly once),
in the single solution, first-n and all-solutions modes.

Run: PYTHONPATH=/tmp/rw-C04/src /venv/bin/python demo.py   -> prints OK, exit code 0
"""
import itertools as it
import numpy as np

from koala.lattice import Lattice
from koala.graph_utils import dimerise
from koala.voronization import generate_lattice
from koala import example_graphs as eg

rng = np.random.default_rng(11)


def make_lattice(n_vertices, edges):
    ang = 2 * np.pi * np.arange(n_vertices) / n_vertices + 0.1
    pos = 0.5 + 0.3 * np.stack([np.cos(ang), np.sin(ang)], axis=1)
    edges = np.array(edges, dtype=int).reshape(-1, 2)
    return Lattice(pos, edges, np.zeros_like(edges))


def brute_dimers(lat):
    sols = set()
    for d in it.product((0, 1), repeat=lat.n_edges):
        d_arr = np.array(d)
        if all(d_arr[lat.vertices.adjacent_edges[v]].sum() == 1 for v in range(lat.n_vertices)):
            sols.add(d)
    return sols


def is_dimerisation(lat, d):
    d = np.asarray(d)
    return (d.shape == (lat.n_edges,) and np.issubdtype(d.dtype, np.integer) and set(np.unique(d).tolist()) <= {0, 1}
            and all(d[lat.vertices.adjacent_edges[v]].sum() == 1 for v in range(lat.n_vertices)))


def as_rows(arr, n_items):
    arr = np.asarray(arr)
    assert arr.ndim == 2 and arr.shape[1] == n_items, arr.shape
    assert np.issubdtype(arr.dtype, np.integer)
    rows = [tuple(int(x) for x in r) for r in arr]
    assert len(set(rows)) == len(rows), "a dimerisation was listed twice"
    return rows


def expect_value_error(lat):
    for k in (1, 2, None):
        try:
            dimerise(lat, k)
        except ValueError:
            continue
        raise AssertionError("expected ValueError")


SMALL = [
    (2, [(0, 1)]),
    (4, [(0, 1), (1, 2), (2, 3), (3, 0)]),  # square: 2 dimerisations
    (4, [(0, 1), (0, 2), (0, 3), (1, 2), (1, 3), (2, 3)]),  # K4: 3
    (6, [(0, 1), (1, 2), (2, 3), (3, 4), (4, 5), (5, 0), (0, 3), (1, 4), (2, 5)]),  # K33-like prism: several
    (4, [(0, 1), (0, 1), (2, 3), (2, 3), (1, 2), (0, 3)]),  # cubic multigraph with doubled bonds
    (2, [(0, 1), (0, 1), (0, 1)]),  # theta graph
    (3, [(0, 1), (1, 2)]),  # odd number of vertices: none
    (4, [(0, 1), (0, 2), (0, 3)]),  # star: none
    (6, [(0, 1), (1, 2), (0, 2), (2, 3), (3, 4), (4, 5), (5, 3)]),  # two triangles joined by a bridge: 1
    (5, [(0, 1), (1, 2), (2, 3), (3, 4), (4, 0), (0, 2)]),  # odd: none
]

for n, edges in SMALL:
    lat = make_lattice(n, edges)
    expected = brute_dimers(lat)
    if not expected:
        expect_value_error(lat)
        continue
    one = dimerise(lat)
    assert is_dimerisation(lat, one) and tuple(int(x) for x in one) in expected
    assert set(as_rows(dimerise(lat, None), lat.n_edges)) == expected
    for k in (2, 3, 50):
        rows = as_rows(dimerise(lat, k), lat.n_edges)
        assert len(rows) == min(k, len(expected)) and set(rows) <= expected

# library lattices: soundness and no repeats
for lat in [eg.honeycomb_lattice(4), eg.multi_graph(), eg.bridge_graph(), generate_lattice(rng.random((2, 2))),
            generate_lattice(rng.random((20, 2))), generate_lattice(rng.random((90, 2)))]:
    try:
        one = dimerise(lat)
    except ValueError:
        # only acceptable for tiny lattices where we can verify by brute force that nothing exists
        assert lat.n_edges <= 12 and not brute_dimers(lat)
        continue
    assert is_dimerisation(lat, one)
    many = dimerise(lat, 6)
    rows = as_rows(many, lat.n_edges)
    assert 1 <= len(rows) <= 6 and all(is_dimerisation(lat, np.array(r)) for r in rows)
    if lat.n_edges <= 12:
        assert set(as_rows(dimerise(lat, None), lat.n_edges)) == brute_dimers(lat)

print("OK")
