"""Demo for rewrite s (C12): cut_boundaries.

Checks, against a pure-python oracle written here, that cutting removes exactly
the edges that cross a selected boundary and nothing else (same vertex
positions, same order / indices / crossing of the remaining edges), that every
plaquette none of whose edges was removed survives with the same geometry, that
no new plaquette appears, and that cut-after-cut composes as expected.
Run:  PYTHONPATH=/tmp/rw-C12/src /venv/bin/python out/s/demo.py
"""
import sys
import warnings

import numpy as np

from koala.lattice import Lattice, LatticeException, cut_boundaries
from koala.graph_utils import remove_trailing_edges
from koala import example_graphs as eg
from koala.voronization import generate_lattice

warnings.filterwarnings("ignore")  # degenerate (discarded) plaquettes divide by zero area
rng = np.random.default_rng(1212)

SELECTIONS = [(True, True), (True, False), (False, True), (False, False)]


def torus_square_with_big_crossings():
    # 2x2 periodic square lattice, written by hand, with some crossings of -1
    pos = np.array([[.25, .25], [.75, .25], [.25, .75], [.75, .75]])
    edges = np.array([[0, 1], [1, 0], [2, 3], [3, 2], [0, 2], [2, 0], [1, 3],
                      [3, 1]])
    crossing = np.array([[0, 0], [1, 0], [0, 0], [1, 0], [0, 0], [0, 1],
                         [0, 0], [0, 1]])
    # flip a few edges so that negative crossings occur as well
    for k in (1, 5):
        edges[k] = edges[k][::-1]
        crossing[k] = -crossing[k]
    return Lattice(pos, edges, crossing)


def no_edges_lattice():
    return Lattice(np.array([[.1, .2], [.5, .5], [.7, .3]]),
                   np.zeros((0, 2), dtype=int), np.zeros((0, 2), dtype=int))


def inputs():
    return [
        ("hand_torus", torus_square_with_big_crossings()),
        ("no_edges", no_edges_lattice()),
        ("tri_square_pent", eg.tri_square_pent()),       # open already
        ("multi_graph", eg.multi_graph()),
        ("honeycomb", eg.honeycomb_lattice(3)),
        ("square", eg.square_lattice(3, 4)),
        ("hex_square_oct", eg.hex_square_oct_lattice(2)),
        ("amorphous9", generate_lattice(rng.random((9, 2)))),
        ("amorphous20", generate_lattice(rng.random((20, 2)))),
    ]


def plaquettes_or_none(lattice):
    try:
        return list(lattice.plaquettes)
    except LatticeException:
        return None


def plaq_key(edges, directions):
    return frozenset(zip([int(e) for e in edges], [int(d) for d in directions]))


def check_plaquettes(l_in, l_out, removed_edges, what):
    p_in = plaquettes_or_none(l_in)
    if p_in is None:
        return
    p_out = plaquettes_or_none(l_out)
    assert p_out is not None, what
    kept = [e for e in range(l_in.n_edges) if e not in removed_edges]
    new_edge = {old: new for new, old in enumerate(kept)}
    out_by_key = {plaq_key(p.edges, p.directions): p for p in p_out}
    assert len(out_by_key) == len(p_out), what
    surviving = set()
    for p in p_in:
        if removed_edges & set(int(e) for e in p.edges):
            continue
        key = plaq_key([new_edge[int(e)] for e in p.edges], p.directions)
        assert key in out_by_key, (what, "plaquette lost")
        q = out_by_key[key]
        assert q.n_sides == p.n_sides, what
        assert np.allclose(q.center, p.center, atol=1e-12), what
        assert set(q.vertices.tolist()) == set(p.vertices.tolist()), what
        surviving.add(key)
    assert surviving == set(out_by_key), (what, "new plaquette appeared")


def oracle_cut(l, sel):
    kept, gone = [], set()
    for k, (cx, cy) in enumerate(l.edges.crossing.tolist()):
        if (sel[0] and cx != 0) or (sel[1] and cy != 0):
            gone.add(k)
        else:
            kept.append(k)
    return kept, gone


def assert_cut_of(l_out, l, kept, what):
    assert isinstance(l_out, Lattice), what
    assert l_out.n_vertices == l.n_vertices and l_out.n_edges == len(kept), what
    assert np.array_equal(l_out.vertices.positions, l.vertices.positions), what
    assert l_out.edges.indices.shape == (len(kept), 2), what
    assert l_out.edges.crossing.shape == (len(kept), 2), what
    assert np.issubdtype(l_out.edges.indices.dtype, np.integer), what
    assert np.array_equal(l_out.edges.indices, l.edges.indices[kept].reshape(-1, 2)), what
    assert np.array_equal(l_out.edges.crossing, l.edges.crossing[kept].reshape(-1, 2)), what
    assert np.array_equal(l_out.edges.vectors, l.edges.vectors[kept].reshape(-1, 2)), what


def main():
    n = 0
    for name, l in inputs():
        before = (l.vertices.positions.copy(), l.edges.indices.copy(),
                  l.edges.crossing.copy())
        for sel in SELECTIONS:
            for flags in (sel, list(sel), np.array(sel)):
                what = (name, "cut", sel, type(flags).__name__)
                kept, gone = oracle_cut(l, sel)
                l_out = cut_boundaries(l, flags)
                assert_cut_of(l_out, l, kept, what)
            # nothing crossing a cut boundary is left
            for axis in (0, 1):
                if sel[axis]:
                    assert not np.any(l_out.edges.crossing[:, axis]), what
            check_plaquettes(l, l_out, gone, what)
            # cutting again changes nothing
            assert_cut_of(cut_boundaries(l_out, sel), l_out,
                          list(range(l_out.n_edges)), what + ("again",))
            # cut after cut == cutting the union of the selections
            for sel2 in SELECTIONS:
                union = (sel[0] or sel2[0], sel[1] or sel2[1])
                kept_u, _ = oracle_cut(l, union)
                assert_cut_of(cut_boundaries(l_out, sel2), l, kept_u,
                              what + ("then", sel2))
            # trailing-edge removal on top of a cut leaves no degree-one vertex
            trimmed = remove_trailing_edges(l_out)
            deg = np.bincount(trimmed.edges.indices.ravel(),
                              minlength=trimmed.n_vertices)
            assert not np.any(deg == 1), what
        # the default cuts both boundaries
        kept, _ = oracle_cut(l, (True, True))
        assert_cut_of(cut_boundaries(l), l, kept, (name, "default"))
        # input left alone
        assert np.array_equal(before[0], l.vertices.positions)
        assert np.array_equal(before[1], l.edges.indices)
        assert np.array_equal(before[2], l.edges.crossing)
        n += 1
    print(f"OK ({n} lattices)")
    return 0


if __name__ == "__main__":
    sys.exit(main())
