"""C15 demo for rewrite s (graph_utils): remove_vertices / remove_trailing_edges / vertices_to_polygon /
reorder_vertices (and the read-only graph_utils queries) leave the lattice and the index arrays passed to them
bit-for-bit unchanged, and their results do not depend on the call history on the shared objects.
Run: PYTHONPATH=/tmp/rw-C15/src /venv/bin/python out/s/demo.py   (exits 0 and prints OK)"""
import sys
import hashlib
import warnings
import numpy as np

warnings.simplefilter("ignore")
from koala import example_graphs as eg, voronization, pointsets
from koala.lattice import Lattice, cut_boundaries
from koala import graph_utils as gu


def fp_array(a):
    a = np.asarray(a)
    if a.dtype == object:
        return ("obj", a.shape, tuple(fp_any(x) for x in a.ravel()))
    return (str(a.dtype), a.shape, a.tobytes())


def force_lazy(l):
    l.plaquettes, l.n_plaquettes, l.edges.adjacent_plaquettes, l.vertices.adjacent_plaquettes


def fp_lattice(l):
    force_lazy(l)
    out = [fp_array(l.vertices.positions), fp_array(l.edges.indices), fp_array(l.edges.crossing),
           fp_array(l.edges.vectors), fp_array(l.vertices.coordination_numbers),
           tuple(fp_array(x) for x in l.vertices.adjacent_edges),
           tuple(fp_array(x) for x in l.edges.adjacent_edges),
           fp_array(l.edges.adjacent_plaquettes), fp_array(l.vertices.adjacent_plaquettes),
           l.n_vertices, l.n_edges, l.n_plaquettes]
    for p in l.plaquettes:
        out.append((fp_array(p.vertices), fp_array(p.edges), fp_array(p.directions), fp_array(p.center),
                    int(p.n_sides), fp_array(p.adjacent_plaquettes)))
    return tuple(out)


def fp_any(x):
    if isinstance(x, Lattice):
        try:
            return ("lattice", fp_lattice(x))
        except Exception as e:  # e.g. plaquette finder refuses the derived lattice: compare the raw tables
            return ("lattice-raw", type(e).__name__, fp_array(x.vertices.positions), fp_array(x.edges.indices),
                    fp_array(x.edges.crossing))
    if isinstance(x, (tuple, list)):
        return (type(x).__name__, tuple(fp_any(y) for y in x))
    if x is None or isinstance(x, (int, float, str, bool)):
        return ("py", type(x).__name__, x)
    return fp_array(x)


def clone(l):
    """an independent lattice with no lazily computed attribute populated"""
    return Lattice(l.vertices.positions.copy(), l.edges.indices.copy(), l.edges.crossing.copy())


def clone_arg(v):
    return v.copy() if isinstance(v, np.ndarray) else (list(v) if isinstance(v, list) else v)


rng = np.random.default_rng(1515)
lattices = {
    "honeycomb4": eg.honeycomb_lattice(4),
    "honeycomb6_open": cut_boundaries(eg.honeycomb_lattice(6)),
    "hex_square_oct": eg.hex_square_oct_lattice(3),
    "tri_square_pent": eg.tri_square_pent(),
    "higher_coordination": eg.higher_coordination_number_example(5),
    "amorphous25": voronization.generate_lattice(pointsets.uniform(25, rng=rng)),
    "amorphous60_open_y": cut_boundaries(voronization.generate_lattice(pointsets.uniform(60, rng=rng)), [False, True]),
    "square4x5": eg.square_lattice(4, 5),
    "dual_of_amorphous": gu.make_dual(voronization.generate_lattice(pointsets.uniform(40, rng=rng))),
}

n_checked = 0
digest = hashlib.sha256()
for name, lat in lattices.items():
    nV, nE = lat.n_vertices, lat.n_edges
    mask = rng.random(nV) < 0.2
    args = {
        "few": rng.permutation(nV)[:max(1, nV // 6)],
        "few_list": [int(x) for x in rng.permutation(nV)[:3]],
        "dupes": np.array([0, nV - 1, 0, 2 % nV]),
        "negative": np.array([-1, 1 % nV]),
        "mask": mask,
        "empty": np.array([]),
        "one": int(rng.integers(nV)),
        "perm": rng.permutation(nV),
        "identity": np.arange(nV),
        "half": np.sort(rng.permutation(nV)[:nV // 2]),
    }
    calls = [
        ("remove_vertices", lambda l, a: gu.remove_vertices(l, a["few"])),
        ("remove_vertices_list", lambda l, a: gu.remove_vertices(l, a["few_list"], return_edge_removal=True)),
        ("remove_vertices_dupes", lambda l, a: gu.remove_vertices(l, a["dupes"], return_edge_removal=True)),
        ("remove_vertices_negative", lambda l, a: gu.remove_vertices(l, a["negative"], True)),
        ("remove_vertices_mask", lambda l, a: gu.remove_vertices(l, a["mask"], True)),
        ("remove_vertices_empty", lambda l, a: gu.remove_vertices(l, a["empty"], True)),
        ("remove_vertices_half", lambda l, a: gu.remove_vertices(l, a["half"], True)),
        ("remove_trailing_edges", lambda l, a: gu.remove_trailing_edges(l)),
        ("trim_after_removal", lambda l, a: gu.remove_trailing_edges(gu.remove_vertices(l, a["few"]))),
        ("vertices_to_polygon_all", lambda l, a: gu.vertices_to_polygon(l)),
        ("vertices_to_polygon_one", lambda l, a: gu.vertices_to_polygon(l, a["one"])),
        ("vertices_to_polygon_few", lambda l, a: gu.vertices_to_polygon(l, a["few"])),
        ("vertices_to_polygon_list", lambda l, a: gu.vertices_to_polygon(l, a["few_list"])),
        ("vertices_to_polygon_half", lambda l, a: gu.vertices_to_polygon(l, a["half"])),
        ("reorder_vertices", lambda l, a: gu.reorder_vertices(l, a["perm"])),
        ("reorder_vertices_id", lambda l, a: gu.reorder_vertices(l, a["identity"])),
        ("make_dual", lambda l, a: gu.make_dual(l)),
        ("plaquette_spanning_tree", lambda l, a: gu.plaquette_spanning_tree(l)),
        ("vertex_neighbours", lambda l, a: gu.vertex_neighbours(l, a["one"])),
        ("clockwise_about", lambda l, a: gu.clockwise_about(a["one"], l)),
        ("adjacent_plaquettes", lambda l, a: gu.adjacent_plaquettes(l, 0)),
        ("edge_neighbours", lambda l, a: gu.edge_neighbours(l, a["one"] % nE)),
    ]

    def run(call, l, a):
        try:
            return ("ok", call(l, a))
        except Exception as e:  # an exception is a legitimate, reproducible outcome
            return ("raised", type(e).__name__)

    def outcome_fp(x):
        return (x[0], x[1] if x[0] == "raised" else fp_any(x[1]))

    # reference: every call evaluated on its own fresh lattice and fresh argument copies
    fresh = {}
    for cname, call in calls:
        fresh[cname] = outcome_fp(run(call, clone(lat), {k: clone_arg(v) for k, v in args.items()}))
        digest.update(repr((name, cname, fresh[cname])).encode())

    # shared objects, random call sequence; fingerprints before/after every call
    shared_lat = clone(lat)
    lat_fp = fp_lattice(shared_lat)
    arg_fp = {k: fp_any(v) for k, v in args.items()}
    for step in rng.integers(len(calls), size=30):
        cname, call = calls[step]
        res = run(call, shared_lat, args)
        n_checked += 1
        if fp_lattice(shared_lat) != lat_fp:
            sys.exit(f"FAIL {name}: {cname} modified the lattice")
        for k, v in args.items():
            if fp_any(v) != arg_fp[k]:
                sys.exit(f"FAIL {name}: {cname} modified argument {k}")
        if outcome_fp(res) != fresh[cname]:
            sys.exit(f"FAIL {name}: {cname} depends on call history")

        # the derived lattice may share position arrays with its parent, but it must own its index tables:
        # scribbling on the derived edges / crossings must not reach the parent lattice or the arguments
        if res[0] == "ok":
            derived = res[1][0] if isinstance(res[1], tuple) else res[1]
            if isinstance(derived, Lattice) and cname != "remove_trailing_edges" and not cname.startswith("reorder"):
                derived.edges.indices[...] = 0
                derived.edges.crossing[...] = 7
                if fp_lattice(shared_lat) != lat_fp:
                    sys.exit(f"FAIL {name}: index tables of the result of {cname} alias the input lattice")
            if isinstance(derived, Lattice) and cname.startswith("reorder"):
                derived.edges.indices[...] = 0
                if fp_lattice(shared_lat) != lat_fp or any(fp_any(v) != arg_fp[k] for k, v in args.items()):
                    sys.exit(f"FAIL {name}: edge table of the result of {cname} aliases an input")

    # the rest of the vertices_to_polygon clause: the degrees come out as documented
    out = run(calls[9][1], shared_lat, args)
    if out[0] == "ok":
        n_big = sum(len(e) for e in shared_lat.vertices.adjacent_edges if len(e) > 2)
        n_small = sum(1 for e in shared_lat.vertices.adjacent_edges if len(e) <= 2)
        assert out[1].n_vertices == n_big + n_small
        assert out[1].n_edges == nE + n_big

print(f"OK ({n_checked} calls checked) results-digest={digest.hexdigest()[:16]}")
