"""Demo for rewrite r (shared SAT back end for vertex_color / edge_color).

Checks, against a brute-force enumeration, that vertex_color / edge_color are sound, complete and exact
(single solution, first-n and all-solutions modes, with and without fixed colours) and that color_lattice
pins the edges around vertex 0 to 0,1,2 in clockwise_edges_about order.

Run: PYTHONPATH=/tmp/rw-C04/src /venv/bin/python demo.py   -> prints OK, exit code 0
"""
import itertools as it
import numpy as np

from koala.lattice import Lattice
from koala.graph_color import edge_color, vertex_color, color_lattice
from koala.graph_utils import clockwise_edges_about
from koala.voronization import generate_lattice
from koala import example_graphs as eg

rng = np.random.default_rng(7)


def make_lattice(n_vertices, edges):
    ang = 2 * np.pi * np.arange(n_vertices) / n_vertices + 0.1
    pos = 0.5 + 0.3 * np.stack([np.cos(ang), np.sin(ang)], axis=1)
    edges = np.array(edges, dtype=int).reshape(-1, 2)
    return Lattice(pos, edges, np.zeros_like(edges))


def brute(n_items, n_colors, conflicts, fixed=()):
    sols = set()
    for c in it.product(range(n_colors), repeat=n_items):
        if all(c[i] != c[j] for i, j in conflicts) and all(c[e] == col for col, e in fixed):
            sols.add(c)
    return sols


def as_rows(arr, n_items):
    arr = np.asarray(arr)
    assert arr.ndim == 2 and arr.shape[1] == n_items, arr.shape
    assert np.issubdtype(arr.dtype, np.integer)
    rows = [tuple(int(x) for x in r) for r in arr]
    assert len(set(rows)) == len(rows), "a solution was listed twice"
    return rows


GRAPHS = [
    (3, [(0, 1), (1, 2), (0, 2)]),  # triangle
    (5, [(0, 1), (1, 2), (2, 3), (3, 4), (4, 0)]),  # C5
    (4, [(0, 1), (0, 2), (0, 3), (1, 2), (1, 3), (2, 3)]),  # K4
    (4, [(0, 1), (1, 2), (2, 3)]),  # path
    (4, [(0, 1), (0, 2), (0, 3)]),  # star
    (3, [(0, 1), (1, 0), (1, 2), (1, 2)]),  # multigraph, one edge given in both directions
    (4, [(0, 1), (0, 1), (2, 3), (2, 3), (1, 2), (0, 3)]),  # cubic multigraph
    (6, [(0, 1), (2, 3), (4, 5), (1, 2), (3, 4), (5, 0), (0, 3)]),
]


def check_vertex(n, edges):
    adj = np.array(edges)
    conflicts = {(min(a, b), max(a, b)) for a, b in edges}
    for n_colors in range(1, 6):
        expected = brute(n, n_colors, conflicts)
        ok, sol = vertex_color(adj, n_colors=n_colors)
        assert bool(ok) == bool(expected)
        ok_all, sols = vertex_color(adj, n_colors=n_colors, all_solutions=True)
        assert bool(ok_all) == bool(expected)
        if expected:
            assert sol.shape == (n,) and tuple(int(x) for x in sol) in expected
            assert set(as_rows(sols, n)) == expected


def check_edge(n, edges):
    lat = make_lattice(n, edges)
    m = len(edges)
    conflicts = [(i, j) for i, j in it.combinations(range(m), 2) if set(edges[i]) & set(edges[j])]
    for n_colors in range(1, 6):
        fixed_options = [[], [(n_colors - 1, 0)], [(0, m - 1), (n_colors - 1, 0)],
                         [(np.int64(0), np.int64(1)), (0, 0)]]
        for fixed in fixed_options:
            expected = brute(m, n_colors, conflicts, fixed)
            # fixed handed over as a one-shot iterator, like color_lattice does
            ok, sol = edge_color(lat, n_colors=n_colors, fixed=iter(fixed))
            assert bool(ok) == bool(expected), (edges, n_colors, fixed)
            ok_all, sols = edge_color(lat, n_colors=n_colors, fixed=fixed, all_solutions=True)
            assert bool(ok_all) == bool(expected)
            ok_n, first = edge_color(lat, n_colors=n_colors, fixed=fixed, n_solutions=2)
            assert bool(ok_n) == bool(expected)
            if expected:
                assert sol.shape == (m,) and np.issubdtype(sol.dtype, np.integer)
                assert tuple(int(x) for x in sol) in expected
                assert set(as_rows(sols, m)) == expected
                rows = as_rows(first, m)
                assert len(rows) == min(2, len(expected)) and set(rows) <= expected
                ok_1, one = edge_color(lat, n_colors=n_colors, fixed=fixed, n_solutions=1)
                assert ok_1 and len(as_rows(one, m)) == 1 and set(as_rows(one, m)) <= expected


def check_color_lattice(lat):
    col = color_lattice(lat)
    assert col.dtype == np.int8 and col.shape == (lat.n_edges,)
    assert col.min() >= 0 and col.max() <= 2
    for v in range(lat.n_vertices):
        around = lat.vertices.adjacent_edges[v]
        assert len(set(col[around].tolist())) == len(around)
    assert col[clockwise_edges_about(vertex_index=0, g=lat)].tolist() == [0, 1, 2]


for n, edges in GRAPHS:
    check_vertex(n, edges)
    check_edge(n, edges)

for lat in [eg.honeycomb_lattice(3), generate_lattice(rng.random((2, 2))), generate_lattice(rng.random((25, 2))),
            generate_lattice(rng.random((80, 2)))]:
    check_color_lattice(lat)

# the Petersen graph is cubic but has no 3-edge-colouring: the wrapper must raise, 4 colours are enough
petersen = make_lattice(10, [(i, (i + 1) % 5) for i in range(5)] + [(i, i + 5) for i in range(5)] +
                        [(5 + i, 5 + (i + 2) % 5) for i in range(5)])
try:
    color_lattice(petersen)
except ValueError:
    pass
else:
    raise AssertionError("Petersen graph should not be 3-edge-colourable")
ok, _ = edge_color(petersen, n_colors=3)
assert not ok
ok, sol = edge_color(petersen, n_colors=4)
assert ok and all(len(set(sol[petersen.vertices.adjacent_edges[v]].tolist())) == 3 for v in range(10))

print("OK")
