"""C02 demo for rewrite r: the tables the Lattice constructor derives.

Checks, from the definition and by brute force over all edges, that
  * edge vectors are end - start + crossing
  * vertices.adjacent_edges[v] is complete and clockwise starting after 12 o'clock
  * coordination numbers count the edge ends at every vertex
  * edges.adjacent_edges[e] are exactly the other edges sharing a vertex with e
  * the adjacency matrix is symmetric and True exactly at joined pairs
  * graph_utils.edge_neighbours / vertex_neighbours agree with the tables
on periodic / strip / open lattices, with dangling edges, isolated vertices
(also as highest index), coordination 0..12, multi-edges, fresh and unpickled.
Run:  PYTHONPATH=/tmp/rw-C02/src /venv/bin/python out/r/demo.py
"""
import pickle
import sys

import numpy as np

from koala import example_graphs as eg
from koala.graph_utils import (edge_neighbours, remove_vertices,
                               vertex_neighbours)
from koala.lattice import Lattice, cut_boundaries
from koala.voronization import generate_lattice


def inputs():
    rng = np.random.default_rng(7)
    out = []
    hc = eg.honeycomb_lattice(4)
    out += [("honeycomb", hc),
            ("honeycomb strip", cut_boundaries(hc, [True, False])),
            ("honeycomb open + dangling", cut_boundaries(hc))]
    vor = generate_lattice(rng.random((20, 2)))
    out += [("voronoi", vor),
            ("voronoi open", cut_boundaries(vor)),
            ("voronoi holes", remove_vertices(vor, np.array([1, 4])))]
    op = cut_boundaries(vor)
    pos = np.concatenate([op.vertices.positions, [[.5, .5], [.02, .97]]])
    out.append(("isolated, highest index",
                Lattice(pos, op.edges.indices, op.edges.crossing)))
    # hub of coordination 12, rim, a dangling edge, an isolated last vertex
    n = 12
    a = 2 * np.pi * np.arange(n) / n + 0.1
    pos = np.concatenate([[[.5, .5]],
                          .5 + .3 * np.stack([np.cos(a), np.sin(a)], 1),
                          [[.95, .95]], [[.05, .9]]])
    e = np.array([(0, i + 1) if i % 2 else (i + 1, 0) for i in range(n)] +
                 [(1 + i, 1 + (i + 1) % n) for i in range(n)] + [(3, n + 1)])
    out.append(("wheel12", Lattice(pos, e, np.zeros_like(e))))
    # spokes exactly on the axes: one edge points exactly at 12 o'clock
    pos = np.array([[.5, .5], [.5, .75], [.75, .5], [.5, .25], [.25, .5]])
    e = np.array([[0, 3], [2, 0], [0, 1], [4, 0]])
    out.append(("plus", Lattice(pos, e, np.zeros_like(e))))
    # two vertices joined three times through the torus
    out.append(("tiny torus",
                Lattice(np.array([[.25, .5], [.75, .5]]),
                        np.array([[0, 1], [1, 0], [0, 1]]),
                        np.array([[0, 0], [1, 0], [0, 1]]))))
    out.append(("no edges", Lattice(rng.random((3, 2)), np.zeros((0, 2), int),
                                    np.zeros((0, 2), int))))
    for k in range(4):
        nv = int(rng.integers(3, 12))
        ne = int(rng.integers(1, 25))
        ed = rng.integers(0, nv, (ne, 2))
        ed = ed[ed[:, 0] != ed[:, 1]]
        cr = rng.integers(-1, 2, ed.shape) if k % 2 else np.zeros_like(ed)
        out.append((f"random multigraph {k}", Lattice(rng.random((nv, 2)), ed, cr)))
    return out


def check(name, l):
    pos, ind, cro = l.vertices.positions, l.edges.indices, l.edges.crossing
    nv, ne = pos.shape[0], ind.shape[0]
    assert l.n_vertices == nv and l.n_edges == ne

    # vectors
    for e in range(ne):
        expect = pos[ind[e, 1]] - pos[ind[e, 0]] + cro[e]
        assert np.allclose(l.edges.vectors[e], expect, rtol=0, atol=1e-12), name
    assert l.edges.vectors.shape == (ne, 2)

    # incident edges: complete, once each, clockwise starting after 12:00
    assert len(l.vertices.adjacent_edges) == nv
    for v in range(nv):
        got = np.asarray(l.vertices.adjacent_edges[v])
        want = sorted(e for e in range(ne) if v in ind[e])
        assert sorted(got.tolist()) == want, (name, v)
        assert got.dtype.kind == "i"
        clock = []
        for e in got:
            out = l.edges.vectors[e] * (1 if ind[e, 0] == v else -1)
            c = np.arctan2(out[0], out[1]) % (2 * np.pi)  # clockwise from 12
            clock.append(2 * np.pi if c == 0 else c)      # 12:00 itself is last
        assert all(x <= y + 1e-12 for x, y in zip(clock, clock[1:])), (name, v, clock)

    # coordination numbers
    assert l.vertices.coordination_numbers.shape == (nv,)
    for v in range(nv):
        assert l.vertices.coordination_numbers[v] == np.sum(ind == v), (name, v)
    if ne:
        assert 0 <= l.vertices.coordination_numbers.min()

    # edge neighbours
    assert len(l.edges.adjacent_edges) == ne
    for e in range(ne):
        got = np.asarray(l.edges.adjacent_edges[e])
        want = sorted(f for f in range(ne)
                      if f != e and set(ind[f]) & set(ind[e]))
        assert sorted(got.tolist()) == want, (name, e)
        assert len(set(got.tolist())) == len(got)
        assert sorted(edge_neighbours(l, e).tolist()) == want

    # helper agrees with table
    for v in range(nv):
        vs, es = vertex_neighbours(l, v)
        assert sorted(es.tolist()) == sorted(
            np.asarray(l.vertices.adjacent_edges[v]).tolist())
        for w, e in zip(vs, es):
            assert {v, w} == set(ind[e])

    # adjacency matrix
    adj = l.adjacency_matrix
    want = np.zeros((nv, nv), bool)
    for a, b in ind:
        want[a, b] = want[b, a] = True
    assert adj.dtype == bool and np.array_equal(adj, want)
    assert np.array_equal(adj, adj.T)


def main():
    count = 0
    for name, l in inputs():
        check(name, l)
        check(name + " (unpickled)", pickle.loads(pickle.dumps(l)))
        count += 2
    print(f"OK ({count} lattices)")
    return 0


if __name__ == "__main__":
    sys.exit(main())
