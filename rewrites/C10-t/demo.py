import os
import sys

os.environ.setdefault("MPLBACKEND", "Agg")
import numpy as np
from koala import example_graphs as eg
from koala import voronization
from koala.flux_finder import fluxes_from_ujk

INVALID = np.iinfo(int).max
TOL = 1e-9


def fail(msg):
    print("FAIL:", msg)
    sys.exit(1)


def need(cond, msg):
    if not cond:
        fail(msg)


def plaquette_area(lattice, p):
    # walk round the plaquette with the edge vectors, shoelace formula
    vecs = lattice.edges.vectors[p.edges] * p.directions[:, None]
    pts = np.cumsum(vecs, axis=0)
    need(np.allclose(pts[-1], 0, atol=TOL), "plaquette does not close")
    x, y = pts[:, 0], pts[:, 1]
    return 0.5 * abs(np.sum(x * np.roll(y, -1) - np.roll(x, -1) * y))


def check_basic_arrays(lattice):
    pos = lattice.vertices.positions
    ind = lattice.edges.indices
    cr = lattice.edges.crossing
    need(pos.ndim == 2 and pos.shape[1] == 2, "positions shape")
    need(np.issubdtype(pos.dtype, np.floating), "positions dtype")
    need(ind.shape == cr.shape and ind.shape[1] == 2, "edge shapes")
    need(np.issubdtype(ind.dtype, np.integer), "edge dtype")
    need(np.issubdtype(cr.dtype, np.integer), "crossing dtype")
    need(np.all((pos >= 0) & (pos < 1)), "positions outside unit cell")
    need(ind.min() >= 0 and ind.max() < pos.shape[0], "edge index range")
    need(np.all(np.abs(cr) <= 1), "crossing range")
    # no self loops, no repeated edges (as undirected edge + crossing)
    need(np.all(ind[:, 0] != ind[:, 1]) or pos.shape[0] <= 2, "self loop")


def check_closed_tiling(lattice, sides_expected, coordination=3, name=""):
    """closed periodic tiling of the unit torus with exactly the polygons in
    sides_expected = {n_sides: count}"""
    check_basic_arrays(lattice)
    V, E, F = lattice.n_vertices, lattice.n_edges, lattice.n_plaquettes
    need(V - E + F == 0, f"{name}: euler characteristic {V}-{E}+{F}")
    need(np.all(lattice.vertices.coordination_numbers == coordination),
         f"{name}: coordination")
    need(np.all(lattice.edges.adjacent_plaquettes != INVALID),
         f"{name}: edge without two plaquettes")
    sides = {}
    for p in lattice.plaquettes:
        sides[p.n_sides] = sides.get(p.n_sides, 0) + 1
    need(sides == sides_expected, f"{name}: polygons {sides} != {sides_expected}")
    area = sum(plaquette_area(lattice, p) for p in lattice.plaquettes)
    need(abs(area - 1) < 1e-9, f"{name}: total area {area}")
    # every edge used exactly twice, once in each direction
    use = np.zeros(E, dtype=int)
    for p in lattice.plaquettes:
        np.add.at(use, p.edges, 1)
    need(np.all(use == 2), f"{name}: edge usage")


def check_proper_coloring(lattice, coloring, name=""):
    coloring = np.asarray(coloring)
    need(coloring.shape == (lattice.n_edges,), f"{name}: coloring shape")
    need(np.issubdtype(coloring.dtype, np.integer), f"{name}: coloring dtype")
    need(set(np.unique(coloring)) <= {0, 1, 2}, f"{name}: colours used")
    seen = np.zeros((lattice.n_vertices, 3), dtype=int)
    for (a, b), c in zip(lattice.edges.indices, coloring):
        seen[a, c] += 1
        seen[b, c] += 1
    need(np.all(seen == 1), f"{name}: colouring not proper")


def _records(starts, vecs, extra=None):
    cols = [np.round(starts, 9), np.round(vecs, 9)]
    if extra is not None:
        cols.append(np.asarray(extra, dtype=float)[:, None])
    rec = np.concatenate(cols, axis=1) + 0.0
    order = np.lexsort(rec.T[::-1])
    return rec[order]


def check_tiling_of_cell(unit_points, unit_edges, unit_crossing, nx, ny,
                         lattice, unit_coloring=None, coloring=None, name=""):
    """the lattice consists of exactly nx*ny translated copies of the unit cell
    vertices and edges (as sets: order is not looked at) with correct crossings"""
    check_basic_arrays(lattice)
    nv, ne = len(unit_points), len(unit_edges)
    need(lattice.n_vertices == nv * nx * ny, f"{name}: vertex count")
    need(lattice.n_edges == ne * nx * ny, f"{name}: edge count")
    scale = np.array([nx, ny], dtype=float)
    cells = np.array([[i, j] for j in range(ny) for i in range(nx)])
    exp_pos = (unit_points[None] + cells[:, None]).reshape(-1, 2) / scale
    got = lattice.vertices.positions
    a = got[np.lexsort(np.round(got, 9).T[::-1])]
    b = exp_pos[np.lexsort(np.round(exp_pos, 9).T[::-1])]
    need(np.allclose(a, b, atol=TOL), f"{name}: vertex copies")

    uvec = unit_points[unit_edges[:, 1]] - unit_points[unit_edges[:, 0]] + unit_crossing
    exp_start = (unit_points[unit_edges[:, 0]][None] + cells[:, None]).reshape(-1, 2) / scale
    exp_vec = np.tile(uvec, (nx * ny, 1)) / scale
    exp_col = None if unit_coloring is None else np.tile(unit_coloring, nx * ny)
    ind = lattice.edges.indices
    got_start = got[ind[:, 0]]
    # crossing must be the honest one: end = start + vector - crossing lies in the cell
    got_vec = got[ind[:, 1]] - got[ind[:, 0]] + lattice.edges.crossing
    need(np.allclose(got_vec, lattice.edges.vectors, atol=TOL), f"{name}: vectors")
    r1 = _records(got_start, got_vec, coloring)
    r2 = _records(exp_start, exp_vec, exp_col)
    need(r1.shape == r2.shape and np.allclose(r1, r2, atol=1e-7),
         f"{name}: edge copies / crossings / tiled colouring")


def check_honeycomb(n):
    lat, col = eg.honeycomb_lattice(n, return_coloring=True)
    lat2 = eg.honeycomb_lattice(n)
    need(isinstance(lat2, eg.Lattice), "honeycomb return type")
    n_vert = int(np.round(n / np.sqrt(3)))
    cells = n * n_vert
    need(lat.n_vertices == 4 * cells and lat.n_edges == 6 * cells, f"honeycomb {n} size")
    need(lat2.n_vertices == lat.n_vertices and lat2.n_edges == lat.n_edges, "honeycomb twice")
    check_closed_tiling(lat, {6: 2 * cells}, name=f"honeycomb {n}")
    check_proper_coloring(lat, col, name=f"honeycomb {n}")
    # it is the tiling of the 4-site rectangular cell
    s3 = np.sqrt(3)
    up = np.array([[0.25, s3 / 12], [0.25, 5 * s3 / 12], [0.75, 7 * s3 / 12],
                   [0.75, 11 * s3 / 12]])
    up = (up + [0, 0.01]) / [1, s3]
    ue = np.array([[0, 1], [2, 1], [2, 3], [2, 1], [0, 3], [0, 3]])
    uc = np.array([[0, 0], [0, 0], [0, 0], [1, 0], [0, -1], [-1, -1]])
    check_tiling_of_cell(up, ue, uc, n, n_vert, lat, name=f"honeycomb {n} cell")


def check_make_honeycomb(L):
    lat, col, ujk = eg.make_honeycomb(L)
    n_vert = int(np.round(L / np.sqrt(3)))
    need(lat.n_vertices == 4 * L * n_vert and lat.n_edges == 6 * L * n_vert,
         f"make_honeycomb {L} size")
    need(col.dtype == np.int8 and ujk.dtype == np.int8, "make_honeycomb dtypes")
    need(ujk.shape == (lat.n_edges,) and np.all(ujk == 1), "make_honeycomb ujk")
    check_proper_coloring(lat, col, name=f"make_honeycomb {L}")
    fl = fluxes_from_ujk(lat, ujk)
    need(fl.shape == (lat.n_plaquettes,), "flux shape")
    # all bonds +1 on the A->B oriented honeycomb is the flux-free ground state sector:
    # the clockwise product of -u_jk round every hexagon is -1 (koala's default target)
    need(np.all(fl == -1), f"make_honeycomb {L} flux sector")
    need(all(p.n_sides == 6 for p in lat.plaquettes), "make_honeycomb hexagons")


def check_hex_square_oct(n):
    lat = eg.hex_square_oct_lattice(n)
    need(lat.n_vertices == 6 * n * n and lat.n_edges == 9 * n * n, f"hso {n} size")
    check_closed_tiling(lat, {4: n * n, 6: n * n, 8: n * n}, name=f"hso {n}")
    up = np.array([[0.5, 0.17], [0.2, 0.35], [0.2, 0.65], [0.5, 0.82],
                   [0.8, 0.65], [0.8, 0.35]])
    ue = np.array([[0, 1], [1, 2], [2, 3], [3, 4], [4, 5], [5, 0], [4, 2], [1, 5], [0, 3]])
    uc = np.array([[0, 0]] * 6 + [[1, 0], [-1, 0], [0, -1]])
    check_tiling_of_cell(up, ue, uc, n, n, lat, name=f"hso {n} cell")


TRI_NON = (np.array([[0.4, 0.1], [0.1, 0.4], [0.4, 0.4], [0.6, 0.6]]),
           np.array([[0, 1], [1, 2], [2, 0], [3, 2], [3, 0], [1, 3]]),
           np.array([[0, 0], [0, 0], [0, 0], [0, 0], [0, 1], [-1, 0]]),
           np.array([1, 2, 0, 1, 2, 0]))


def check_tri_non(n_cells):
    lat, col = eg.tri_non_lattice(n_cells, return_coloring=True)
    lat2 = eg.tri_non_lattice(n_cells)
    nx, ny = (n_cells, n_cells) if np.ndim(n_cells) == 0 else n_cells
    need(lat2.n_edges == lat.n_edges == 6 * nx * ny, "tri_non size")
    need(lat.n_vertices == 4 * nx * ny, "tri_non size")
    check_closed_tiling(lat, {3: nx * ny, 9: nx * ny}, name=f"tri_non {n_cells}")
    check_proper_coloring(lat, col, name=f"tri_non {n_cells}")
    up, ue, uc, ucol = TRI_NON
    check_tiling_of_cell(up, ue, uc, nx, ny, lat, ucol, col, name=f"tri_non {n_cells}")


def check_square(nx, ny):
    lat = eg.square_lattice(nx, ny)
    need(lat.n_vertices == nx * ny and lat.n_edges == 2 * nx * ny, "square size")
    check_closed_tiling(lat, {4: nx * ny}, coordination=4, name=f"square {nx}x{ny}")
    up = np.array([[0.5, 0.5]])
    # one vertex per cell, one bond to the left neighbour and one to the one below
    ue = np.array([[0, 0], [0, 0]])
    uc = np.array([[-1, 0], [0, -1]])
    # square_lattice lists edges as (neighbour, self) so compare unoriented
    ind = lat.edges.indices
    pos = lat.vertices.positions
    vec = lat.edges.vectors
    need(np.allclose(pos[ind[:, 1]] - pos[ind[:, 0]] + lat.edges.crossing, vec, atol=TOL), "square vectors")
    horiz = np.isclose(np.abs(vec[:, 0]), 1 / nx) & np.isclose(vec[:, 1], 0)
    vert = np.isclose(np.abs(vec[:, 1]), 1 / ny) & np.isclose(vec[:, 0], 0)
    need(np.all(horiz ^ vert) and horiz.sum() == nx * ny and vert.sum() == nx * ny, "square bonds")
    gx = np.sort(np.unique(np.round(pos[:, 0], 9)))
    gy = np.sort(np.unique(np.round(pos[:, 1], 9)))
    need(np.allclose(gx, (np.arange(nx) + 0.5) / nx) and np.allclose(gy, (np.arange(ny) + 0.5) / ny), "square grid")
    need(len(np.unique(np.round(pos, 9), axis=0)) == nx * ny, "square grid distinct")


def check_tile_generic(unit_lattice, nx, ny, n_xy_arg=None, unit_coloring=None, name="",
                       sides_per_cell=None):
    up = unit_lattice.vertices.positions
    ue = unit_lattice.edges.indices
    uc = unit_lattice.edges.crossing
    up0, ue0, uc0 = up.copy(), ue.copy(), uc.copy()
    arg = [nx, ny] if n_xy_arg is None else n_xy_arg
    lat = eg.tile_unit_cell(up, ue, uc, arg)
    need(np.array_equal(up, up0) and np.array_equal(ue, ue0) and np.array_equal(uc, uc0),
         f"{name}: inputs modified")
    col = None if unit_coloring is None else np.tile(unit_coloring, nx * ny)
    check_tiling_of_cell(up, ue, uc, nx, ny, lat, unit_coloring, col, name=name)
    if sides_per_cell is None and (
            unit_lattice.n_vertices - unit_lattice.n_edges + unit_lattice.n_plaquettes != 0):
        # degenerate tiny unit cell whose own plaquettes are not a closed tiling: copies only
        return lat
    sides = {}
    if sides_per_cell is not None:
        sides = {k: v * nx * ny for k, v in sides_per_cell.items()}
    else:
        for p in unit_lattice.plaquettes:
            sides[p.n_sides] = sides.get(p.n_sides, 0) + nx * ny
    coord = unit_lattice.vertices.coordination_numbers
    need(np.all(coord == 3), "unit cell not trivalent")
    check_closed_tiling(lat, sides, name=name)
    if unit_coloring is not None:
        check_proper_coloring(lat, col, name=name)
    return lat


def check_single_plaquette(n):
    lat = eg.single_plaquette(n)
    check_basic_arrays(lat)
    need(lat.n_vertices == n and lat.n_edges == n, f"single_plaquette {n} size")
    need(np.all(lat.edges.crossing == 0), "single_plaquette crossing")
    need(np.all(lat.vertices.coordination_numbers == 2), "single_plaquette coordination")
    need(lat.n_plaquettes == 1 and lat.plaquettes[0].n_sides == n, f"single_plaquette {n} plaquette")
    pos = lat.vertices.positions
    need(np.allclose(np.linalg.norm(pos - 0.5, axis=1), 0.4), "single_plaquette radius")
    lens = np.linalg.norm(lat.edges.vectors, axis=1)
    need(np.allclose(lens, 0.8 * np.sin(np.pi / n)), "single_plaquette regular")
    area = plaquette_area(lat, lat.plaquettes[0])
    need(abs(area - 0.5 * n * 0.16 * np.sin(2 * np.pi / n)) < 1e-9, "single_plaquette area")
    # one closed cycle through all vertices
    nxt = {}
    for a, b in lat.edges.indices:
        need(a not in nxt, "single_plaquette cycle")
        nxt[a] = b
    v, seen = 0, set()
    while v not in seen:
        seen.add(v)
        v = nxt[v]
    need(len(seen) == n, "single_plaquette cycle length")


def check_wheel(n):
    lat = eg.higher_coordination_number_example(n)
    check_basic_arrays(lat)
    need(lat.n_vertices == n + 1 and lat.n_edges == 2 * n, f"wheel {n} size")
    coord = lat.vertices.coordination_numbers
    need(np.sum(coord == n) >= 1 and np.max(coord) == max(n, 3), f"wheel {n} hub")
    hub = int(np.argmin(np.linalg.norm(lat.vertices.positions - 0.5, axis=1)))
    need(coord[hub] == n, "wheel hub coordination")
    need(np.all(np.delete(coord, hub) == 3), "wheel rim coordination")
    need(lat.n_plaquettes == n and all(p.n_sides == 3 for p in lat.plaquettes), f"wheel {n} triangles")
    need(np.all(lat.edges.crossing == 0), "wheel crossing")
    area = sum(plaquette_area(lat, p) for p in lat.plaquettes)
    need(abs(area - 0.5 * n * 0.16 * np.sin(2 * np.pi / n)) < 1e-9, "wheel area")


def check_ladder(n, wobble):
    lat = eg.n_ladder(n, wobble)
    check_basic_arrays(lat)
    need(lat.n_vertices == 2 * n and lat.n_edges == 3 * n, f"ladder {n} size")
    need(np.all(lat.vertices.coordination_numbers == 3), "ladder coordination")
    need(lat.n_plaquettes == n and all(p.n_sides == 4 for p in lat.plaquettes), f"ladder {n} squares")
    cr = lat.edges.crossing
    need(np.all(cr[:, 1] == 0) and np.sum(cr[:, 0] != 0) == 2, "ladder crossings")
    # all rungs have length 0.4 and are vertical, rails advance in x around the loop
    vec = lat.edges.vectors
    rung = np.isclose(vec[:, 0], 0)
    need(rung.sum() == n and np.allclose(np.abs(vec[rung, 1]), 0.4), "ladder rungs")
    need(np.isclose(abs(np.sum(vec[~rung, 0])), 2.0), "ladder rails wind once each")
    area = sum(plaquette_area(lat, p) for p in lat.plaquettes)
    need(abs(area - 0.4) < 1e-9, "ladder area")


def random_unit_cell(seed, n_points):
    rng = np.random.default_rng(seed)
    return voronization.generate_lattice(rng.uniform(size=(n_points, 2)))


def main():
    # rewrite t touches hex_square_oct_lattice, square_lattice, single_plaquette,
    # higher_coordination_number_example and n_ladder
    for n in [2, 3, 4, 6, 8]:
        check_hex_square_oct(n)
    for nx, ny in [(2, 2), (2, 3), (3, 2), (4, 4), (5, 8), (8, 3), (7, 7), (8, 8)]:
        check_square(nx, ny)
    for n in [3, 4, 5, 6, 7, 12, 17, 31, 40]:
        check_single_plaquette(n)
        check_wheel(n)
    for n in [3, 4, 5, 8, 13, 30]:
        check_ladder(n, False)
        check_ladder(n, True)
    # tiling a hex-square-oct cell
    unit = eg.hex_square_oct_lattice(2)
    for nx, ny in [(1, 1), (2, 3), (4, 1)]:
        check_tile_generic(unit, nx, ny, name=f"tile hso2 {nx}x{ny}")
    print("OK")


if __name__ == "__main__":
    main()
