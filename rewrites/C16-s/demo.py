"""C16 demo (plaquette clause): every point of the unit cell inside a selected plaquette is covered by exactly
one drawn polygon of that plaquette's colour, and by none if it is outside.

For several lattices x subset forms x label forms x colour schemes:
  * plot_plaquettes returns one PolyCollection per selected plaquette (in subset order), all added to the Axes,
  * its face colour is scheme[label[plaquette]],
  * for about 1200 sample points of the unit cell, the number of drawn polygons of the collection containing the
    point equals the number (0 or 1) of lattice translates of the plaquette (rebuilt here from vertex positions and
    edge crossings) that contain it,
  * all drawn polygons of one collection are distinct lattice translates of the plaquette (none twice),
  * labels per element and per subset element give the same result.
The ORDER of the polygons inside a collection and the way the vertices are passed to matplotlib are not looked at.
"""
import os
os.environ.setdefault("MPLBACKEND", "Agg")
import sys
import numpy as np
import matplotlib
matplotlib.use("Agg")
from matplotlib import pyplot as plt
from matplotlib.colors import to_rgba
from matplotlib.collections import PolyCollection
from matplotlib.path import Path

from koala import plotting, example_graphs as eg


def reference_polygon(lattice, p):
    pos = lattice.vertices.positions
    pt = np.array(pos[p.vertices[0]], dtype=float)
    out = []
    for e, d in zip(p.edges, p.directions):
        i, j = lattice.edges.indices[e]
        vec = pos[j] - pos[i] + lattice.edges.crossing[e]
        pt = pt + d * vec
        out.append(pt.copy())
    out = np.array(out)
    assert np.allclose(out[-1], pos[p.vertices[0]], atol=1e-9), "plaquette does not close"
    return out


def near_boundary(poly, pts, tol=1e-7):
    a = poly
    b = np.roll(poly, -1, axis=0)
    near = np.zeros(len(pts), dtype=bool)
    for p, q in zip(a, b):
        d = q - p
        L2 = d @ d
        t = np.clip(((pts - p) @ d) / L2, 0, 1)
        proj = p + t[:, None] * d
        near |= np.linalg.norm(pts - proj, axis=1) < tol
    return near


def strip_closing(v):
    v = np.asarray(v)
    # matplotlib closes polygons by repeating the first vertex (+ CLOSEPOLY)
    if len(v) > 1 and np.allclose(v[0], v[-1]):
        v = v[:-1]
    return v


def check(lattice, subset, labels_full, scheme, pts):
    N = lattice.n_plaquettes
    idx = np.arange(N)[subset]
    scheme_list = [scheme] if isinstance(scheme, str) else list(scheme)
    results = []
    for labels in (labels_full, np.asarray(labels_full)[idx] if np.ndim(labels_full) else labels_full):
        fig, ax = plt.subplots()
        try:
            cols = plotting.plot_plaquettes(lattice, labels=labels, color_scheme=scheme, subset=subset, ax=ax)
            assert isinstance(cols, list) and len(cols) == len(idx)
            on_ax = [c for c in ax.collections if isinstance(c, PolyCollection)]
            assert len(on_ax) == len(cols) and all(any(c is d for d in on_ax) for c in cols)
            summary = []
            for c, pi in zip(cols, idx):
                assert isinstance(c, PolyCollection)
                p = lattice.plaquettes[pi]
                lab = labels_full[pi] if np.ndim(labels_full) else labels_full
                fc = c.get_facecolor()
                assert len(fc) == 1 and np.allclose(fc[0], to_rgba(scheme_list[lab])), ("wrong colour", pi, fc)
                ref = reference_polygon(lattice, p)
                drawn = [strip_closing(path.vertices) for path in c.get_paths()]
                # every drawn polygon is an integer translate of the plaquette, none twice
                shifts = []
                for poly in drawn:
                    assert poly.shape == ref.shape, (poly.shape, ref.shape)
                    sh = poly - ref
                    r = np.round(sh[0])
                    assert np.allclose(sh, r[None, :], atol=1e-9), "drawn polygon is not a translate of the plaquette"
                    shifts.append((int(r[0]), int(r[1])))
                assert len(set(shifts)) == len(shifts), ("polygon drawn twice", pi, shifts)
                # coverage
                want = np.zeros(len(pts), dtype=int)
                bad = np.zeros(len(pts), dtype=bool)
                for dx in range(-2, 3):
                    for dy in range(-2, 3):
                        poly = ref + np.array([dx, dy])
                        want += Path(poly).contains_points(pts)
                        bad |= near_boundary(poly, pts)
                got = np.zeros(len(pts), dtype=int)
                for poly in drawn:
                    got += Path(poly).contains_points(pts)
                ok = ~bad
                assert np.all(want[ok] <= 1)
                assert np.array_equal(got[ok], want[ok]), ("coverage differs", pi, np.flatnonzero(got[ok] != want[ok])[:5])
                summary.append((int(pi), tuple(np.round(fc[0], 6)), tuple(sorted(shifts))))
            results.append(summary)
        finally:
            plt.close(fig)
    assert results[0] == results[1], "labels per element / per subset element differ"


def main():
    rng = np.random.default_rng(1616)
    g = (np.arange(25) + 0.5) / 25
    grid = np.array([(x, y) for x in g for y in g])
    pts = np.concatenate([grid, rng.uniform(size=(600, 2))])
    lattices = {
        "honeycomb": eg.honeycomb_lattice(3),
        "amorphous": eg.make_amorphous(5, rng=np.random.default_rng(3))[0],
        "amorphous_open": eg.make_amorphous(4, rng=np.random.default_rng(4), open_boundary_conditions=True)[0],
        "hex_square_oct": eg.hex_square_oct_lattice(2),
        "square": eg.square_lattice(3, 4),
        "tri_square_pent(open)": eg.tri_square_pent(),
        "star_sheared": eg.star_lattice_sheared()[0],
        "concave": eg.concave_plaquette(),
    }
    n = 0
    for name, lat in lattices.items():
        if isinstance(lat, tuple):
            lat = lat[0]
        N = lat.n_plaquettes
        mask = rng.integers(2, size=N).astype(bool)
        mask[0] = True
        subsets = [slice(None), slice(0, N, 2), mask, list(rng.permutation(N)[:max(1, N // 2)])]
        for subset in subsets:
            check(lat, subset, rng.integers(3, size=N), plotting.colourblind_friendly_scheme, pts)
            check(lat, subset, rng.integers(2, size=N), ["green", "black"], pts)
            check(lat, subset, 0, "purple", pts)
            check(lat, subset, 1, plotting.colourblind_friendly_scheme, pts)
            n += 4
    # all selected plaquettes together tile the cell exactly once for periodic lattices
    for name in ("honeycomb", "amorphous", "hex_square_oct", "square"):
        lat = lattices[name]
        fig, ax = plt.subplots()
        cols = plotting.plot_plaquettes(lat, ax=ax)
        cover = np.zeros(len(pts), dtype=int)
        bad = np.zeros(len(pts), dtype=bool)
        for c in cols:
            for path in c.get_paths():
                v = strip_closing(path.vertices)
                cover += Path(v).contains_points(pts)
                bad |= near_boundary(v, pts)
        plt.close(fig)
        assert np.all(cover[~bad] == 1), (name, "cell not tiled exactly once")
        n += 1
    print(f"{n} configurations checked")
    print("OK")


if __name__ == "__main__":
    main()
    sys.exit(0)
