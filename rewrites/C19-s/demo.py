"""Demo for rewrite s (C19): bluenoise restructured (helpers, array buffer, flag instead of index test).

Checks, on a handful of (k, nx, ny, seed) including nx != ny and thin domains:
  * every point lies in [0,1]^2,
  * all pairwise distances (before normalisation by (nx, ny)) are > 1,
  * for k >= 20 the points reach within two grid spacings of all four sides,
  * same seeded generator -> same points, irrespective of the global numpy
    random state, and the global state is left untouched.
Exits 0 and prints OK on success.
"""
import sys
import numpy as np
from koala import pointsets


def global_state_fingerprint():
    st = np.random.get_state()
    return (st[0], st[1].tobytes(), st[2], st[3], st[4])


def check_bluenoise(k, nx, ny, seed):
    np.random.seed(1234 + seed)
    before = global_state_fingerprint()
    a = pointsets.bluenoise(k, nx, ny, rng=np.random.default_rng(seed))
    assert global_state_fingerprint() == before, "global random state disturbed"
    np.random.seed(987654 - seed)
    b = pointsets.bluenoise(k, nx, ny, rng=np.random.default_rng(seed))
    assert a.shape == b.shape and np.array_equal(a, b), "not reproducible"

    assert a.ndim == 2 and a.shape[1] == 2 and a.shape[0] >= 1
    assert a.dtype == np.float64
    assert np.all(a >= 0) and np.all(a <= 1), "point outside the unit square"

    p = a * np.array([nx, ny])
    if len(p) > 1:
        d = np.linalg.norm(p[:, None, :] - p[None, :, :], axis=-1)
        iu = np.triu_indices(len(p), 1)
        # 1e-9 slack only absorbs the round-trip through normalisation
        assert d[iu].min() > 1 - 1e-9, "spacing violated: %r" % d[iu].min()
    return p


def main():
    # includes runs with more than 16 and more than 32 samples, so that the
    # sample buffer of the rewrite is grown at least twice
    cases = [
        (1, 2, 3, 20), (1, 7, 7, 21), (2, 6, 1, 22), (4, 1, 8, 23),
        (6, 3, 2, 24), (9, 9, 5, 25), (15, 11, 12, 26), (20, 5, 5, 27),
        (20, 12, 2, 28), (22, 4, 10, 29), (31, 7, 3, 30), (36, 12, 11, 31),
        (40, 9, 9, 32), (40, 3, 3, 33),
    ]
    for k, nx, ny, seed in cases:
        p = check_bluenoise(k, nx, ny, seed)
        if k >= 20 and min(nx, ny) >= 2:
            assert p[:, 0].min() <= 2 and p[:, 0].max() >= nx - 2, (k, nx, ny, seed)
            assert p[:, 1].min() <= 2 and p[:, 1].max() >= ny - 2, (k, nx, ny, seed)

    # hyperuniform / uniform are untouched by this rewrite; quick sanity only
    h = pointsets.hyperuniform(7, 5, 0.05, rng=np.random.default_rng(3))
    assert np.all(h >= 0) and np.all(h <= 1)
    for n in (0, 1, 17, 1000):
        u = pointsets.uniform(n, rng=np.random.default_rng(n))
        assert u.shape == (n, 2) and np.all(u >= 0) and np.all(u <= 1)
    print("OK")
    return 0


if __name__ == "__main__":
    sys.exit(main())
