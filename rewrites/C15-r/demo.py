"""C15 demo for rewrite r (flux_finder): no flux_finder operation modifies the lattice or the arrays passed to
it, and results do not depend on what was called before on the same objects.
Run: PYTHONPATH=/tmp/rw-C15/src /venv/bin/python out/r/demo.py   (exits 0 and prints OK)"""
import sys
import warnings
import numpy as np

warnings.simplefilter("ignore")
from koala import example_graphs as eg, voronization, pointsets
from koala.lattice import Lattice, cut_boundaries
from koala.graph_utils import plaquette_spanning_tree
from koala.flux_finder import (find_flux_sector, fluxes_from_bonds, fluxes_to_labels, n_to_ujk_flipped,
                               fluxes_from_ujk, ujk_from_fluxes)


def fp_array(a):
    a = np.asarray(a)
    if a.dtype == object:
        return ("obj", a.shape, tuple(fp_array(x) for x in a.ravel()))
    return (str(a.dtype), a.shape, a.tobytes())


def force_lazy(l):
    l.plaquettes, l.n_plaquettes, l.edges.adjacent_plaquettes, l.vertices.adjacent_plaquettes


def fp_lattice(l):
    force_lazy(l)
    out = [fp_array(l.vertices.positions), fp_array(l.edges.indices), fp_array(l.edges.crossing),
           fp_array(l.edges.vectors), fp_array(l.vertices.coordination_numbers),
           tuple(fp_array(x) for x in l.vertices.adjacent_edges),
           tuple(fp_array(x) for x in l.edges.adjacent_edges),
           fp_array(l.edges.adjacent_plaquettes), fp_array(l.vertices.adjacent_plaquettes),
           l.n_vertices, l.n_edges, l.n_plaquettes]
    for p in l.plaquettes:
        out.append((fp_array(p.vertices), fp_array(p.edges), fp_array(p.directions), fp_array(p.center),
                    int(p.n_sides), fp_array(p.adjacent_plaquettes)))
    return tuple(out)


def clone(l):
    """an independent lattice with no lazily computed attribute populated"""
    return Lattice(l.vertices.positions.copy(), l.edges.indices.copy(), l.edges.crossing.copy())


def same(x, y):
    return fp_array(x) == fp_array(y)


rng = np.random.default_rng(15)
lattices = {
    "honeycomb4": eg.honeycomb_lattice(4),
    "honeycomb7_open": cut_boundaries(eg.honeycomb_lattice(7)),
    "hex_square_oct": eg.hex_square_oct_lattice(3),
    "tri_square_pent": eg.tri_square_pent(),
    "single_plaquette5": eg.single_plaquette(5),
    "amorphous30": voronization.generate_lattice(pointsets.uniform(30, rng=rng)),
    "amorphous80_open_x": cut_boundaries(voronization.generate_lattice(pointsets.uniform(80, rng=rng)), [True, False]),
    "square5x4": eg.square_lattice(5, 4),
}

n_checked = 0
for name, lat in lattices.items():
    nP, nE = lat.n_plaquettes, lat.n_edges
    for trial in range(3):
        args = {
            "ujk8": rng.choice([-1, 1], size=nE).astype(np.int8),
            "ujk64": rng.choice([-1, 1], size=nE).astype(np.int64),
            "ujkf": rng.choice([-1.0, 1.0], size=nE),
            "target8": rng.choice([-1, 1], size=nP).astype(np.int8),
            "target64": rng.choice([-1, 1], size=nP).astype(np.int64),
            "all_minus": np.full(nP, -1),
        }
        try:
            args["tree"] = plaquette_spanning_tree(clone(lat))
        except Exception:
            args["tree"] = np.arange(min(3, nE))
        args["subset"] = rng.permutation(nE)[:min(5, nE)]

        calls = [
            ("fluxes_from_ujk", lambda l, a: fluxes_from_ujk(l, a["ujk8"])),
            ("fluxes_from_ujk_c", lambda l, a: fluxes_from_ujk(l, a["ujkf"], real=False)),
            ("ujk_from_fluxes", lambda l, a: ujk_from_fluxes(l, a["target8"], a["ujk8"])),
            ("ujk_from_fluxes64", lambda l, a: ujk_from_fluxes(l, a["target64"], a["ujk64"])),
            ("ujk_from_fluxes_f", lambda l, a: ujk_from_fluxes(l, a["target64"], a["ujkf"])),
            ("ujk_from_fluxes_default", lambda l, a: ujk_from_fluxes(l)),
            ("ujk_from_fluxes_gs", lambda l, a: ujk_from_fluxes(l, a["all_minus"], a["ujk64"])),
            ("find_flux_sector", lambda l, a: find_flux_sector(l, a["target8"], a["ujk8"])),
            ("find_flux_sector64", lambda l, a: find_flux_sector(l, a["target64"], a["ujk64"])),
            ("find_flux_sector_default", lambda l, a: find_flux_sector(l)),
            ("fluxes_from_bonds", lambda l, a: fluxes_from_bonds(l, a["ujk64"])),
            ("fluxes_from_bonds_c", lambda l, a: fluxes_from_bonds(l, a["ujk8"], real=False)),
            ("n_to_ujk_flipped", lambda l, a: n_to_ujk_flipped(5 % 2**len(a["tree"]), a["ujk8"], a["tree"])),
            ("n_to_ujk_flipped_f", lambda l, a: n_to_ujk_flipped(3 % 2**len(a["subset"]), a["ujkf"], a["subset"])),
            ("n_to_ujk_flipped_0", lambda l, a: n_to_ujk_flipped(0, a["ujk64"], a["tree"])),
            ("fluxes_to_labels", lambda l, a: fluxes_to_labels(a["target8"])),
        ]

        def run(call, l, a):
            try:
                return ("ok", call(l, a))
            except Exception as e:  # an exception is a legitimate, reproducible outcome
                return ("raised", type(e).__name__)

        def outcome_same(x, y):
            if x[0] != y[0]:
                return False
            return x[1] == y[1] if x[0] == "raised" else same(x[1], y[1])

        # reference: every call evaluated on its own fresh lattice and fresh argument copies
        fresh = {}
        for cname, call in calls:
            fresh[cname] = run(call, clone(lat), {k: v.copy() for k, v in args.items()})

        # shared objects, random call sequence; fingerprints before/after every call
        shared_lat = clone(lat)
        lat_fp = fp_lattice(shared_lat)
        arg_fp = {k: fp_array(v) for k, v in args.items()}
        for step in rng.integers(len(calls), size=30):
            cname, call = calls[step]
            res = run(call, shared_lat, args)
            n_checked += 1
            if fp_lattice(shared_lat) != lat_fp:
                sys.exit(f"FAIL {name}: {cname} modified the lattice")
            for k, v in args.items():
                if fp_array(v) != arg_fp[k]:
                    sys.exit(f"FAIL {name}: {cname} modified argument {k}")
            if not outcome_same(res, fresh[cname]):
                sys.exit(f"FAIL {name}: {cname} depends on call history")
            if res[0] == "ok" and isinstance(res[1], np.ndarray):
                for k, v in args.items():
                    if np.shares_memory(res[1], v):
                        sys.exit(f"FAIL {name}: result of {cname} aliases argument {k}")
                # scribbling on a result must not leak into the arguments either
                res[1][...] = 0
                for k, v in args.items():
                    if fp_array(v) != arg_fp[k]:
                        sys.exit(f"FAIL {name}: writing to result of {cname} changed argument {k}")

        # sanity of the solver clause: the found bonds reproduce the target up to one flux
        out = run(calls[2][1], shared_lat, args)
        if out[0] == "ok":
            assert out[1].dtype == np.int8 and out[1].shape == (nE,)
            assert set(np.unique(out[1])) <= {-1, 1}
            assert np.count_nonzero(fluxes_from_ujk(shared_lat, out[1]) - args["target8"]) <= 1

print(f"OK ({n_checked} calls checked)")
