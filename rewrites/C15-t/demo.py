"""C15 demo for rewrite t (plotting): no plotting operation modifies the lattice, the labels, the colour scheme,
the subset, or the directions passed to it; what gets drawn does not depend on the call history.
Run: MPLBACKEND=Agg PYTHONPATH=/tmp/rw-C15/src /venv/bin/python out/t/demo.py   (exits 0 and prints OK)"""
import os
os.environ.setdefault("MPLBACKEND", "Agg")
import sys
import hashlib
import warnings
import numpy as np
import matplotlib
matplotlib.use("Agg")
from matplotlib import pyplot as plt

warnings.simplefilter("ignore")
from koala import example_graphs as eg, voronization, pointsets, plotting
from koala.lattice import Lattice, cut_boundaries


def fp_array(a):
    a = np.asarray(a)
    if a.dtype == object:
        return ("obj", a.shape, tuple(fp_array(x) for x in a.ravel()))
    return (str(a.dtype), a.shape, a.tobytes())


def force_lazy(l):
    l.plaquettes, l.n_plaquettes, l.edges.adjacent_plaquettes, l.vertices.adjacent_plaquettes


def fp_lattice(l):
    force_lazy(l)
    out = [fp_array(l.vertices.positions), fp_array(l.edges.indices), fp_array(l.edges.crossing),
           fp_array(l.edges.vectors), fp_array(l.vertices.coordination_numbers),
           tuple(fp_array(x) for x in l.vertices.adjacent_edges),
           tuple(fp_array(x) for x in l.edges.adjacent_edges),
           fp_array(l.edges.adjacent_plaquettes), fp_array(l.vertices.adjacent_plaquettes),
           l.n_vertices, l.n_edges, l.n_plaquettes]
    for p in l.plaquettes:
        out.append((fp_array(p.vertices), fp_array(p.edges), fp_array(p.directions), fp_array(p.center),
                    int(p.n_sides), fp_array(p.adjacent_plaquettes)))
    return tuple(out)


def fp_arg(v):
    if isinstance(v, np.ndarray):
        return fp_array(v)
    return ("py", repr(v))


def fp_axes(ax):
    """everything that was drawn on the axes, exactly"""
    out = []
    for c in ax.collections:
        item = [type(c).__name__]
        if hasattr(c, "get_segments"):
            item.append(tuple(fp_array(s) for s in c.get_segments()))
        else:
            item.append(tuple(fp_array(p.vertices) for p in c.get_paths()))
        item.append(fp_array(np.asarray(c.get_offsets(), dtype=float)))
        item.append(fp_array(c.get_facecolor()))
        item.append(fp_array(c.get_edgecolor()))
        out.append(tuple(item))
    for p in ax.patches:
        out.append((type(p).__name__, fp_array(p.get_xy()) if hasattr(p, "get_xy") else None))
    for t in ax.texts:
        out.append(("text", t.get_text(), tuple(float(x) for x in t.get_position())))
    for q in ax.get_children():
        if type(q).__name__ == "QuadMesh":
            out.append(("mesh", fp_array(np.ma.filled(q.get_array(), -9.0))))
    out.append(("lims", tuple(ax.get_xlim()), tuple(ax.get_ylim())))
    return tuple(out)


def clone(l):
    """an independent lattice with no lazily computed attribute populated"""
    return Lattice(l.vertices.positions.copy(), l.edges.indices.copy(), l.edges.crossing.copy())


def clone_arg(v):
    return v.copy() if isinstance(v, np.ndarray) else (list(v) if isinstance(v, list) else v)


rng = np.random.default_rng(151515)
lattices = {
    "honeycomb3": eg.honeycomb_lattice(3),
    "honeycomb5_open": cut_boundaries(eg.honeycomb_lattice(5)),
    "hex_square_oct": eg.hex_square_oct_lattice(2),
    "tri_square_pent": eg.tri_square_pent(),
    "amorphous20": voronization.generate_lattice(pointsets.uniform(20, rng=rng)),
    "amorphous40_open_x": cut_boundaries(voronization.generate_lattice(pointsets.uniform(40, rng=rng)), [True, False]),
    "square3x4": eg.square_lattice(3, 4),
}

n_checked = 0
digest = hashlib.sha256()
for name, lat in lattices.items():
    nV, nE, nP = lat.n_vertices, lat.n_edges, lat.n_plaquettes
    args = {
        "vlabels": rng.integers(2, size=nV),
        "elabels": rng.integers(3, size=nE),
        "elabels8": rng.integers(3, size=nE).astype(np.int8),
        "plabels": rng.integers(3, size=nP),
        "scheme_arr": np.array(["#E7414E", "#5BB03E", "#4B64AC"]),
        "scheme_rgba": np.array([[1.0, 0.0, 0.0, 1.0], [0.0, 1.0, 0.0, 0.5], [0.0, 0.0, 1.0, 1.0]]),
        "scheme_list": ["green", "black", "orange"],
        "esubset_idx": np.sort(rng.permutation(nE)[:max(1, nE // 3)]),
        "esubset_mask": rng.random(nE) < 0.5,
        "esub_labels": rng.integers(3, size=max(1, nE // 3)),
        "psubset_idx": rng.permutation(nP)[:max(1, nP // 2)],
        "vsubset_mask": rng.random(nV) < 0.5,
        "directions": rng.choice([-1, 1], size=nE),
        "scalar": rng.random(nV),
        "three_vertex": int(np.argmax(lat.vertices.coordination_numbers == 3)),  # 0 if there is none: the call then raises
    }
    P = plotting
    calls = [
        ("plot_vertices", lambda l, a, ax: P.plot_vertices(l, ax=ax)),
        ("plot_vertices_lab", lambda l, a, ax: P.plot_vertices(l, a["vlabels"], a["scheme_list"], ax=ax)),
        ("plot_vertices_mask", lambda l, a, ax: P.plot_vertices(l, a["vlabels"], a["scheme_arr"], a["vsubset_mask"], ax=ax)),
        ("plot_edges", lambda l, a, ax: P.plot_edges(l, ax=ax)),
        ("plot_edges_lab", lambda l, a, ax: P.plot_edges(l, a["elabels"], a["scheme_arr"], ax=ax)),
        ("plot_edges_lab8", lambda l, a, ax: P.plot_edges(l, a["elabels8"], a["scheme_rgba"], ax=ax)),
        ("plot_edges_color", lambda l, a, ax: P.plot_edges(l, a["elabels"], a["scheme_arr"], ax=ax, color="black")),
        ("plot_edges_color_rgba", lambda l, a, ax: P.plot_edges(l, a["elabels"], a["scheme_rgba"], ax=ax, color=(0.5, 0.5, 0.5, 1.0))),
        ("plot_edges_idx", lambda l, a, ax: P.plot_edges(l, a["elabels"], a["scheme_list"], a["esubset_idx"], ax=ax)),
        ("plot_edges_idx_sublabels", lambda l, a, ax: P.plot_edges(l, a["esub_labels"], a["scheme_arr"], a["esubset_idx"], ax=ax)),
        ("plot_edges_mask", lambda l, a, ax: P.plot_edges(l, a["elabels"], a["scheme_arr"], a["esubset_mask"], ax=ax)),
        ("plot_edges_slice", lambda l, a, ax: P.plot_edges(l, 1, a["scheme_arr"], slice(1, None, 2), ax=ax)),
        ("plot_edges_dir", lambda l, a, ax: P.plot_edges(l, a["elabels"], a["scheme_arr"], directions=a["directions"], ax=ax)),
        ("plot_edges_dir_sub", lambda l, a, ax: P.plot_edges(l, a["elabels"], a["scheme_arr"], a["esubset_idx"], directions=a["directions"], ax=ax)),
        ("plot_edges_dir_scalar", lambda l, a, ax: P.plot_edges(l, directions=-1, ax=ax, arrow_head_length=0.02)),
        ("plot_edges_badshape", lambda l, a, ax: P.plot_edges(l, a["elabels"][:-1] if nE > 2 else a["elabels"], ax=ax)),
        ("plot_plaquettes", lambda l, a, ax: P.plot_plaquettes(l, ax=ax)),
        ("plot_plaquettes_lab", lambda l, a, ax: P.plot_plaquettes(l, a["plabels"], a["scheme_arr"], ax=ax, alpha=0.4)),
        ("plot_plaquettes_sub", lambda l, a, ax: P.plot_plaquettes(l, a["plabels"], a["scheme_rgba"], a["psubset_idx"], ax=ax)),
        ("plot_dual", lambda l, a, ax: P.plot_dual(l, ax=ax)),
        ("plot_lattice", lambda l, a, ax: P.plot_lattice(l, ax=ax)),
        ("plot_lattice_full", lambda l, a, ax: P.plot_lattice(l, ax=ax, edge_labels=a["elabels"], vertex_labels=a["vlabels"],
                                                              edge_arrows=True, edge_index_labels=True, bond_signs=a["directions"])),
        ("plot_scalar", lambda l, a, ax: P.plot_scalar(l, a["scalar"], ax=ax, resolution=12, method="linear")),
        ("plot_vertex_indices", lambda l, a, ax: P.plot_vertex_indices(l, ax=ax)),
        ("plot_edge_indices", lambda l, a, ax: P.plot_edge_indices(l, ax=ax)),
        ("plot_plaquette_indices", lambda l, a, ax: P.plot_plaquette_indices(l, ax=ax)),
        ("plot_degeneracy_breaking", lambda l, a, ax: P.plot_degeneracy_breaking(a["three_vertex"], l, ax=ax)),
    ]

    def run(call, l, a):
        fig, ax = plt.subplots()
        try:
            try:
                call(l, a, ax)
                return ("ok", fp_axes(ax))
            except Exception as e:  # an exception is a legitimate, reproducible outcome
                return ("raised", type(e).__name__)
        finally:
            plt.close(fig)

    # reference: every call evaluated on its own fresh lattice and fresh argument copies
    fresh = {}
    for cname, call in calls:
        fresh[cname] = run(call, clone(lat), {k: clone_arg(v) for k, v in args.items()})
        digest.update(repr((name, cname, fresh[cname])).encode())
    if fresh["plot_edges_lab"][0] != "ok" or fresh["plot_plaquettes_lab"][0] != "ok" or fresh["plot_lattice_full"][0] != "ok":
        sys.exit(f"FAIL {name}: basic plotting calls raise: { {k: v[1] for k, v in fresh.items() if v[0] == 'raised'} }")

    # shared objects, random call sequence; fingerprints before/after every call
    shared_lat = clone(lat)
    lat_fp = fp_lattice(shared_lat)
    arg_fp = {k: fp_arg(v) for k, v in args.items()}
    default_scheme_fp = repr(P.colourblind_friendly_scheme)
    for step in rng.integers(len(calls), size=30):
        cname, call = calls[step]
        res = run(call, shared_lat, args)
        n_checked += 1
        if fp_lattice(shared_lat) != lat_fp:
            sys.exit(f"FAIL {name}: {cname} modified the lattice")
        for k, v in args.items():
            if fp_arg(v) != arg_fp[k]:
                sys.exit(f"FAIL {name}: {cname} modified argument {k}")
        if repr(P.colourblind_friendly_scheme) != default_scheme_fp:
            sys.exit(f"FAIL {name}: {cname} modified the module's default colour scheme")
        if res != fresh[cname]:
            sys.exit(f"FAIL {name}: {cname} depends on call history")

print(f"OK ({n_checked} calls checked) drawn-digest={digest.hexdigest()[:16]}")
