"""Demo for rewrite r (Lattice.__getstate__).

Checks, against a specification written independently of the implementation, that
 * the pickled state is (float32 positions, smallest-unsigned-dtype edge indices, int8 crossing),
   with the index dtype switching exactly at 255/256 and 65535/65536 vertices,
 * the state never aliases the live lattice,
 * pickling with every protocol 2..5, before and after the cached attributes are populated,
   gives back an equal lattice with identical edges, crossings, plaquettes and adjacency tables.
Exits 0 and prints OK on the unchanged tree and with the rewrite applied.
"""
import copy
import pickle
import sys

import numpy as np

from koala import example_graphs as eg
from koala import voronization
from koala.lattice import Lattice, cut_boundaries


def fresh(l):
    """same lattice, nothing cached"""
    return Lattice(l.vertices.positions.copy(), l.edges.indices.copy(), l.edges.crossing.copy())


def expected_index_dtype(n):
    if n <= 255:
        return np.dtype(np.uint8)
    if n <= 65535:
        return np.dtype(np.uint16)
    if n <= 4294967295:
        return np.dtype(np.uint32)
    return np.dtype(np.uint64)


def sparse_lattice(n_vertices):
    """many vertices, few edges (cheap to construct), the last vertex is used by an edge"""
    rng = np.random.default_rng(n_vertices)
    pos = rng.uniform(0.05, 0.95, size=(n_vertices, 2))
    pos[:4] = [[0.1, 0.1], [0.9, 0.1], [0.9, 0.9], [0.1, 0.9]]
    last = n_vertices - 1
    edges = np.array([[0, 1], [1, 2], [2, 3], [3, 0], [0, last], [last, 2]])
    crossing = np.zeros_like(edges)
    crossing[1] = [0, 1]
    crossing[3] = [-1, 0]
    return Lattice(pos, edges, crossing)


def same_plaquettes(a, b):
    assert a.n_plaquettes == b.n_plaquettes
    for p, q in zip(a.plaquettes, b.plaquettes):
        assert np.array_equal(p.vertices, q.vertices)
        assert np.array_equal(p.edges, q.edges)
        assert np.array_equal(p.directions, q.directions)
        assert np.array_equal(p.adjacent_plaquettes, q.adjacent_plaquettes)
        assert p.n_sides == q.n_sides
        assert np.allclose(p.center, q.center, atol=1e-5)
    assert np.array_equal(a.edges.adjacent_plaquettes, b.edges.adjacent_plaquettes)
    assert np.array_equal(a.vertices.adjacent_plaquettes, b.vertices.adjacent_plaquettes)


def same_tables(a, b):
    assert a == b and b == a
    assert np.array_equal(a.edges.indices, b.edges.indices)
    assert np.array_equal(a.edges.crossing, b.edges.crossing)
    assert np.allclose(a.edges.vectors, b.edges.vectors, atol=1e-6)
    assert np.array_equal(a.vertices.coordination_numbers, b.vertices.coordination_numbers)
    assert np.array_equal(a.vertices.positions.astype(np.float32), b.vertices.positions.astype(np.float32))
    assert len(a.vertices.adjacent_edges) == len(b.vertices.adjacent_edges)
    for x, y in zip(a.vertices.adjacent_edges, b.vertices.adjacent_edges):
        assert np.array_equal(x, y)
    for x, y in zip(a.edges.adjacent_edges, b.edges.adjacent_edges):
        assert np.array_equal(x, y)
    assert (a.n_vertices, a.n_edges) == (b.n_vertices, b.n_edges)


def check_state(l):
    state = l.__getstate__()
    assert isinstance(state, tuple) and len(state) == 3
    vertices, edges, crossing = state
    for part in state:
        assert type(part) is np.ndarray
    assert vertices.dtype == np.float32
    assert edges.dtype == expected_index_dtype(l.n_vertices), (edges.dtype, l.n_vertices)
    assert crossing.dtype == np.int8
    assert vertices.shape == l.vertices.positions.shape
    assert edges.shape == l.edges.indices.shape
    assert crossing.shape == l.edges.crossing.shape
    assert np.array_equal(vertices, l.vertices.positions.astype(np.float32))
    assert np.array_equal(edges, l.edges.indices)
    assert np.array_equal(crossing, l.edges.crossing)
    # the state owns its data
    assert not np.shares_memory(vertices, l.vertices.positions)
    assert not np.shares_memory(edges, l.edges.indices)
    assert not np.shares_memory(crossing, l.edges.crossing)
    # taking the state does not disturb the lattice
    assert "plaquettes" not in l.__dict__ or l.__dict__["plaquettes"] is l.plaquettes


def check_roundtrips(l):
    reference = fresh(l)
    reference.plaquettes
    for protocol in (2, 3, 4, 5):
        early = fresh(l)
        check_state(early)
        restored_early = pickle.loads(pickle.dumps(early, protocol=protocol))
        assert "plaquettes" not in early.__dict__
        late = fresh(l)
        late.plaquettes
        late.edges.adjacent_plaquettes
        late.vertices.adjacent_plaquettes
        late.n_plaquettes
        check_state(late)
        restored_late = pickle.loads(pickle.dumps(late, protocol=protocol))
        for restored in (restored_early, restored_late):
            assert type(restored) is Lattice
            assert restored.vertices.positions.dtype == np.float32
            assert restored.edges.indices.dtype == np.dtype(int)
            assert restored.edges.crossing.dtype == np.dtype(int)
            same_tables(reference, restored)
            same_plaquettes(reference, restored)
            # pickling the restored lattice again is a fixed point
            again = pickle.loads(pickle.dumps(restored, protocol=protocol))
            assert np.array_equal(again.vertices.positions, restored.vertices.positions)
            same_tables(restored, again)
    # copy / deepcopy go through the same state
    for clone in (copy.copy(reference), copy.deepcopy(reference)):
        same_tables(reference, clone)
        assert not np.shares_memory(clone.vertices.positions, reference.vertices.positions)


def main():
    rng = np.random.default_rng(7)
    amorphous = voronization.generate_lattice(rng.uniform(size=(144, 2)))  # 288 vertices
    honeycomb = eg.honeycomb_lattice(5)
    lattices = [
        eg.two_triangles(),
        eg.tri_square_pent(),
        eg.n_ladder(6, wobble=True),
        eg.square_lattice(4, 5),
        eg.higher_coordination_number_example(5),
        eg.bridge_graph(),
        honeycomb,
        cut_boundaries(honeycomb, [True, False]),
        amorphous,
        cut_boundaries(amorphous),
        eg.single_plaquette(255),
        eg.single_plaquette(256),
        eg.single_plaquette(257),
    ]
    for l in lattices:
        check_roundtrips(l)

    # index-dtype thresholds
    for n, dtype in [(3, np.uint8), (254, np.uint8), (255, np.uint8), (256, np.uint16), (257, np.uint16)]:
        l = eg.single_plaquette(n)
        assert l.__getstate__()[1].dtype == dtype
    for n, dtype in [(65535, np.uint16), (65536, np.uint32), (65537, np.uint32), (70000, np.uint32)]:
        l = sparse_lattice(n)
        check_state(l)
        assert l.__getstate__()[1].dtype == dtype
        restored = pickle.loads(pickle.dumps(l, protocol=4))
        assert restored == l and l == restored
        assert np.array_equal(restored.edges.indices, l.edges.indices)
        assert restored.edges.indices.max() == n - 1
        assert np.array_equal(restored.edges.crossing, l.edges.crossing)

    # a restored (float32) lattice and the legacy test file pickle to the same kind of state
    restored = pickle.loads(pickle.dumps(amorphous))
    check_state(restored)
    print("OK")
    return 0


if __name__ == "__main__":
    sys.exit(main())
