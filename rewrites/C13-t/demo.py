"""Demo for the truncation rewrites (C13, vertices_to_polygon).

For periodic Voronoi lattices, regular tilings and their open cuts, and for vertex selections "all", "one vertex",
"random subset" (given as int, numpy integer, list, tuple, set, range, array), and for a second truncation of the result,
checks WITHOUT relying on how the new lattice numbers its vertices or orders / orients the polygon edges:
  * d-1 more vertices and d more edges per truncated vertex of degree d>2 (nothing happens to degree<=2 vertices)
  * every vertex position (so every new corner) lies in [0,1); new corners sit one third along the incident edges, mod 1
  * untouched vertices are still there with unchanged degree; new corners have degree 3
  * the original edges keep their indices (and direction): edge e still runs along the old edge e, shortened by one third
    at each truncated end
  * the added edges form, for every truncated vertex, a closed d-cycle through its d corners with the right edge vectors
  * that d-gon is a plaquette of the new lattice; every old plaquette (recognised by its original edges) has
    gained one side per truncated corner; nothing else appears
  * cases where a new corner falls across the cell boundary are present among the inputs
Exits 0 and prints OK when everything holds.
"""
import os
os.environ.setdefault("MPLBACKEND", "Agg")
import sys
import warnings
from collections import Counter

import numpy as np

from koala.lattice import cut_boundaries
from koala.voronization import generate_lattice
from koala import example_graphs as eg
from koala.graph_utils import vertices_to_polygon

warnings.simplefilter("ignore", RuntimeWarning)  # degenerate two-step "plaquettes" along trailing edges of open cuts
TOL = 1e-9
STATS = Counter()


def outgoing(lattice, v):
    """list of (edge, end (0/1) at which v sits, vector pointing away from v) for every edge at v"""
    out = []
    for e in range(lattice.n_edges):
        a, b = lattice.edges.indices[e]
        if a == v:
            out.append((e, 0, lattice.edges.vectors[e]))
        if b == v:
            out.append((e, 1, -lattice.edges.vectors[e]))
    return out


def find_vertex(positions, target, used):
    d = np.max(np.abs(positions - target), axis=1)
    d[list(used)] = np.inf
    i = int(np.argmin(d))
    assert d[i] < TOL, (target, d[i])
    return i


def normalise_selection(lattice, selection):
    if selection is None:
        chosen = range(lattice.n_vertices)
    elif hasattr(selection, "__iter__"):
        chosen = [int(x) for x in selection]
    else:
        chosen = [int(selection)]
    deg = lattice.vertices.coordination_numbers
    return sorted(set(v for v in chosen if deg[v] > 2))


def check_truncation(lattice, selection, tag):
    T = vertices_to_polygon(lattice, selection)
    truncated = normalise_selection(lattice, selection)
    deg = [len(outgoing(lattice, v)) for v in range(lattice.n_vertices)]
    nV, nE = lattice.n_vertices, lattice.n_edges

    # counts
    assert T.n_vertices == nV + sum(deg[v] - 1 for v in truncated), tag
    assert T.n_edges == nE + sum(deg[v] for v in truncated), tag
    assert T.vertices.positions.shape == (T.n_vertices, 2) and T.vertices.positions.dtype.kind == "f", tag
    assert T.edges.indices.dtype.kind == "i" and T.edges.crossing.dtype.kind == "i", tag

    # all positions inside the unit cell
    assert np.all(T.vertices.positions >= 0) and np.all(T.vertices.positions < 1), tag

    # locate untouched vertices and new corners by position only
    used = set()
    image = {}                     # old untouched vertex -> new index
    corner = {}                    # (old vertex, edge, end) -> new index
    unwrapped = {}                 # new corner index -> unwrapped position
    for v in range(nV):
        if v in truncated:
            continue
        i = find_vertex(T.vertices.positions, lattice.vertices.positions[v], used)
        used.add(i)
        image[v] = i
    for v in truncated:
        for e, end, vec in outgoing(lattice, v):
            raw = lattice.vertices.positions[v] + vec / 3
            if np.any(raw < 0) or np.any(raw >= 1):
                STATS["corner_across_boundary"] += 1
            i = find_vertex(T.vertices.positions, raw % 1, used)
            used.add(i)
            corner[(v, e, end)] = i
            unwrapped[i] = raw
    assert len(used) == T.n_vertices, tag

    # degrees
    new_deg = np.bincount(T.edges.indices.ravel(), minlength=T.n_vertices)
    for v, i in image.items():
        assert new_deg[i] == deg[v], tag
    for i in corner.values():
        assert new_deg[i] == 3, tag
    assert np.array_equal(new_deg, T.vertices.coordination_numbers), tag

    # the original edges keep their indices, endpoints and direction
    for e in range(nE):
        a, b = (int(x) for x in lattice.edges.indices[e])
        want_a = corner[(a, e, 0)] if a in truncated else image[a]
        want_b = corner[(b, e, 1)] if b in truncated else image[b]
        assert tuple(int(x) for x in T.edges.indices[e]) == (want_a, want_b), (tag, e)
        shrink = 1 - ((a in truncated) + (b in truncated)) / 3
        assert np.allclose(T.edges.vectors[e], shrink * lattice.edges.vectors[e], atol=TOL, rtol=0), (tag, e)

    # the added edges: one d-cycle through the corners of every truncated vertex
    owner = {i: key[0] for key, i in corner.items()}
    cycles = {v: [] for v in truncated}
    for e in range(nE, T.n_edges):
        i, j = (int(x) for x in T.edges.indices[e])
        assert i in owner and j in owner and owner[i] == owner[j] and i != j, (tag, e)
        assert np.allclose(T.edges.vectors[e], unwrapped[j] - unwrapped[i], atol=TOL, rtol=0), (tag, e)
        cycles[owner[i]].append((i, j))
    for v in truncated:
        ring = cycles[v]
        d = deg[v]
        assert len(ring) == d, tag
        nbrs = {}
        for i, j in ring:
            nbrs.setdefault(i, []).append(j)
            nbrs.setdefault(j, []).append(i)
        assert len(nbrs) == d and all(len(set(n)) == 2 for n in nbrs.values()), tag
        start = ring[0][0]
        prev, cur, steps = None, start, 0
        while True:          # walk round: must close after exactly d steps
            nxt = [n for n in nbrs[cur] if n != prev][0]
            prev, cur, steps = cur, nxt, steps + 1
            if cur == start:
                break
            assert steps <= d, tag
        assert steps == d, tag

    # plaquettes: every old one, enlarged; every new polygon; nothing else
    old_by_edges = {frozenset(int(x) for x in p.edges): p for p in lattice.plaquettes}
    polygons = {frozenset(i for key, i in corner.items() if key[0] == v): v for v in truncated}
    seen_old, seen_poly = set(), set()
    for p in T.plaquettes:
        original_edges = frozenset(int(x) for x in p.edges if x < nE)
        verts = frozenset(int(x) for x in p.vertices)
        if not original_edges:
            assert verts in polygons, tag
            v = polygons[verts]
            assert p.n_sides == deg[v] and v not in seen_poly, tag
            assert all(x >= nE for x in p.edges), tag
            seen_poly.add(v)
        else:
            assert original_edges in old_by_edges, tag
            q = old_by_edges[original_edges]
            extra = sum(1 for x in q.vertices if int(x) in truncated)
            assert p.n_sides == q.n_sides + extra, tag
            assert original_edges not in seen_old, tag
            seen_old.add(original_edges)
    assert len(seen_old) == lattice.n_plaquettes and len(seen_poly) == len(truncated), tag
    assert T.n_plaquettes == lattice.n_plaquettes + len(truncated), tag
    STATS["truncations"] += 1
    STATS["truncated_vertices"] += len(truncated)
    return T


def selections(lattice, rng):
    nv = lattice.n_vertices
    perm = rng.permutation(nv)
    yield "all(None)", None
    yield "all(arange)", np.arange(nv)
    yield "single(int)", int(perm[0])
    yield "single(np.int64)", np.int64(perm[1])
    yield "subset(array)", np.sort(perm[: max(1, nv // 3)])
    yield "subset(unsorted list)", [int(x) for x in perm[: max(1, nv // 2)]]
    yield "subset(tuple)", tuple(int(x) for x in perm[:3])
    yield "subset(range)", range(0, nv, 3)
    yield "empty", []


def main():
    rng = np.random.default_rng(1313)
    lattices = []
    for n in (9, 16, 30):
        lat = generate_lattice(rng.uniform(size=(n, 2)))
        lattices += [(f"voronoi{n}", lat), (f"voronoi{n}_cut_xy", cut_boundaries(lat, [True, True])),
                     (f"voronoi{n}_cut_y", cut_boundaries(lat, [False, True]))]
    lat = eg.honeycomb_lattice(3)
    lattices += [("honeycomb3", lat), ("honeycomb3_cut", cut_boundaries(lat, [True, True]))]
    lat = eg.square_lattice(4, 5)
    lattices += [("square4x5", lat), ("square4x5_cut_x", cut_boundaries(lat, [True, False]))]
    lattices += [("hex_square_oct2", eg.hex_square_oct_lattice(2))]

    for name, lat in lattices:
        for label, sel in selections(lat, rng):
            T = check_truncation(lat, sel, f"{name}/{label}")
            if label in ("all(None)", "subset(array)", "single(int)"):
                # truncation followed by truncation (of everything, and of a random subset)
                check_truncation(T, None, f"{name}/{label}/again-all")
                sub = rng.permutation(T.n_vertices)[: T.n_vertices // 4]
                check_truncation(T, sub, f"{name}/{label}/again-subset")

    assert STATS["corner_across_boundary"] >= 20, STATS
    assert STATS["truncations"] >= 150, STATS
    print(dict(STATS))
    print("OK")
    return 0


if __name__ == "__main__":
    sys.exit(main())
