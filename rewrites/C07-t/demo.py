"""Demo for property C07 (Majorana Hamiltonian = sum of bond terms, covariance, fermionic form).

Standalone: run with PYTHONPATH=<tree>/src.  Exits 0 and prints OK if every clause holds.
"""
import sys
import numpy as np

from koala.lattice import Lattice, permute_vertices, cut_boundaries
from koala.example_graphs import honeycomb_lattice
from koala.voronization import generate_lattice
from koala.graph_color import color_lattice
from koala.hamiltonian import (majorana_hamiltonian, majorana_to_fermion_ham,
                               bisect_lattice)

TOL = 1e-10
rng = np.random.default_rng(7)


def check(cond, msg):
    if not cond:
        print("FAIL:", msg)
        sys.exit(1)


def reference(lattice, coloring, u, J):
    """sum over edges of the bond term: +(i/2) J u at [k,j], -(i/2) J u at [j,k]"""
    n = lattice.n_vertices
    H = np.zeros((n, n), dtype=complex)
    for e, (j, k) in enumerate(lattice.edges.indices):
        Je = J[coloring[e]] if coloring is not None else J[0]
        H[k, j] += 0.5j * Je * u[e]
        H[j, k] -= 0.5j * Je * u[e]
    return H


def spectrum(H):
    check(np.allclose(H, H.conj().T, atol=TOL), "matrix passed to eigvalsh is not Hermitian")
    return np.linalg.eigvalsh(H)


def has_self_loops(lattice):
    return bool(np.any(lattice.edges.indices[:, 0] == lattice.edges.indices[:, 1]))


def lattices():
    out = []
    for n in (1, 2, 3):  # n=1 is the 4-site multigraph cell
        lat, col = honeycomb_lattice(n, return_coloring=True)
        out.append((f"honeycomb{n}", lat, np.asarray(col)))
    lat, col = honeycomb_lattice(3, return_coloring=True)
    keep = np.all(lat.edges.crossing == 0, axis=1)
    out.append(("honeycomb3-open", cut_boundaries(lat), np.asarray(col)[keep]))
    made = 0
    while made < 5:
        k = int(rng.integers(2, 12))
        lat = generate_lattice(rng.uniform(size=(k, 2)))
        if has_self_loops(lat):
            continue
        try:
            col = color_lattice(lat)
        except ValueError:
            continue
        out.append((f"voronoi{k}", lat, col))
        made += 1
    return out


def check_majorana(name, lat, col, u, J):
    H = majorana_hamiltonian(lat, col, u, J)
    n = lat.n_vertices
    check(H.shape == (n, n), f"{name}: shape")
    check(np.iscomplexobj(H) and H.dtype == np.complex128, f"{name}: dtype {H.dtype}")
    check(np.allclose(H, reference(lat, col, u, J), atol=1e-13, rtol=1e-13),
          f"{name}: not the sum of bond terms")
    check(np.all(H.real == 0), f"{name}: not purely imaginary")
    check(np.allclose(H, H.conj().T, atol=1e-14), f"{name}: not Hermitian")
    check(np.allclose(H, -H.T, atol=1e-14), f"{name}: not antisymmetric")
    ev = spectrum(H)
    check(np.allclose(ev, -ev[::-1], atol=TOL), f"{name}: spectrum not symmetric")
    return H, ev


def check_fermion(name, H, ev):
    n = H.shape[0]
    if n % 2:
        return
    Hf = majorana_to_fermion_ham(H)
    s = n // 2
    check(Hf.shape == (n, n) and Hf.dtype == np.complex128, f"{name}: fermion shape/dtype")
    check(np.allclose(Hf, Hf.conj().T, atol=1e-13), f"{name}: fermion form not Hermitian")
    h, d = Hf[:s, :s], Hf[:s, s:]
    check(np.allclose(Hf[s:, :s], d.conj().T, atol=1e-13), f"{name}: BdG lower-left != d^dagger")
    check(np.allclose(Hf[s:, s:], -h.T, atol=1e-13), f"{name}: BdG lower-right != -h^T")
    check(np.allclose(d, -d.T, atol=1e-13), f"{name}: pairing block not antisymmetric")
    check(np.allclose(np.linalg.eigvalsh(Hf), 2 * ev, atol=TOL), f"{name}: fermion spectrum != 2 x majorana")


def main():
    for name, lat, col in lattices():
        n, E = lat.n_vertices, lat.n_edges
        for trial in range(3):
            u = rng.choice([-1, 1], size=E)
            if trial == 1:
                u = u.astype(np.int8)
            J = rng.uniform(0.2, 2.0, size=3)
            for coloring in (col, None):
                tag = f"{name}/t{trial}/{'col' if coloring is not None else 'nocol'}"
                H, ev = check_majorana(tag, lat, coloring, u, J)
                check_fermion(tag, H, ev)

                # gauge moves at every vertex
                for v in range(n):
                    touch = np.any(lat.edges.indices == v, axis=1)
                    u2 = np.where(touch, -u, u)
                    _, ev2 = check_majorana(tag + f"/gauge{v}", lat, coloring, u2, J)
                    check(np.allclose(ev, ev2, atol=TOL), f"{tag}: gauge move at {v} changed spectrum")

                # random relabelling
                perm = rng.permutation(n)
                lp = permute_vertices(lat, perm)
                check(np.allclose(lp.vertices.positions[lp.edges.indices],
                                  lat.vertices.positions[lat.edges.indices]),
                      f"{tag}: permute_vertices changed edge order/orientation")
                check(np.array_equal(lp.edges.crossing, lat.edges.crossing), f"{tag}: crossing changed")
                Hp, evp = check_majorana(tag + "/perm", lp, coloring, u, J)
                check(np.allclose(ev, evp, atol=TOL), f"{tag}: permutation changed spectrum")
                check(np.allclose(Hp, H[np.ix_(perm, perm)], atol=1e-13), f"{tag}: H not covariant")

                # bisection along each colour
                for along in range(3):
                    lb = bisect_lattice(lat, col, along)
                    check(isinstance(lb, Lattice), "bisect_lattice must return a Lattice")
                    check(lb.n_vertices == n and lb.n_edges == E, f"{tag}: bisect sizes")
                    check(np.allclose(np.sort(lb.vertices.positions, axis=0),
                                      np.sort(lat.vertices.positions, axis=0)),
                          f"{tag}: bisect is not a relabelling")
                    check(np.allclose(lb.vertices.positions[lb.edges.indices],
                                      lat.vertices.positions[lat.edges.indices]),
                          f"{tag}: bisect changed edge order/orientation")
                    check(np.array_equal(lb.edges.crossing, lat.edges.crossing), f"{tag}: bisect crossing")
                    cls = lat.edges.indices[col == along]
                    perfect = (cls.size == n and np.array_equal(np.sort(cls.ravel()), np.arange(n)))
                    if perfect:
                        ends = lb.edges.indices[col == along]
                        half = ends >= n // 2
                        check(np.all(half[:, 0] != half[:, 1]),
                              f"{tag}: colour {along} edge with both ends in same half")
                    Hb, evb = check_majorana(tag + f"/bis{along}", lb, coloring, u, J)
                    check(np.allclose(ev, evb, atol=TOL), f"{tag}: bisection changed spectrum")
                    check_fermion(tag + f"/bis{along}", Hb, evb)
    print("OK")


if __name__ == "__main__":
    main()
