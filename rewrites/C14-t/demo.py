"""Demo for rewrite t (byte/bit unpacking in n_to_ujk_flipped, one-pass products in fluxes_from_ujk).

Checks the clauses of property C14 that concern writing the binary digits of n onto
the tree bonds of a copy and reading off the resulting flux sectors.  Works identically on the unchanged tree and with the
rewrite applied; prints OK and exits 0 on success.
"""
import sys
import numpy as np

from koala.lattice import INVALID, cut_boundaries
from koala.voronization import generate_lattice
from koala.example_graphs import square_lattice, honeycomb_lattice
from koala.graph_utils import plaquette_spanning_tree
from koala.flux_finder import n_to_ujk_flipped, fluxes_from_ujk


def plaquettes_connected(lattice):
    F = lattice.n_plaquettes
    if F == 0:
        return False
    nbrs = [[] for _ in range(F)]
    for a, b in lattice.edges.adjacent_plaquettes:
        if a != INVALID and b != INVALID:
            nbrs[a].append(b)
            nbrs[b].append(a)
    seen, todo = {0}, [0]
    while todo:
        for q in nbrs[todo.pop()]:
            if q not in seen:
                seen.add(q)
                todo.append(q)
    return len(seen) == F


def is_closed(lattice):
    return not np.any(lattice.edges.adjacent_plaquettes == INVALID)


def check_tree(lattice, tree):
    F = lattice.n_plaquettes
    assert isinstance(tree, np.ndarray), type(tree)
    assert tree.ndim == 1 and tree.shape[0] == F - 1, tree.shape
    assert np.issubdtype(tree.dtype, np.integer), tree.dtype
    assert len(set(tree.tolist())) == F - 1, "edges not distinct"
    assert np.all((tree >= 0) & (tree < lattice.n_edges))
    sides = lattice.edges.adjacent_plaquettes[tree]
    assert not np.any(sides == INVALID), "tree edge without plaquette on both sides"
    # F-1 edges + no cycle  <=>  spanning tree of the plaquette graph
    parent = list(range(F))

    def find(x):
        while parent[x] != x:
            parent[x] = parent[parent[x]]
            x = parent[x]
        return x

    for a, b in sides:
        ra, rb = find(int(a)), find(int(b))
        assert ra != rb, "cycle in plaquette tree"
        parent[ra] = rb
    assert len({find(x) for x in range(F)}) == 1, "tree does not connect all plaquettes"


def check_enumeration(lattice, tree, base, ns):
    F = lattice.n_plaquettes
    keep = np.setdiff1d(np.arange(lattice.n_edges), tree)
    seen = set()
    parity = (-1) ** lattice.n_edges
    closed = is_closed(lattice)
    for n in ns:
        before = base.copy()
        tree_before = tree.copy()
        out = n_to_ujk_flipped(n, base, tree)
        assert np.array_equal(base, before) and base.dtype == before.dtype, "input modified"
        assert np.array_equal(tree, tree_before), "tree modified"
        assert out is not base and not np.shares_memory(out, base)
        assert out.dtype == np.int8 and out.shape == base.shape
        assert np.array_equal(out[keep], base[keep]), "non-tree bond touched"
        assert set(np.unique(out[tree]).tolist()) <= {-1, 1}
        # tree bonds carry the binary digits of n (zero padded to the tree size)
        digits = [int(c) for c in bin(int(n))[2:].zfill(len(tree))] if len(tree) else []
        assert np.array_equal(out[tree], 1 - 2 * np.array(digits, dtype=int))
        fl = fluxes_from_ujk(lattice, out)
        assert fl.dtype == np.zeros(1, dtype=int).dtype
        # the flux through a plaquette is the product of -u*direction around it
        direct = [int(np.prod([-int(out[e]) * int(d) for e, d in zip(p.edges, p.directions)]))
                  for p in lattice.plaquettes]
        assert fl.tolist() == direct
        if int(n) % 97 == 0:
            flc = fluxes_from_ujk(lattice, out, real=False)
            assert flc.dtype == np.zeros(1, dtype=complex).dtype
            assert np.array_equal(flc, np.array(direct) * np.array([1j ** len(p.edges) for p in lattice.plaquettes]))
        assert fl.shape == (F,) and set(np.unique(fl).tolist()) <= {-1, 1}
        if closed:
            assert np.prod(fl) == parity, "sector violates global parity"
        seen.add(tuple(fl.tolist()))
    return seen


def lattices(rng):
    # periodic voronoi, 9..14 seeds: exhaustive
    for k in range(9, 15):
        yield "voronoi%d" % k, generate_lattice(rng.uniform(size=(k, 2))), True
    # regular tilings (lots of equal-length dual edges -> ties in the ordering)
    yield "square3x3", square_lattice(3, 3), True
    yield "square3x4", square_lattice(3, 4), True
    yield "honeycomb3", honeycomb_lattice(3), True
    # larger ones: tree property and random n only
    yield "voronoi60", generate_lattice(rng.uniform(size=(60, 2))), False
    yield "voronoi200", generate_lattice(rng.uniform(size=(200, 2))), False
    yield "square10x10", square_lattice(10, 10), False
    # open and strip cuts whose plaquette graph stays connected
    made = 0
    while made < 4:
        k = int(rng.integers(16, 40))
        lat = generate_lattice(rng.uniform(size=(k, 2)))
        cut = [(True, True), (True, False), (False, True), (True, True)][made]
        lat = cut_boundaries(lat, cut)
        if lat.n_plaquettes >= 2 and plaquettes_connected(lat):
            made += 1
            yield "cut%s_%d" % (cut, k), lat, lat.n_plaquettes <= 12
    yield "square5x5_open", cut_boundaries(square_lattice(5, 5)), False
    yield "square4x4_strip", cut_boundaries(square_lattice(4, 4), (True, False)), True


def main():
    rng = np.random.default_rng(140016)
    count = 0
    for name, lat, exhaustive in lattices(rng):
        F = lat.n_plaquettes
        assert plaquettes_connected(lat), name
        for shortest in (True, False):
            tree = plaquette_spanning_tree(lat, shortest_edges_only=shortest)
            check_tree(lat, tree)
            # calling twice gives a valid tree again (no hidden state)
            check_tree(lat, plaquette_spanning_tree(lat, shortest))
            for base in (np.ones(lat.n_edges, dtype=np.int8),
                         (1 - 2 * rng.integers(0, 2, size=lat.n_edges)).astype(np.int8),
                         1 - 2 * rng.integers(0, 2, size=lat.n_edges)):
                if exhaustive and F <= 14:
                    ns = range(2 ** (F - 1))
                    seen = check_enumeration(lat, tree, base, ns)
                    assert len(seen) == 2 ** (F - 1), (name, len(seen))
                else:
                    ns = sorted({int(rng.integers(0, 2 ** 62)) % 2 ** (F - 1) for _ in range(5)}
                                | {2 ** (F - 2), 1}
                                | {0, 2 ** (F - 1) - 1,
                                   int.from_bytes(rng.bytes(32), "big") % 2 ** (F - 1)})
                    seen = check_enumeration(lat, tree, base, ns)
                    assert len(seen) == len(ns), (name, "sectors collide")
                count += 1
    print("checked", count, "lattice/flag/base combinations")
    print("OK")
    return 0


if __name__ == "__main__":
    sys.exit(main())
