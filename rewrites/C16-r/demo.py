"""C16 demo (edges clause): every selected edge is drawn in full, once, in the colour of its label.

Checks, for several lattices x subset forms x label forms x colour schemes x arrows:
  * the multiset of drawn segments, mapped back to (edge, integer shift), contains no repeats,
  * every drawn segment is a lattice translate of the unwrapped edge,
  * per colour, the total drawn length inside the unit cell equals the total length of the edges of that colour,
  * per EDGE, the drawn length inside the cell equals the edge length,
  * every drawn piece has the colour scheme[label[edge]],
  * labels given per element or per subset element give the same picture (as a set),
  * with directions, exactly one arrow per drawn segment.
Order of segments inside the LineCollection is deliberately NOT looked at.
"""
import os
os.environ.setdefault("MPLBACKEND", "Agg")
import sys
import numpy as np
import matplotlib
matplotlib.use("Agg")
from matplotlib import pyplot as plt
from matplotlib.colors import to_rgba
from matplotlib.collections import LineCollection
from matplotlib.patches import FancyArrow

from koala import plotting, example_graphs as eg
from koala.graph_utils import remove_vertices


def clip_len(p, q):
    """length of segment pq inside the closed unit square (Liang-Barsky)."""
    d = q - p
    t0, t1 = 0.0, 1.0
    for a in range(2):
        for bound, sgn in ((0.0, -1.0), (1.0, 1.0)):
            # sgn*(x - bound) <= 0
            num = sgn * (bound - p[a])
            den = sgn * d[a]
            if den == 0:
                if num < 0:
                    return 0.0
            else:
                t = num / den
                if den > 0:
                    t1 = min(t1, t)
                else:
                    t0 = max(t0, t)
    if t1 <= t0:
        return 0.0
    return (t1 - t0) * np.hypot(*d)


def unwrapped(lattice):
    ev = lattice.vertices.positions[lattice.edges.indices].astype(float)
    ev[:, 0, :] -= lattice.edges.crossing
    return ev


def picture(lattice, idx, **kw):
    """Return a sorted list of (edge, shiftx, shifty, rgba, clipped length) for one call."""
    fig, ax = plt.subplots()
    try:
        out = plotting.plot_edges(lattice, ax=ax, **kw)
        assert out is ax
        lcs = [c for c in ax.collections if isinstance(c, LineCollection)]
        assert len(lcs) == 1
        segs = lcs[0].get_segments()
        cols = lcs[0].get_colors()
        if len(segs) == 0:
            return [], 0
        assert len(cols) == len(segs), (len(cols), len(segs))
        ev = unwrapped(lattice)
        res = []
        for seg, col in zip(segs, cols):
            seg = np.asarray(seg)
            assert seg.shape == (2, 2)
            # identify which selected edge it is a translate of
            found = None
            for e in set(idx.tolist()):
                sh = seg - ev[e]
                r = np.round(sh[0])
                if np.allclose(sh, r[None, :], atol=1e-9):
                    assert found is None or found[0] == e or not np.allclose(ev[e], ev[found[0]])
                    if found is None:
                        found = (e, int(r[0]), int(r[1]))
            assert found is not None, "drawn segment is not a translate of a selected edge"
            res.append((found[0], found[1], found[2], tuple(np.round(col, 6)), clip_len(seg[0], seg[1])))
        n_arrows = sum(isinstance(p, FancyArrow) for p in ax.patches)
        return res, n_arrows
    finally:
        plt.close(fig)


def check(lattice, subset, labels_full, scheme, directions=None):
    N = lattice.n_edges
    idx = np.arange(N)[subset]
    lengths = np.linalg.norm(np.diff(unwrapped(lattice), axis=1)[:, 0, :], axis=-1)
    scheme_rgba = [tuple(np.round(to_rgba(c), 6)) for c in ([scheme] if isinstance(scheme, str) else scheme)]

    kw = dict(subset=subset, color_scheme=scheme)
    if directions is not None:
        kw["directions"] = directions
    pics = []
    # labels per element, per subset element
    for labels in (labels_full, np.asarray(labels_full)[idx] if np.ndim(labels_full) else labels_full):
        if np.ndim(labels) and len(labels) not in (N, len(idx)):
            continue
        res, n_arrows = picture(lattice, idx, labels=labels, **kw)
        pics.append(sorted(res))
        lab_of = (lambda e: labels_full[e]) if np.ndim(labels_full) else (lambda e: labels_full)
        # once: multiplicity of (edge, shift) equals multiplicity of edge in the index list
        mult = {}
        for r in res:
            mult[r[:3]] = mult.get(r[:3], 0) + 1
        want_mult = {e: int(np.sum(idx == e)) for e in set(idx.tolist())}
        for (e, sx, sy), m in mult.items():
            assert m == want_mult[e], ("image drawn more than once", e, sx, sy, m)
        # colour of every piece
        for e, sx, sy, col, L in res:
            assert col == scheme_rgba[lab_of(e)], ("wrong colour", e, col)
        # completeness per edge
        for e in set(idx.tolist()):
            drawn = sum(r[4] for r in res if r[0] == e) / want_mult[e]
            assert abs(drawn - lengths[e]) < 1e-9, ("edge not drawn in full", e, drawn, lengths[e])
        # per colour total
        for k, c in enumerate(scheme_rgba):
            drawn = sum(r[4] for r in res if r[3] == c)
            want = sum(lengths[e] * 1 for e in idx.tolist() if scheme_rgba[lab_of(e)] == c)
            assert abs(drawn - want) < 1e-8, ("colour total", c, drawn, want)
        if directions is not None:
            assert n_arrows == len(res), (n_arrows, len(res))
        else:
            assert n_arrows == 0
    for p in pics[1:]:
        assert len(p) == len(pics[0])
        for a, b in zip(p, pics[0]):
            assert a[:4] == b[:4] and abs(a[4] - b[4]) < 1e-12


def main():
    rng = np.random.default_rng(16)
    lattices = {
        "honeycomb": eg.honeycomb_lattice(3),
        "amorphous": eg.make_amorphous(5, rng=np.random.default_rng(3))[0] if _amorphous_takes_rng() else eg.make_amorphous(5)[0],
        "hex_square_oct": eg.hex_square_oct_lattice(2),
        "square": eg.square_lattice(3, 4),
        "tri_square_pent(open)": eg.tri_square_pent(),
        "star_sheared": eg.star_lattice_sheared()[0],
    }
    n_checks = 0
    for name, lat in lattices.items():
        N = lat.n_edges
        mask = rng.integers(2, size=N).astype(bool)
        mask[0] = True
        subsets = [slice(None), slice(1, N, 2), mask, list(rng.permutation(N)[:max(1, N // 3)])]
        for subset in subsets:
            for scheme, nlab in ((plotting.colourblind_friendly_scheme, 3), (["green", "black"], 2), ("purple", 1)):
                labels_full = rng.integers(nlab, size=N)
                check(lat, subset, labels_full, scheme)
                n_checks += 1
            check(lat, subset, 0, plotting.colourblind_friendly_scheme)
            check(lat, subset, 2, plotting.colourblind_friendly_scheme)
            n_checks += 2
        # arrows
        check(lat, subsets[1], rng.integers(3, size=N), plotting.colourblind_friendly_scheme, directions=1)
        check(lat, subsets[3], rng.integers(3, size=N), plotting.colourblind_friendly_scheme,
              directions=rng.choice([1, -1], size=N))
        n_checks += 2
    # empty subset draws nothing and does not fail
    res, n_arrows = picture(lattices["honeycomb"], np.arange(0), subset=np.zeros(0, dtype=int), labels=0)
    assert res == [] and n_arrows == 0
    print(f"{n_checks} configurations checked")
    print("OK")


def _amorphous_takes_rng():
    import inspect
    return "rng" in inspect.signature(eg.make_amorphous).parameters


if __name__ == "__main__":
    main()
    sys.exit(0)
