"""C05 demo: plaquette fluxes are the oriented gauge-invariant product of bond variables.

Standalone checker. It never compares against a stored reference output and makes no
assumption about the order of lattice.plaquettes, about which boundary edge a plaquette's
cycle starts at, about signed zeros or about internal dtypes.  It recomputes everything
from the boundary walk stored in each Plaquette and checks, for a handful of lattices
(periodic, open, regular, amorphous, with bridges, with high coordination number):

  (a) each plaquette boundary is a closed, anticlockwise walk and p.directions says
      whether each edge is traversed along (+1) or against (-1) its stored orientation;
  (b) fluxes_from_ujk(real=True)[i] == prod_k -(u[e_k] * direction_k);
  (c) fluxes_from_ujk(real=False)[i] == real flux * i**n_sides;
  (d) fluxes_to_labels maps +1 -> 0 and -1 -> 1;
  (e) gauge invariance under every single-vertex move;
  (f) a single bond flip flips exactly the fluxes of the plaquettes containing that edge;
  (g) closed periodic lattice: prod(fluxes) == (-1)**n_edges;
  (h) public result shapes / dtypes.

Rewrite t changes WHICH boundary edge each plaquette's cycle starts from (lowest-indexed vertex first), so the
clauses that depend on the stored boundary walk are the ones at stake: (a), (b), (c), (f), (g).  Nothing below
depends on where a cycle starts or on the order of lattice.plaquettes.

Run:  PYTHONPATH=/tmp/rw-C05/src /venv/bin/python out/t/demo.py     (prints OK, exits 0)
"""
import itertools
import sys

import numpy as np

from koala import example_graphs as eg
from koala import pointsets, voronization
from koala.flux_finder import fluxes_from_ujk, fluxes_to_labels
from koala.lattice import INVALID, Lattice, cut_boundaries

I_POW = [1 + 0j, 1j, -1 + 0j, -1j]


def check(cond, msg):
    if not cond:
        print("FAIL:", msg)
        sys.exit(1)


def boundary_walks(lattice: Lattice, name: str):
    """Clause (a).  Returns for every plaquette the list of (edge, sign) pairs, sign=+1 if
    the edge is traversed along its stored orientation when going round anticlockwise."""
    idx = lattice.edges.indices
    walks = []
    for n, p in enumerate(lattice.plaquettes):
        k = len(p.edges)
        check(k == p.n_sides == len(p.directions) == len(p.vertices),
              f"{name}: plaquette {n} has inconsistent lengths")
        walk = []
        for j in range(k):
            e = int(p.edges[j])
            a, b = int(idx[e, 0]), int(idx[e, 1])
            tail, head = int(p.vertices[j]), int(p.vertices[(j + 1) % k])
            check(a != b, f"{name}: self loop (outside the property's input space)")
            if (a, b) == (tail, head):
                sign = +1
            elif (b, a) == (tail, head):
                sign = -1
            else:
                check(False, f"{name}: plaquette {n} boundary is not a closed walk")
            check(sign == int(p.directions[j]),
                  f"{name}: plaquette {n} direction {j} disagrees with the walk")
            walk.append((e, int(p.directions[j])))
        # anticlockwise <=> positive signed area of the unwrapped polygon
        vec = lattice.edges.vectors[p.edges] * p.directions[:, None]
        check(np.allclose(vec.sum(axis=0), 0, atol=1e-9),
              f"{name}: plaquette {n} does not close geometrically")
        pts = np.cumsum(vec, axis=0)
        area = 0.5 * np.sum(pts[:, 0] * np.roll(pts[:, 1], -1) -
                            np.roll(pts[:, 0], -1) * pts[:, 1])
        check(area > 0, f"{name}: plaquette {n} is not anticlockwise")
        walks.append(walk)
    return walks


def reference_fluxes(walks, u):
    real = []
    for walk in walks:
        f = 1
        for e, sign in walk:
            f *= -(int(u[e]) * sign)
        real.append(f)
    cplx = [f * I_POW[len(w) % 4] for f, w in zip(real, walks)]
    return np.array(real, dtype=int), np.array(cplx, dtype=complex)


def check_formula(lattice, walks, u, name):
    ref_real, ref_cplx = reference_fluxes(walks, u)
    got_real = fluxes_from_ujk(lattice, u)
    got_cplx = fluxes_from_ujk(lattice, u, real=False)
    # (h)
    check(isinstance(got_real, np.ndarray) and isinstance(got_cplx, np.ndarray), f"{name}: type")
    check(got_real.shape == (lattice.n_plaquettes,), f"{name}: real shape")
    check(got_cplx.shape == (lattice.n_plaquettes,), f"{name}: complex shape")
    check(got_real.dtype == np.dtype('int'), f"{name}: real dtype {got_real.dtype}")
    check(got_cplx.dtype == np.dtype('complex'), f"{name}: complex dtype {got_cplx.dtype}")
    # (b), (c)
    check(np.array_equal(got_real, ref_real), f"{name}: real flux != oriented product")
    check(np.array_equal(got_cplx, ref_cplx), f"{name}: complex flux != real * i^n")
    check(set(np.unique(got_real)) <= {-1, 1}, f"{name}: real flux not +-1")
    # (d)
    labels = fluxes_to_labels(got_real)
    check(labels.dtype == np.int8 and labels.shape == got_real.shape, f"{name}: label dtype/shape")
    check(np.array_equal(labels, np.where(ref_real == 1, 0, 1)), f"{name}: labels")
    return got_real, got_cplx


def check_lattice(lattice: Lattice, name: str, rng, n_random=4, max_moves=40):
    check(lattice.n_plaquettes >= 1, f"{name}: no plaquettes")
    walks = boundary_walks(lattice, name)
    E, V = lattice.n_edges, lattice.n_vertices
    adj = lattice.edges.adjacent_plaquettes
    members = [set() for _ in range(E)]
    for n, w in enumerate(walks):
        for e, _ in w:
            members[e].add(n)
    for e in range(E):
        check(members[e] == set(int(x) for x in adj[e] if x != INVALID),
              f"{name}: edges.adjacent_plaquettes[{e}] inconsistent with plaquette boundaries")
    closed = not np.any(adj == INVALID)

    samples = [np.ones(E, dtype=int), -np.ones(E, dtype=np.int8)]
    samples += [(1 - 2 * rng.integers(0, 2, size=E)).astype(dt)
                for dt in [np.int8, np.int64, float][:n_random]]
    samples += [1 - 2 * rng.integers(0, 2, size=E) for _ in range(max(0, n_random - 3))]

    for u in samples:
        f_real, f_cplx = check_formula(lattice, walks, u, name)
        if closed:  # (g)
            check(int(np.prod(f_real)) == (-1) ** E, f"{name}: global flux product")

        # (e) gauge moves
        verts = range(V) if V <= max_moves else rng.choice(V, size=max_moves, replace=False)
        for v in verts:
            ug = u.copy()
            touching = np.nonzero((lattice.edges.indices[:, 0] == v) ^
                                  (lattice.edges.indices[:, 1] == v))[0]
            ug[touching] *= -1
            check(np.array_equal(fluxes_from_ujk(lattice, ug), f_real), f"{name}: gauge move at {v} (real)")
            check(np.array_equal(fluxes_from_ujk(lattice, ug, real=False), f_cplx),
                  f"{name}: gauge move at {v} (complex)")

        # (f) single bond flips
        edges = range(E) if E <= max_moves else rng.choice(E, size=max_moves, replace=False)
        for e in edges:
            uf = u.copy()
            uf[e] *= -1
            expect = f_real.copy()
            expect[list(members[e])] *= -1
            check(np.array_equal(fluxes_from_ujk(lattice, uf), expect), f"{name}: bond flip {e} (real)")
            expect_c = f_cplx.copy()
            expect_c[list(members[e])] *= -1
            check(np.array_equal(fluxes_from_ujk(lattice, uf, real=False), expect_c),
                  f"{name}: bond flip {e} (complex)")

    # input must not be modified
    u = samples[-1]
    before = u.copy()
    fluxes_from_ujk(lattice, u)
    fluxes_from_ujk(lattice, u, real=False)
    check(np.array_equal(u, before), f"{name}: ujk was modified")

    # exhaustive over all bond configurations for tiny lattices
    if E <= 12:
        for bits in itertools.product([1, -1], repeat=E):
            u = np.array(bits, dtype=np.int8)
            f_real, _ = check_formula(lattice, walks, u, name + " (exhaustive)")
            if closed:
                check(int(np.prod(f_real)) == (-1) ** E, f"{name}: global flux product (exhaustive)")
    return closed


def main():
    rng = np.random.default_rng(20505)
    pts = pointsets.uniform(25, rng=np.random.default_rng(7))
    amorphous = voronization.generate_lattice(pts)
    honey = eg.honeycomb_lattice(4)
    lattices = {
        "two_triangles": eg.two_triangles(),
        "tri_square_pent": eg.tri_square_pent(),
        "single_plaquette(3)": eg.single_plaquette(3),
        "single_plaquette(5)": eg.single_plaquette(5),
        "single_plaquette(8)": eg.single_plaquette(8),
        "bridge_graph": eg.bridge_graph(),
        "concave_plaquette": eg.concave_plaquette(),
        "n_ladder(6,wobble)": eg.n_ladder(6, True),
        "higher_coordination(5)": eg.higher_coordination_number_example(5),
        "tutte": eg.tutte_graph(),
        "honeycomb(4) periodic": honey,
        "honeycomb(4) cut x": cut_boundaries(honey, [True, False]),
        "honeycomb(4) open": cut_boundaries(honey),
        "square(3,4) periodic": eg.square_lattice(3, 4),
        "square(3,3) periodic": eg.square_lattice(3, 3),
        "hex_square_oct(2)": eg.hex_square_oct_lattice(2),
        "tri_non_lattice(3)": eg.tri_non_lattice(3),
        "amorphous periodic": amorphous,
        "amorphous cut y": cut_boundaries(amorphous, [False, True]),
        "amorphous open": cut_boundaries(amorphous),
    }
    n_closed = 0
    for name, lattice in lattices.items():
        n_closed += bool(check_lattice(lattice, name, rng))
    check(n_closed >= 3, "expected at least three closed periodic lattices in the sample")
    print("OK")


if __name__ == "__main__":
    main()
