"""C02 demo for rewrite s: the tables filled in by Lattice.plaquettes.

Checks from the definition (brute force over the plaquette list) that
  * edges.adjacent_plaquettes[e] = (plaquette traversing e forwards,
    plaquette traversing e backwards), INVALID where there is none
  * vertices.adjacent_plaquettes[v] holds exactly the plaquettes containing v
    (each once, INVALID in the unused slots, one column per unit of the
    largest coordination number)
  * Plaquette.adjacent_plaquettes lists the plaquettes across its edges, in
    edge order
  * graph_utils.adjacent_plaquettes agrees with the tables
  * all 24 orders of first access to plaquettes / n_plaquettes /
    edges.adjacent_plaquettes / vertices.adjacent_plaquettes give the same
    values, on fresh and on unpickled lattices
Run:  PYTHONPATH=/tmp/rw-C02/src /venv/bin/python out/s/demo.py
"""
import itertools
import pickle
import sys
import warnings

import numpy as np

from koala import example_graphs as eg
from koala import graph_utils
from koala.graph_utils import remove_vertices
from koala.lattice import INVALID, Lattice, cut_boundaries
from koala.voronization import generate_lattice


def raw(l):
    return (l.vertices.positions.copy(), l.edges.indices.copy(),
            l.edges.crossing.copy())


def inputs():
    rng = np.random.default_rng(11)
    out = []
    hc = eg.honeycomb_lattice(3)
    out += [("honeycomb", raw(hc)),
            ("honeycomb strip", raw(cut_boundaries(hc, [False, True]))),
            ("honeycomb open + dangling", raw(cut_boundaries(hc)))]
    vor = generate_lattice(rng.random((16, 2)))
    out += [("voronoi", raw(vor)),
            ("voronoi open", raw(cut_boundaries(vor))),
            ("voronoi holes", raw(remove_vertices(vor, np.array([2, 3]))))]
    # reversed edges must swap the two columns of the edge table
    v, e, c = raw(vor)
    flip = rng.random(len(e)) < 0.5
    e[flip] = e[flip][:, ::-1]
    c[flip] = -c[flip]
    out.append(("voronoi, some edges reversed", (v, e, c)))
    v, e, c = raw(cut_boundaries(vor))
    out.append(("isolated, highest index",
                (np.concatenate([v, [[.5, .5], [.02, .97]]]), e, c)))
    # hub of coordination 12, rim, a dangling edge, an isolated last vertex
    n = 12
    a = 2 * np.pi * np.arange(n) / n + 0.1
    pos = np.concatenate([[[.5, .5]],
                          .5 + .3 * np.stack([np.cos(a), np.sin(a)], 1),
                          [[.95, .95]], [[.05, .9]]])
    e = np.array([(0, i + 1) if i % 2 else (i + 1, 0) for i in range(n)] +
                 [(1 + i, 1 + (i + 1) % n) for i in range(n)] + [(3, n + 1)])
    out.append(("wheel12", (pos, e, np.zeros_like(e))))
    # a square with a triangle hanging inside from one corner: the face
    # between them passes through that corner twice
    pos = np.array([[.1, .1], [.9, .1], [.9, .9], [.1, .9], [.4, .3], [.3, .4]])
    e = np.array([[0, 1], [1, 2], [2, 3], [3, 0], [0, 4], [4, 5], [5, 0]])
    out.append(("square with ear", (pos, e, np.zeros_like(e))))
    out.append(("tiny torus", (np.array([[.25, .5], [.75, .5]]),
                               np.array([[0, 1], [1, 0], [0, 1]]),
                               np.array([[0, 0], [1, 0], [0, 1]]))))
    out.append(("no edges", (rng.random((3, 2)), np.zeros((0, 2), int),
                             np.zeros((0, 2), int))))
    out.append(("tree", (rng.random((4, 2)), np.array([[0, 1], [1, 2], [1, 3]]),
                         np.zeros((3, 2), int))))
    return out


def check_tables(name, l):
    plaqs = l.plaquettes
    assert l.n_plaquettes == len(plaqs)
    ind = l.edges.indices

    # which plaquette runs along (edge, direction)
    along = {}
    for n, p in enumerate(plaqs):
        assert len(p.edges) == len(p.vertices) == len(p.directions) == p.n_sides
        for e, d in zip(p.edges, p.directions):
            assert (e, d) not in along
            along[(int(e), int(d))] = n

    ep = l.edges.adjacent_plaquettes
    assert ep.shape == (l.n_edges, 2) and ep.dtype == np.dtype(int), name
    for e in range(l.n_edges):
        assert ep[e, 0] == along.get((e, 1), INVALID), (name, e)
        assert ep[e, 1] == along.get((e, -1), INVALID), (name, e)

    vp = l.vertices.adjacent_plaquettes
    width = int(np.max(l.vertices.coordination_numbers, initial=0))
    assert vp.shape == (l.n_vertices, width) and vp.dtype == np.dtype(int), name
    for v in range(l.n_vertices):
        listed = [x for x in vp[v].tolist() if x != INVALID]
        want = {n for n, p in enumerate(plaqs) if v in p.vertices}
        assert len(listed) == len(set(listed)), (name, v, vp[v])
        assert set(listed) == want, (name, v, vp[v], want)

    for n, p in enumerate(plaqs):
        want = [along.get((int(e), -int(d)), INVALID)
                for e, d in zip(p.edges, p.directions)]
        assert p.adjacent_plaquettes.tolist() == want, (name, n)
        assert p.adjacent_plaquettes.dtype == np.dtype(int)
        assert n not in want
        # the query helper
        others, shared = graph_utils.adjacent_plaquettes(l, n)
        keep = [i for i, w in enumerate(want) if w != INVALID]
        assert others.tolist() == [want[i] for i in keep], (name, n)
        assert shared.tolist() == [int(p.edges[i]) for i in keep], (name, n)


ACCESS = {
    "plaquettes": lambda l: l.plaquettes,
    "n_plaquettes": lambda l: l.n_plaquettes,
    "edges.adjacent_plaquettes": lambda l: l.edges.adjacent_plaquettes,
    "vertices.adjacent_plaquettes": lambda l: l.vertices.adjacent_plaquettes,
}


def snapshot(l):
    return (l.n_plaquettes,
            l.edges.adjacent_plaquettes.copy(),
            l.vertices.adjacent_plaquettes.copy(),
            [(p.vertices.copy(), p.edges.copy(), p.directions.copy(),
              p.adjacent_plaquettes.copy()) for p in l.plaquettes])


def equal_snapshots(a, b):
    if a[0] != b[0] or not np.array_equal(a[1], b[1]) or not np.array_equal(a[2], b[2]):
        return False
    return all(np.array_equal(x, y) for p, q in zip(a[3], b[3]) for x, y in zip(p, q))


def check_access_orders(name, data):
    reference = None
    for order in itertools.permutations(ACCESS):
        for unpickled in (False, True):
            l = Lattice(*data)
            if unpickled:
                l = pickle.loads(pickle.dumps(l))
            for key in order:
                ACCESS[key](l)
            snap = snapshot(l)
            if reference is None and not unpickled:
                reference = snap
            if not unpickled:
                assert equal_snapshots(reference, snap), (name, order)
            else:
                # positions are stored as float32 in a pickle: compare with a
                # fresh lattice built from the same rounded data instead
                m = pickle.loads(pickle.dumps(Lattice(*data)))
                assert equal_snapshots(snapshot(m), snap), (name, order)
            check_tables(name + (" (unpickled)" if unpickled else ""), l)


def main():
    # centroids of zero-area faces (trees, dangling edges) divide by zero; not our concern
    warnings.filterwarnings("ignore", category=RuntimeWarning)
    count = 0
    for name, data in inputs():
        check_access_orders(name, data)
        count += 1
    print(f"OK ({count} lattices x 24 access orders x fresh/unpickled)")
    return 0


if __name__ == "__main__":
    sys.exit(main())
