"""C16 demo (argument normalisation + segment intersection helper).

  * vertices: scatter offsets are the positions of the selected vertices, each in the colour scheme[label];
  * edges / plaquettes: every drawn piece has the colour scheme[label[element]] (element recovered geometrically);
  * subset as slice / boolean mask / index list selecting the same elements gives the same picture;
  * labels as scalar, per element, per subset element give the same picture;
  * the 'color' keyword replaces colour 0; the caller's colour scheme list is not modified;
  * a label array of a wrong length is refused with ValueError;
  * plotting.line_intersection agrees with exact rational arithmetic on random segment pairs in general position
    (also full_output: nothing in general position is parallel or colinear), result is a bool array (n1, n2).
Nothing about the order of artists inside a collection is assumed.
"""
import os
os.environ.setdefault("MPLBACKEND", "Agg")
import sys
from fractions import Fraction
import numpy as np
import matplotlib
matplotlib.use("Agg")
from matplotlib import pyplot as plt
from matplotlib.colors import to_rgba
from matplotlib.collections import LineCollection, PolyCollection

from koala import plotting, example_graphs as eg


def rgba(c):
    return tuple(np.round(to_rgba(c), 6))


def unwrapped_edges(lat):
    ev = lat.vertices.positions[lat.edges.indices].astype(float)
    ev[:, 0, :] -= lat.edges.crossing
    return ev


def vertex_picture(lat, **kw):
    fig, ax = plt.subplots()
    try:
        plotting.plot_vertices(lat, ax=ax, **kw)
        sc = ax.collections[0]
        off = np.asarray(sc.get_offsets())
        fc = np.asarray(sc.get_facecolor())
        if len(fc) == 1:
            fc = np.repeat(fc, len(off), axis=0)
        return sorted((tuple(np.round(o, 12)), tuple(np.round(c, 6))) for o, c in zip(off, fc))
    finally:
        plt.close(fig)


def edge_picture(lat, **kw):
    """sorted (edge index, shift, colour)"""
    fig, ax = plt.subplots()
    try:
        plotting.plot_edges(lat, ax=ax, **kw)
        lc = [c for c in ax.collections if isinstance(c, LineCollection)][0]
        ev = unwrapped_edges(lat)
        out = []
        for seg, col in zip(lc.get_segments(), lc.get_colors()):
            sh = np.asarray(seg)[None] - ev
            r = np.round(sh[:, :1, :])
            hit = np.flatnonzero(np.all(np.abs(sh - r) < 1e-9, axis=(1, 2)))
            assert len(hit) >= 1
            e = int(hit[0])
            out.append((e, tuple(r[e, 0].astype(int)), tuple(np.round(col, 6))))
        return sorted(out)
    finally:
        plt.close(fig)


def plaquette_picture(lat, idx, **kw):
    fig, ax = plt.subplots()
    try:
        cols = plotting.plot_plaquettes(lat, ax=ax, **kw)
        assert len(cols) == len(idx)
        out = []
        for c, pi in zip(cols, idx):
            assert isinstance(c, PolyCollection)
            fc = c.get_facecolor()
            assert len(fc) == 1
            n_sides = lat.plaquettes[pi].n_sides
            for path in c.get_paths():
                assert len(path.vertices) in (n_sides, n_sides + 1)
            firsts = sorted(tuple(np.round(p.vertices[0], 9)) for p in c.get_paths())
            out.append((int(pi), tuple(np.round(fc[0], 6)), tuple(firsts)))
        return out
    finally:
        plt.close(fig)


def check_lattice(lat, rng):
    n = 0
    scheme = ["#E7414E", "#5BB03E", "#4B64AC", "black"]
    scheme_before = list(scheme)
    for kind, N in (("v", lat.n_vertices), ("e", lat.n_edges), ("p", lat.n_plaquettes)):
        mask = rng.integers(2, size=N).astype(bool)
        mask[0] = True
        idx = np.flatnonzero(mask)
        # the same selection in three forms + a genuine slice
        selections = [
            [mask, idx, list(idx), [int(i) - N for i in idx]],  # negative indices select the same elements
            [slice(1, N, 2), np.arange(1, N, 2), list(range(1, N, 2)), np.isin(np.arange(N), np.arange(1, N, 2))],
            [slice(None), np.arange(N), np.ones(N, dtype=bool)],
        ]
        labels_full = rng.integers(len(scheme), size=N)
        for forms in selections:
            sel = np.arange(N)[forms[0]]
            pics = []
            for subset in forms:
                for labels in (labels_full, labels_full[sel], list(labels_full), list(labels_full[sel])):
                    kw = dict(subset=subset, labels=labels, color_scheme=scheme)
                    if kind == "v":
                        pic = vertex_picture(lat, **kw)
                        want = sorted((tuple(np.round(lat.vertices.positions[i], 12)), rgba(scheme[labels_full[i]])) for i in sel)
                        assert pic == want, "vertices not at their positions / wrong colour"
                    elif kind == "e":
                        pic = edge_picture(lat, **kw)
                        assert set(e for e, _, _ in pic) == set(sel.tolist()), "not exactly the selected edges drawn"
                        for e, _, col in pic:
                            assert col == rgba(scheme[labels_full[e]]), "edge colour"
                        assert len(set(pic)) == len(pic), "image drawn twice"
                    else:
                        pic = plaquette_picture(lat, sel, **kw)
                        for pi, col, _ in pic:
                            assert col == rgba(scheme[labels_full[pi]]), "plaquette colour"
                    pics.append(pic)
                    n += 1
            assert all(p == pics[0] for p in pics), f"{kind}: subset / label forms disagree"
            # scalar label == constant label array
            for lab in (0, 3):
                a_kw = dict(subset=forms[0], labels=lab, color_scheme=scheme)
                b_kw = dict(subset=forms[1], labels=np.full(N, lab), color_scheme=scheme)
                c_kw = dict(subset=forms[2], labels=np.full(len(sel), lab), color_scheme=scheme)
                if kind == "v":
                    r = [vertex_picture(lat, **k) for k in (a_kw, b_kw, c_kw)]
                elif kind == "e":
                    r = [edge_picture(lat, **k) for k in (a_kw, b_kw, c_kw)]
                else:
                    r = [plaquette_picture(lat, sel, **k) for k in (a_kw, b_kw, c_kw)]
                assert r[0] == r[1] == r[2], "scalar label differs from constant array"
                assert all(item[-1 if kind != "p" else 1] == rgba(scheme[lab]) for item in r[0])
                n += 1
        # wrong length is refused
        if N > 3 and len(idx) != N - 1:
            fn = {"v": plotting.plot_vertices, "e": plotting.plot_edges, "p": plotting.plot_plaquettes}[kind]
            fig, ax = plt.subplots()
            try:
                fn(lat, labels=np.zeros(N - 1, dtype=int), subset=mask, ax=ax)
                raise AssertionError("wrong-length labels accepted")
            except ValueError:
                pass
            finally:
                plt.close(fig)
    # default scheme + single colour name + color keyword
    pic = edge_picture(lat, color_scheme="purple")
    assert all(c == rgba("purple") for _, _, c in pic)
    pic = edge_picture(lat, labels=rng.integers(3, size=lat.n_edges))
    assert set(c for _, _, c in pic) <= set(rgba(c) for c in plotting.colourblind_friendly_scheme)
    pic = plaquette_picture(lat, np.arange(lat.n_plaquettes), color_scheme=scheme, labels=0, color="blue")
    assert all(c == rgba("blue") for _, c, _ in pic)
    assert scheme == scheme_before, "caller's colour scheme was modified"
    assert plotting.colourblind_friendly_scheme == ['#E7414E', '#5BB03E', '#4B64AC']
    return n


# ---------- exact segment intersection ----------
def exact_intersect(a, b):
    """a, b: ((x,y),(x,y)) of Fractions. Returns (intersects, general_position)."""
    (p, q), (r, s) = a, b

    def orient(u, v, w):
        return (v[0] - u[0]) * (w[1] - u[1]) - (v[1] - u[1]) * (w[0] - u[0])

    o1, o2, o3, o4 = orient(p, q, r), orient(p, q, s), orient(r, s, p), orient(r, s, q)
    d = (q[0] - p[0]) * (s[1] - r[1]) - (q[1] - p[1]) * (s[0] - r[0])
    general = d != 0 and 0 not in (o1, o2, o3, o4)
    return (o1 * o2 < 0) and (o3 * o4 < 0), general


def check_intersection(rng):
    n_checked = 0
    for denom, n1, n2 in ((7, 12, 9), (64, 15, 15), (1000, 10, 20), (3, 8, 8)):
        def rand_lines(n):
            num = rng.integers(-3 * denom, 3 * denom + 1, size=(n, 2, 2))
            fr = [[tuple(Fraction(int(v), denom) for v in pt) for pt in line] for line in num]
            return num / denom, fr
        A, Af = rand_lines(n1)
        B, Bf = rand_lines(n2)
        got = plotting.line_intersection(A, B)
        assert got.shape == (n1, n2) and got.dtype == bool
        full = plotting.line_intersection(A, B, full_output=True)
        assert isinstance(full, tuple) and len(full) == 3
        assert np.array_equal(full[0], got)
        assert full[1].shape == (n1, n2) and full[2].shape == (n1, n2)
        # symmetric use
        got_T = plotting.line_intersection(B, A)
        for i in range(n1):
            for j in range(n2):
                want, general = exact_intersect(Af[i], Bf[j])
                if not general:
                    continue
                assert bool(got[i, j]) == want, ("intersection differs from exact arithmetic", A[i], B[j])
                assert bool(got_T[j, i]) == want
                assert not full[1][i, j] and not full[2][i, j]
                n_checked += 1
    # the examples from the docstring-style cases: a plus sign and two parallel strokes
    plus = np.array([[[0.0, 0.5], [1.0, 0.5]], [[0.5, 0.0], [0.5, 1.0]], [[0.0, 2.0], [1.0, 2.0]]])
    r = plotting.line_intersection(plus, plus[:2])
    assert r[0, 1] and r[1, 0] and not r[2, 0] and not r[2, 1]
    return n_checked


def main():
    rng = np.random.default_rng(160)
    lattices = [
        eg.honeycomb_lattice(2),
        eg.make_amorphous(4, rng=np.random.default_rng(7))[0],
        eg.tri_square_pent(),
        eg.hex_square_oct_lattice(1),
    ]
    n = sum(check_lattice(lat, rng) for lat in lattices)
    m = check_intersection(rng)
    print(f"{n} plotting calls compared, {m} segment pairs compared with exact arithmetic")
    print("OK")


if __name__ == "__main__":
    main()
    sys.exit(0)
