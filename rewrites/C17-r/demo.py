"""C17 demo: the de Bruijn-grid generator yields a planar edge-to-edge rhombus tiling.

Standalone; exits 0 printing OK when every clause holds on a handful of varied inputs.
Only set-level / geometric facts are checked (never a vertex, edge or plaquette ORDER).
"""
import sys
import numpy as np
from koala import quasicrystals as qc

CASES = [
    (5, 5, None, 0, 0), (6, 3, None, 0, 0), (5, 7, None, 0, 0), (5, 9, 0.2, 0, 0),
    (7, 5, 0.3, 0, 1), (6, 5, 0.1, 0.02, 2), (5, 7, "random", 0, 3), (8, 5, "random", 0, 4),
    (6, 3, "generic", 0.1, 5), (6, 5, "generic", 0, 6), (5, 7, "generic", 0.02, 7),
    (5, 5, "penrose", 0, 8), (7, 5, "penrose", 0, 9), (9, 3, "generic", 0, 10),
]


def segments_cross(P, E):
    """True if two edges that share no vertex intersect (closed segments)."""
    a = P[E[:, 0]]; b = P[E[:, 1]]
    def orient(p, q, r):
        return (q[..., 0] - p[..., 0]) * (r[..., 1] - p[..., 1]) - (q[..., 1] - p[..., 1]) * (r[..., 0] - p[..., 0])
    A = a[:, None, :]; B = b[:, None, :]; C = a[None, :, :]; D = b[None, :, :]
    o1 = orient(A, B, C); o2 = orient(A, B, D); o3 = orient(C, D, A); o4 = orient(C, D, B)
    eps = 1e-12
    proper = (o1 * o2 < -eps**2) & (o3 * o4 < -eps**2)
    share = (E[:, None, 0] == E[None, :, 0]) | (E[:, None, 0] == E[None, :, 1]) | \
            (E[:, None, 1] == E[None, :, 0]) | (E[:, None, 1] == E[None, :, 1])
    return bool(np.any(proper & ~share))


def check(lat, B, disorder, tag):
    P = lat.vertices.positions
    E = lat.edges.indices
    V, NE = len(P), len(E)
    assert V > 0 and NE > 0, tag
    # inside the unit square, open boundaries
    assert np.all(P >= 0) and np.all(P <= 1), tag + ": outside unit square"
    assert not np.any(lat.edges.crossing), tag + ": periodic crossing flag set"
    # connected
    seen = np.zeros(V, bool); seen[0] = True; stack = [0]
    nb = [[] for _ in range(V)]
    for u, v in E:
        nb[u].append(v); nb[v].append(u)
    while stack:
        u = stack.pop()
        for v in nb[u]:
            if not seen[v]:
                seen[v] = True; stack.append(v)
    assert seen.all(), tag + ": not connected"
    # no dangling edges, no self loops, no duplicate edges
    deg = np.bincount(E.ravel(), minlength=V)
    assert np.all(deg >= 2), tag + ": dangling edge / isolated vertex"
    assert np.all(E[:, 0] != E[:, 1]), tag
    assert len({tuple(sorted(e)) for e in E.tolist()}) == NE, tag + ": duplicate edge"
    # all edges same length
    vec = P[E[:, 1]] - P[E[:, 0]]
    L = np.linalg.norm(vec, axis=1)
    assert np.ptp(L) < 1e-9 * L.mean() + 1e-12, tag + ": edge lengths differ"
    ell = L.mean()
    # no coincident vertices
    d = np.linalg.norm(P[:, None, :] - P[None, :, :], axis=2) + np.eye(V)
    assert d.min() > 1e-6 * ell, tag + ": coincident vertices"
    # no crossings
    assert not segments_cross(P, E), tag + ": edges cross"
    # plaquettes are rhombi; Euler
    F = lat.n_plaquettes
    assert V - NE + F == 1, tag + ": Euler V-E+F=%d" % (V - NE + F)
    for p in lat.plaquettes:
        assert len(p.vertices) == 4 and len(set(p.vertices.tolist())) == 4, tag + ": not a quadrilateral"
        q = P[p.vertices]
        s = np.linalg.norm(np.roll(q, -1, axis=0) - q, axis=1)
        assert np.allclose(s, ell, rtol=1e-9), tag + ": plaquette not a rhombus"
        # opposite sides parallel and non-degenerate
        e0 = q[1] - q[0]; e1 = q[2] - q[1]
        area = abs(e0[0] * e1[1] - e0[1] * e1[0])
        assert area > 1e-6 * ell**2, tag + ": degenerate rhombus"
        if disorder == 0 and B == 5:
            ang = np.degrees(np.arcsin(min(1.0, area / ell**2)))
            assert min(abs(ang - 36), abs(ang - 72)) < 1e-6, tag + ": non-Penrose rhombus %r" % ang
    if disorder == 0:
        th = np.arctan2(vec[:, 1], vec[:, 0])
        # parallel (either orientation) to a star direction: 2k is an integer multiple for odd B of half-steps
        kk = (th % np.pi) / (np.pi / B)   # for odd B the undirected star has spacing pi/B
        assert np.all(np.abs(kk - np.round(kk)) < 1e-6), tag + ": edge not along a star direction"


def run(cases):
    for (n, B, off, dis, seed) in cases:
        np.random.seed(seed)
        if off == "random":
            o = qc.random_offsets(B)
        elif off == "generic":
            o = np.random.uniform(-0.45, 0.45, B)
        elif off == "penrose":
            lat = qc.penrose_tiling(n)
            check(lat, 5, 0, "penrose n=%d seed=%d" % (n, seed))
            continue
        else:
            o = off
        lat = qc.de_brujin_grid(n, B, o, dis)
        check(lat, B, dis, "n=%d B=%d off=%r dis=%r seed=%d" % (n, B, off, dis, seed))


if __name__ == "__main__":
    run(CASES)
    print("OK")
    sys.exit(0)
