"""Demo for rewrite s (Lattice.__setstate__).

Checks that restoring a lattice
 * from the compact tuple state (via pickle protocols 2..5, via copy/deepcopy and by hand),
   taken before or after the cached attributes were populated, and
 * from the legacy dictionary-style state (by hand and from the repository's V0 test pickle)
gives a lattice that equals the original (both ways round), has the documented dtypes, the same
edges/crossings/plaquettes/adjacency tables, and behaves the same under colouring, dimerisation,
dual, vertex removal, Hamiltonian, flux finder and plotting.
Exits 0 and prints OK on the unchanged tree and with the rewrite applied.
"""
import copy
import warnings
warnings.simplefilter("ignore")
import pickle
import sys
from pathlib import Path

import matplotlib
matplotlib.use("Agg")
import matplotlib.pyplot as plt
import numpy as np

from koala import example_graphs as eg
from koala import voronization, plotting
from koala.flux_finder import find_flux_sector, fluxes_from_ujk
from koala.graph_color import color_lattice
from koala.graph_utils import dimerise, make_dual, remove_vertices
from koala.hamiltonian import majorana_hamiltonian
from koala.lattice import Lattice, cut_boundaries


def fresh(l):
    return Lattice(l.vertices.positions.copy(), l.edges.indices.copy(), l.edges.crossing.copy())


def same_structure(a, b, positions_exact=False):
    assert a == b and b == a and not (a != b) and not (b != a)
    assert (a.n_vertices, a.n_edges) == (b.n_vertices, b.n_edges)
    assert np.array_equal(a.edges.indices, b.edges.indices)
    assert np.array_equal(a.edges.crossing, b.edges.crossing)
    assert np.allclose(a.edges.vectors, b.edges.vectors, atol=1e-6)
    if positions_exact:
        assert np.array_equal(a.vertices.positions, b.vertices.positions)
    assert np.array_equal(a.vertices.positions.astype(np.float32), b.vertices.positions.astype(np.float32))
    assert np.array_equal(a.vertices.coordination_numbers, b.vertices.coordination_numbers)
    for x, y in zip(a.vertices.adjacent_edges, b.vertices.adjacent_edges):
        assert np.array_equal(x, y)
    assert a.n_plaquettes == b.n_plaquettes
    for p, q in zip(a.plaquettes, b.plaquettes):
        assert np.array_equal(p.vertices, q.vertices)
        assert np.array_equal(p.edges, q.edges)
        assert np.array_equal(p.directions, q.directions)
        assert np.array_equal(p.adjacent_plaquettes, q.adjacent_plaquettes)
        assert p.n_sides == q.n_sides
        assert np.allclose(p.center, q.center, atol=1e-5)
    assert np.array_equal(a.edges.adjacent_plaquettes, b.edges.adjacent_plaquettes)
    assert np.array_equal(a.vertices.adjacent_plaquettes, b.vertices.adjacent_plaquettes)
    assert np.array_equal(a.adjacency_matrix, b.adjacency_matrix)


def check_compact_restore(restored, reference):
    assert type(restored) is Lattice
    assert restored.vertices.positions.dtype == np.float32
    assert restored.edges.indices.dtype == np.dtype(int)
    assert restored.edges.crossing.dtype == np.dtype(int)
    assert type(restored.n_vertices) is int and type(restored.n_edges) is int
    assert restored.vertices._parent is restored and restored.edges._parent is restored
    assert "plaquettes" not in restored.__dict__       # nothing cached yet
    assert repr(restored) == repr(reference)
    same_structure(reference, restored)


def same_behaviour(a, b, trivalent):
    """a few public operations on the original and on the restored lattice"""
    dual_a, dual_b = make_dual(a), make_dual(b)
    assert np.array_equal(dual_a.edges.indices, dual_b.edges.indices)
    assert np.array_equal(dual_a.edges.crossing, dual_b.edges.crossing)
    assert np.allclose(dual_a.vertices.positions, dual_b.vertices.positions, atol=1e-5)
    cut_a, cut_b = remove_vertices(a, [0, 3]), remove_vertices(b, [0, 3])
    assert cut_a == cut_b and np.array_equal(cut_a.edges.indices, cut_b.edges.indices)
    if trivalent:
        col_a, col_b = color_lattice(a), color_lattice(b)
        assert np.array_equal(col_a, col_b) and col_a.dtype == col_b.dtype
        assert np.array_equal(dimerise(a), dimerise(b))
        target = np.array([(-1) ** (p.n_sides % 3) for p in a.plaquettes], dtype=np.int8)
        if np.prod(target) == 1 or np.any(a.edges.adjacent_plaquettes == np.iinfo(int).max):
            ujk_a, ujk_b = find_flux_sector(a, target), find_flux_sector(b, target)
            assert np.array_equal(fluxes_from_ujk(a, ujk_a), fluxes_from_ujk(b, ujk_b))
        ujk = np.where(np.arange(a.n_edges) % 3 == 0, -1, 1)
        assert np.array_equal(fluxes_from_ujk(a, ujk), fluxes_from_ujk(b, ujk))
        ham_a = majorana_hamiltonian(a, col_a, ujk, np.array([1.0, 0.7, 0.4]))
        ham_b = majorana_hamiltonian(b, col_b, ujk, np.array([1.0, 0.7, 0.4]))
        assert np.array_equal(ham_a, ham_b)
    fig, axes = plt.subplots(1, 2)
    for lattice, ax in zip((a, b), axes):
        plotting.plot_edges(lattice, ax=ax)
        plotting.plot_vertices(lattice, ax=ax)
        plotting.plot_plaquettes(lattice, ax=ax)
    plt.close(fig)


def by_hand(state):
    l = Lattice.__new__(Lattice)
    l.__setstate__(state)
    return l


def main():
    rng = np.random.default_rng(11)
    amorphous = voronization.generate_lattice(rng.uniform(size=(36, 2)))
    big = voronization.generate_lattice(rng.uniform(size=(144, 2)))   # 288 vertices: uint16 indices
    honeycomb = eg.honeycomb_lattice(4)
    cases = [
        (eg.two_triangles(), False),
        (eg.n_ladder(6), True),
        (eg.square_lattice(4, 4), False),
        (eg.higher_coordination_number_example(5), False),
        (honeycomb, True),
        (cut_boundaries(honeycomb), False),
        (amorphous, True),
        (big, True),
        (eg.single_plaquette(256), False),
    ]
    for original, trivalent in cases:
        reference = fresh(original)
        reference.plaquettes

        # --- compact state -------------------------------------------------------
        early, late = fresh(original), fresh(original)
        late.plaquettes, late.n_plaquettes
        late.edges.adjacent_plaquettes, late.vertices.adjacent_plaquettes
        for source in (early, late):
            for protocol in (2, 3, 4, 5):
                check_compact_restore(pickle.loads(pickle.dumps(source, protocol=protocol)), reference)
            check_compact_restore(copy.copy(source), reference)
            check_compact_restore(copy.deepcopy(source), reference)
            check_compact_restore(by_hand(source.__getstate__()), reference)
        # pickled inside a container, twice: identity is preserved by the memo
        first, second = pickle.loads(pickle.dumps([early, early]))
        assert first is second
        check_compact_restore(first, reference)
        # a restored lattice restores to exactly itself
        restored = pickle.loads(pickle.dumps(early))
        same_structure(restored, pickle.loads(pickle.dumps(restored)), positions_exact=True)

        # --- legacy dictionary state -----------------------------------------------
        for source in (fresh(original), late):
            legacy = by_hand(dict(source.__dict__))
            assert legacy.vertices.positions.dtype == source.vertices.positions.dtype
            assert legacy.vertices is source.vertices and legacy.edges is source.edges
            assert legacy.unit_cell is source.unit_cell
            assert ("plaquettes" in legacy.__dict__) == ("plaquettes" in source.__dict__)
            same_structure(reference, legacy, positions_exact=True)
            # and a legacy-restored lattice pickles the new way
            check_compact_restore(pickle.loads(pickle.dumps(legacy)), reference)

        if original.n_vertices <= 100:
            same_behaviour(reference, pickle.loads(pickle.dumps(early, protocol=2)), trivalent)
            same_behaviour(reference, by_hand(dict(fresh(original).__dict__)), trivalent)

    data = Path(__file__).resolve().parents[2] / "tests" / "data"
    if (data / "pickled_lattice_V0.pickle").exists():
        with open(data / "pickled_lattice_V0.pickle", "rb") as f:
            v0 = pickle.load(f)
        with open(data / "pickled_lattice_V1.pickle", "rb") as f:
            v1 = pickle.load(f)
        assert v0 == v1 and v1 == v0
        assert "plaquettes" in v0.__dict__ and v0.vertices._parent is v0
        assert [p.n_sides for p in v0.plaquettes] == [p.n_sides for p in v1.plaquettes]
        check_compact_restore(pickle.loads(pickle.dumps(v0)), v1)
    print("OK")
    return 0


if __name__ == "__main__":
    sys.exit(main())
