"""Standalone check of property C03 (periodic Voronoi tessellation) on a handful of inputs.

Everything is compared as SETS / up to relabelling: vertex numbering, edge order, edge
orientation (i, j, c) ~ (j, i, -c) and plaquette order are not pinned down by the property.

Run:  PYTHONPATH=<tree>/src MPLBACKEND=Agg python demo.py      -> prints OK, exit code 0
"""
import sys
import itertools
import numpy as np
from scipy.spatial import Delaunay

from koala.voronization import generate_lattice
from koala.graph_utils import lloyd_relaxation

TOL = 1e-9


def circumcentre(a, b, c):
    d = 2 * (a[0] * (b[1] - c[1]) + b[0] * (c[1] - a[1]) + c[0] * (a[1] - b[1]))
    ux = ((a @ a) * (b[1] - c[1]) + (b @ b) * (c[1] - a[1]) + (c @ c) * (a[1] - b[1])) / d
    uy = ((a @ a) * (c[0] - b[0]) + (b @ b) * (a[0] - c[0]) + (c @ c) * (b[0] - a[0])) / d
    return np.array([ux, uy])


def reference(points, shift):
    """Periodic Voronoi diagram from an independent Delaunay triangulation of a 7x7 window.

    Returns (positions (2N,2), set of canonical edges, seeds-of-vertex list, self_touching)."""
    n = len(points)
    pad = 3
    offs = list(itertools.product(range(-pad, pad + 1), repeat=2))
    big = np.concatenate([points + np.array(o) for o in offs])
    label = [(k, o) for o in offs for k in range(n)]  # (seed index, cell offset)
    tri = Delaunay(big)

    def position(simplex):
        a, b, c = big[simplex]
        return (a + b + c) / 3 if shift else circumcentre(a, b, c)

    def canon(simplex, cell):
        # identify a triangle modulo lattice translations
        return frozenset((label[s][0], tuple(np.array(label[s][1]) - cell)) for s in simplex)

    pos = {}
    inside = []
    for t, simplex in enumerate(tri.simplices):
        p = position(simplex)
        if np.all(np.abs(p - 0.5) < 1.6):
            pos[t] = p
        if np.all((0 < p) & (p <= 1)):
            inside.append(t)
    ids = {canon(tri.simplices[t], np.zeros(2, int)): i for i, t in enumerate(inside)}
    positions = np.array([pos[t] for t in inside])
    seeds = [sorted(label[s][0] for s in tri.simplices[t]) for t in inside]
    self_touching = any(len(set(s)) < 3 for s in seeds)

    edges = set()
    for i, t in enumerate(inside):
        for nb in tri.neighbors[t]:
            assert nb != -1 and nb in pos, "reference window too small"
            cell = (np.ceil(pos[nb]) - 1).astype(int)
            j = ids[canon(tri.simplices[nb], cell)]
            edges.add(canonical_edge(i, j, tuple(cell)))
    return positions, edges, seeds, self_touching


def canonical_edge(i, j, c):
    c = tuple(int(x) for x in c)
    return min((int(i), int(j), c), (int(j), int(i), tuple(-x for x in c)))


def check_lattice(points, shift, name):
    n = len(points)
    lat = generate_lattice(points, shift_vertices=shift)
    ref_pos, ref_edges, ref_seeds, self_touching = reference(points, shift)

    # public dtypes / shapes
    assert lat.vertices.positions.dtype == np.float64
    assert np.issubdtype(lat.edges.indices.dtype, np.integer)
    assert np.issubdtype(lat.edges.crossing.dtype, np.integer)
    assert lat.edges.indices.shape == (3 * n, 2), (name, lat.edges.indices.shape)
    assert lat.edges.crossing.shape == (3 * n, 2)

    # 2N vertices, 3N edges, trivalent, all in (0, 1]^2
    assert lat.n_vertices == 2 * n == len(ref_pos), (name, lat.n_vertices)
    assert lat.n_edges == 3 * n
    assert np.all(np.bincount(lat.edges.indices.ravel(), minlength=2 * n) == 3), name
    v = lat.vertices.positions
    assert np.all((0 < v) & (v <= 1)), name

    # vertices are exactly the reference circumcentres / centroids (as a set)
    d = np.linalg.norm(v[:, None, :] - ref_pos[None, :, :], axis=-1)
    match = d.argmin(axis=1)
    assert np.all(d.min(axis=1) < TOL), (name, d.min(axis=1).max())
    assert sorted(match) == list(range(2 * n)), name

    # edges join exactly the pairs of triangles sharing a side, crossing = cell offset
    got = [canonical_edge(match[i], match[j], c)
           for (i, j), c in zip(lat.edges.indices, lat.edges.crossing)]
    assert len(set(got)) == len(got) == 3 * n, name
    assert set(got) == ref_edges, name

    if self_touching:
        return lat, False

    # one plaquette per point, containing it; tiling of the torus
    plaqs = lat.plaquettes
    assert len(plaqs) == n, (name, len(plaqs))
    owners = []
    total = 0.0
    for p in plaqs:
        common = set.intersection(*[set(ref_seeds[match[k]]) for k in p.vertices])
        assert len(common) == 1, name
        k = common.pop()
        owners.append(k)
        expected = {i for i, s in enumerate(ref_seeds) if k in s}
        assert {int(match[q]) for q in p.vertices} == expected, name
        # shoelace area of the unwrapped polygon
        steps = lat.edges.vectors[p.edges] * p.directions[:, None]
        poly = np.cumsum(steps, axis=0)
        assert np.allclose(poly[-1], 0, atol=TOL), name
        x, y = poly.T
        total += 0.5 * abs(np.sum(x * np.roll(y, -1) - y * np.roll(x, -1)))
    assert sorted(owners) == list(range(n)), name
    assert abs(total - 1) < 1e-8, (name, total)
    count = np.zeros(lat.n_edges, int)
    for p in plaqs:
        assert len(set(p.edges.tolist())) == len(p.edges), name
        count[p.edges] += 1
    assert np.all(count == 2), name
    return lat, True


def point_sets():
    rng = np.random.default_rng(20240303)
    out = {}
    out["uniform40"] = rng.random((40, 2))
    out["uniform13"] = rng.random((13, 2))
    g = 5
    grid = np.stack(np.meshgrid(np.arange(g), np.arange(g), indexing="ij"), -1).reshape(-1, 2)
    out["jitter25"] = ((grid + 0.5 + 0.35 * (rng.random((g * g, 2)) - 0.5)) / g) % 1
    g = 3
    grid = np.stack(np.meshgrid(np.arange(g), np.arange(g), indexing="ij"), -1).reshape(-1, 2)
    out["jitter9"] = ((grid + 0.5 + 0.4 * (rng.random((g * g, 2)) - 0.5)) / g) % 1
    out["clustered"] = np.concatenate([
        (0.3 + 0.07 * rng.standard_normal((25, 2))) % 1, rng.random((30, 2))])
    out["two_cluster"] = np.concatenate([
        (np.array([0.25, 0.25]) + 0.08 * rng.standard_normal((20, 2))) % 1,
        (np.array([0.75, 0.7]) + 0.08 * rng.standard_normal((20, 2))) % 1,
        rng.random((25, 2))])
    edge = rng.random((30, 2))
    edge[:10, 0] = 1e-3 * rng.random(10)
    edge[10:20, 1] = 1 - 1e-3 * rng.random(10)
    out["boundary"] = edge
    out["small6"] = ((np.array([[0, 0], [1, 0], [2, 0], [0, 1], [1, 1], [2, 1]]) / [3, 2]
                      + 0.1 + 0.12 * rng.random((6, 2))) % 1)
    return out


def main():
    n_plaq_checked = 0
    for name, pts in point_sets().items():
        for shift in (False, True):
            lat, tiled = check_lattice(pts, shift, f"{name}/shift={shift}")
            n_plaq_checked += tiled
        # Lloyd relaxation keeps the number of cells (and every iterate is again a Voronoi lattice)
        lat = generate_lattice(pts)
        for steps in (1, 2, 5):
            rel = lloyd_relaxation(lat, n_steps=steps)
            assert len(rel.plaquettes) == len(pts), (name, steps)
            assert rel.n_vertices == 2 * len(pts) and rel.n_edges == 3 * len(pts)
        centres = np.array([p.center for p in lat.plaquettes])
        one = lloyd_relaxation(lat, n_steps=1)
        ref_pos, ref_edges, _, _ = reference(centres, True)
        d = np.linalg.norm(one.vertices.positions[:, None] - ref_pos[None], axis=-1)
        assert np.all(d.min(axis=1) < TOL) and sorted(d.argmin(axis=1)) == list(range(len(ref_pos)))
    assert n_plaq_checked >= 10, n_plaq_checked
    print("OK")


if __name__ == "__main__":
    main()
    sys.exit(0)
