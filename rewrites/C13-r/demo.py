"""Demo for rewrite r (C13, make_dual / plot_dual).

Checks, on periodic Voronoi lattices, regular tilings and their open cuts that satisfy the half-cell condition:
  * one dual vertex per plaquette, at the plaquette centre mod 1
  * one dual edge per original edge with a plaquette on both sides, in edge order, joining those two plaquettes
  * dual edge vector == true centre-to-centre displacement (obtained by an independent unwrapping)
  * on closed lattices whose straight-line dual drawing has no crossings: one dual plaquette per original
    vertex, with as many sides as that vertex's coordination number
  * plot_dual returns the same dual lattice
Exits 0 and prints OK when everything holds.
"""
import os
os.environ.setdefault("MPLBACKEND", "Agg")
import sys
from collections import Counter

import numpy as np
import matplotlib
matplotlib.use("Agg")
import matplotlib.pyplot as plt

from koala.lattice import INVALID, cut_boundaries
from koala.voronization import generate_lattice
from koala import example_graphs as eg
from koala import graph_utils, plotting

TOL = 1e-9


def unwrapped_tail(lattice, plaq, edge):
    """position of the first vertex (edges.indices[edge, 0]) of `edge` in the unwrapped frame in which the
    plaquette's centre was computed (start at the first plaquette vertex and add up the edge vectors)"""
    pos = lattice.vertices.positions[plaq.vertices[0]].astype(float)
    for e, d in zip(plaq.edges, plaq.directions):
        vec = d * lattice.edges.vectors[e]
        if e == edge:
            return pos.copy() if d == 1 else pos + vec
        pos = pos + vec
    raise AssertionError("edge not in plaquette")


def true_displacements(lattice):
    """for every edge with a plaquette on both sides: (edge, p0, p1, displacement centre(p0) -> centre(p1))"""
    out = []
    table = lattice.edges.adjacent_plaquettes
    for e in range(lattice.n_edges):
        p0, p1 = table[e]
        if p0 == INVALID or p1 == INVALID:
            continue
        P, Q = lattice.plaquettes[p0], lattice.plaquettes[p1]
        frame_offset = unwrapped_tail(lattice, Q, e) - unwrapped_tail(lattice, P, e)
        assert np.allclose(frame_offset, np.round(frame_offset), atol=1e-9)
        out.append((e, int(p0), int(p1), (Q.center - P.center) - frame_offset))
    return out


def half_cell_ok(disps):
    return all(np.all(np.abs(d) < 0.5 - 1e-9) for _, _, _, d in disps)


def segments_cross(dual):
    """does the straight-line periodic drawing of the dual contain two properly crossing edges?"""
    a = dual.vertices.positions[dual.edges.indices[:, 0]]
    b = a + dual.edges.vectors
    n = len(a)

    def orient(p, q, r):
        return (q[..., 0] - p[..., 0]) * (r[..., 1] - p[..., 1]) - (q[..., 1] - p[..., 1]) * (r[..., 0] - p[..., 0])

    for sx in (-1, 0, 1):
        for sy in (-1, 0, 1):
            s = np.array([sx, sy], dtype=float)
            A, B = a[:, None, :], b[:, None, :]
            C, D = (a + s)[None, :, :], (b + s)[None, :, :]
            o1, o2 = orient(A, B, C), orient(A, B, D)
            o3, o4 = orient(C, D, A), orient(C, D, B)
            eps = 1e-12
            proper = (o1 * o2 < -eps**2) & (o3 * o4 < -eps**2) & \
                (np.abs(o1) > eps) & (np.abs(o2) > eps) & (np.abs(o3) > eps) & (np.abs(o4) > eps)
            if sx == 0 and sy == 0:
                proper[np.arange(n), np.arange(n)] = False
            if proper.any():
                return True
    return False


def check_dual(name, lattice, stats):
    disps = true_displacements(lattice)
    if not half_cell_ok(disps):
        stats["skipped"].append(name)
        return
    dual = graph_utils.make_dual(lattice)

    # vertices
    centres = np.array([p.center for p in lattice.plaquettes])
    assert dual.n_vertices == lattice.n_plaquettes, name
    assert dual.vertices.positions.shape == (lattice.n_plaquettes, 2), name
    assert np.allclose(dual.vertices.positions, centres % 1, atol=1e-12, rtol=0), name
    # (a centre a rounding error below 0 is mapped to exactly 1.0 by float `% 1`, hence <=)
    assert np.all(dual.vertices.positions >= 0) and np.all(dual.vertices.positions <= 1), name

    # edges, in edge order, joining the two plaquettes
    assert dual.n_edges == len(disps), name
    expected = np.array([[p0, p1] for _, p0, p1, _ in disps], dtype=int).reshape(-1, 2)
    assert np.array_equal(np.asarray(dual.edges.indices), expected), name
    assert dual.edges.crossing.shape == (len(disps), 2), name
    assert np.array_equal(dual.edges.crossing, np.round(dual.edges.crossing)), name

    # edge vector == true displacement
    true_vecs = np.array([d for _, _, _, d in disps]).reshape(-1, 2)
    assert np.allclose(dual.edges.vectors, true_vecs, atol=TOL, rtol=0), name

    # closed lattice: plaquettes of the dual <-> vertices
    closed = not np.any(lattice.edges.adjacent_plaquettes == INVALID)
    if closed and not segments_cross(dual):
        assert dual.n_plaquettes == lattice.n_vertices, name
        around = [set() for _ in range(lattice.n_vertices)]
        for i, p in enumerate(lattice.plaquettes):
            for v in p.vertices:
                around[v].add(i)
        want = Counter((frozenset(around[v]), int(lattice.vertices.coordination_numbers[v]))
                       for v in range(lattice.n_vertices))
        got = Counter((frozenset(int(x) for x in p.vertices), int(p.n_sides)) for p in dual.plaquettes)
        assert want == got, name
        stats["closed"] += 1
    stats["checked"].append(name)
    return dual


def main():
    stats = {"checked": [], "skipped": [], "closed": 0}
    rng = np.random.default_rng(20240613)
    lattices = []
    for n in (16, 25, 40, 70):
        for rep in range(2):
            lat = generate_lattice(rng.uniform(size=(n, 2)))
            lattices.append((f"voronoi{n}_{rep}", lat))
            lattices.append((f"voronoi{n}_{rep}_cut_xy", cut_boundaries(lat, [True, True])))
            lattices.append((f"voronoi{n}_{rep}_cut_y", cut_boundaries(lat, [False, True])))
    for k in (3, 4, 6):
        lat = eg.honeycomb_lattice(k)
        lattices.append((f"honeycomb{k}", lat))
        lattices.append((f"honeycomb{k}_cut", cut_boundaries(lat, [True, True])))
    for nx, ny in ((4, 4), (5, 3), (6, 7)):
        lat = eg.square_lattice(nx, ny)
        lattices.append((f"square{nx}x{ny}", lat))
        lattices.append((f"square{nx}x{ny}_cut_x", cut_boundaries(lat, [True, False])))
    lat = eg.hex_square_oct_lattice(3)
    lattices.append(("hex_square_oct3", lat))
    lattices.append(("hex_square_oct3_cut", cut_boundaries(lat, [True, True])))

    for name, lat in lattices:
        check_dual(name, lat, stats)

    assert len(stats["checked"]) >= 25, stats
    assert stats["closed"] >= 8, stats

    # plot_dual hands back the same dual
    lat = lattices[6][1]
    fig, ax = plt.subplots()
    d1 = plotting.plot_dual(lat, ax=ax)
    d2 = graph_utils.make_dual(lat)
    plt.close(fig)
    assert np.array_equal(d1.vertices.positions, d2.vertices.positions)
    assert np.array_equal(d1.edges.indices, d2.edges.indices)
    assert np.array_equal(d1.edges.crossing, d2.edges.crossing)

    # the point-average variant only changes where the dual vertices sit
    lat = lattices[0][1]
    d3 = graph_utils.make_dual(lat, True)
    avg = np.array([lat.vertices.positions[p.vertices].mean(axis=0) for p in lat.plaquettes]) % 1
    assert np.allclose(d3.vertices.positions, avg, atol=1e-12, rtol=0)
    assert d3.n_edges == graph_utils.make_dual(lat).n_edges

    # outside the quantifier: a lattice that is too small is still refused
    for tiny in (eg.honeycomb_lattice(2), generate_lattice(np.random.default_rng(1).uniform(size=(3, 2)))):
        try:
            graph_utils.make_dual(tiny)
        except Exception as err:
            assert "Dual is not currently designed" in str(err), err
        else:
            raise AssertionError("tiny lattice was not refused")

    print(f"checked {len(stats['checked'])} lattices ({stats['closed']} closed & crossing-free), "
          f"skipped {len(stats['skipped'])} outside the half-cell condition")
    print("OK")
    return 0


if __name__ == "__main__":
    sys.exit(main())
