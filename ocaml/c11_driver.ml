(* c11_driver.ml — runs the extracted A* / metric models (coq/Model/AStar.v, Metric.v).
   Input lines (integers hex, indices/counts decimal):
     path <N> { <deg> { <nbr> <edge> }* }^N  <nH> { <a> <b> <h(a,b) hex> }*  <nQ> { <start> <goal> <early 0/1> <maxits> }*
        -> per query  q<i> P <margin hex | N> <nodes list> <edges list> <cost hex>   |  q<i> E <margin hex | N>  |  q<i> C
     chk <nT> { <x|N> <y|N> }*  <nC> { <start> <goal> <nodes list> <edges list> }*
        -> ok <list of 0/1>      (as_valid_path with joined = as_joined tab)
     metric <scale hex> <n> { ax ay bx by }*      (coordinates = hex numerators over scale)
        -> eu <n> {num den}*    pe <n> {num den}*
   Output: "key tokens..." lines followed by "end". *)
open Model
open Hexio

let out k v = print_string k; print_char ' '; print_endline v

let next_onat c = let t = next c in if t = "N" then None else Some (nat_of_int (int_of_string t))

let cmd_path c =
  let n = next_int c in
  let adj = Array.init n (fun _ -> next_list c next_natpair) in
  let nh = next_int c in
  let tbl = Hashtbl.create (2 * nh + 1) in
  for _ = 1 to nh do
    let a = next_int c in let b = next_int c in let v = next_z c in
    Hashtbl.replace tbl (a, b) v
  done;
  let adjf (a : nat) = let i = int_of_nat a in if i < n then adj.(i) else [] in
  let hf (a : nat) (b : nat) =
    let k = (int_of_nat a, int_of_nat b) in
    match Hashtbl.find_opt tbl k with
    | Some v -> v
    | None -> failwith (Printf.sprintf "h(%d,%d) not supplied" (fst k) (snd k)) in
  let nq = next_int c in
  for i = 0 to nq - 1 do
    let s = next_nat c in let g = next_nat c in let early = next_bool c in let maxits = next_nat c in
    let key = "q" ^ string_of_int i in
    match as_path adjf hf s g early maxits with
    | AS_Path (ns, es, mg) ->
      out key (sp [ "P"; (match mg with None -> "N" | Some m -> s_z m);
                    s_list s_nat ns; s_list s_nat es; s_z (as_chain_cost hf ns) ])
    | AS_PathFindingError mg -> out key (sp [ "E"; (match mg with None -> "N" | Some m -> s_z m) ])
    | AS_Crash -> out key "C"
  done

let cmd_chk c =
  let tab = next_list c (fun c -> let a = next_onat c in let b = next_onat c in (a, b)) in
  let res = next_list c (fun c ->
      let s = next_nat c in let g = next_nat c in
      let ns = next_list c next_nat in let es = next_list c next_nat in
      as_valid_path (as_joined tab) s g ns es) in
  out "ok" (s_list s_bool res)

let s_q (q : q) = s_z q.qnum ^ " " ^ hex_of_pos q.qden

let cmd_metric c =
  let sc = next_z c in
  let den = (match sc with Zpos p -> p | _ -> failwith "scale must be positive") in
  let mk () = { qnum = next_z c; qden = den } in
  let pairs = next_list c (fun _ ->
      let ax = mk () in let ay = mk () in let bx = mk () in let by = mk () in ((ax, ay), (bx, by))) in
  out "eu" (s_list (fun (a, b) -> s_q (mt_euclid_sq a b)) pairs);
  out "pe" (s_list (fun (a, b) -> s_q (mt_periodic_sq a b)) pairs)

let () =
  iter_lines (fun line ->
      let c = cursor_of_line line in
      let cmd = next c in
      (try
         (match cmd with
          | "path" -> cmd_path c
          | "chk" -> cmd_chk c
          | "metric" -> cmd_metric c
          | _ -> out "error" ("unknown command " ^ cmd))
       with Failure m -> out "error" m);
      print_endline "end")
