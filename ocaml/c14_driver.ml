(* c14_driver.ml — runs the extracted spanning-tree model (coq/Model/SpanTree.v).
   Input lines (lattice as in lat_driver.ml; lists are "<n> x1 .. xn"; optional nat "N" = INVALID / -1):
     span <lattice> <keys: list hex (sort keys for shortest_edges_only=True)>
          <ep: list of (onat onat)> <pes: list of (list nat)>
          <impl tree, shortest_edges_only=False: list onat> <impl tree, True: list onat>
     flip <n hex> <u: list hex> <tree: list nat>
     flipall <u: list hex> <tree: list nat>        every n < 2^k, one token of E chars +/- per n
   Output: "key tokens..." lines followed by "end". *)
open Model
open Hexio

let read_lattice c : lattice =
  let sc = next_z c in
  let ps = next_list c next_zpair in
  let es = next_list c next_natpair in
  let cr = next_list c next_zpair in
  { scale = sc; pos = ps; edges = es; crossing = cr }

let out k v = print_string k; print_char ' '; print_endline v
let next_onat c = let t = next c in if t = "N" then None else Some (nat_of_int (int_of_string t))

let rec z_of_int (n : int) : z =
  if n = 0 then Z0 else if n < 0 then (match z_of_int (-n) with Zpos p -> Zneg p | x -> x)
  else z_of_hex (Printf.sprintf "%x" n)

let cmd_span c =
  let l = read_lattice c in
  let keys = next_list c next_z in
  let ep = next_list c (fun c -> let a = next_onat c in let b = next_onat c in (a, b)) in
  let pes = next_list c (fun c -> next_list c next_nat) in
  (* shortest_edges_only = False, then True (sequential lets: OCaml evaluates list elements right to left) *)
  let itree0 = next_list c next_onat in
  let itree1 = next_list c next_onat in
  let itrees = [ itree0; itree1 ] in
  let nf = List.length pes in
  (* the model's own tables, computed once *)
  let mtab = (if nf > 80 then (out "mp" "SKIP"; None) else match find_all_plaquettes l with
      | None -> out "mp" "ERR"; None
      | Some ps -> out "mp" (string_of_int (List.length ps));
        Some (edges_plaquettes l ps, List.map (fun p -> p.p_edges) ps)) in
  out "agree" (s_bool (ep_agrees ep pes));
  List.iteri (fun j itree ->
      let sfx = string_of_int j in
      let order = (if j = 0 then order_id else order_by_key keys) in
      (* exact candidate order as coded (informational; skipped on large inputs) *)
      (if nf <= 60 then
         (match plaquette_spanning_tree order ep pes with
          | None -> out ("ttree" ^ sfx) "ERR"
          | Some t -> out ("ttree" ^ sfx) (s_list s_onat t))
       else out ("ttree" ^ sfx) "SKIP");
      (* replay: the implementation's choice first *)
      let choice = List.map (fun o -> match o with Some e -> e | None -> O) itree in
      (match plaquette_spanning_tree (order_front choice) ep pes with
       | None -> out ("ftree" ^ sfx) "ERR"
       | Some t -> out ("ftree" ^ sfx) (s_list s_onat t));
      (match mtab with
       | None when nf > 80 -> out ("mftree" ^ sfx) "SKIP"
       | None -> out ("mftree" ^ sfx) "ERR"
       | Some (mep, mpes) ->
         (match plaquette_spanning_tree (order_front choice) mep mpes with
          | None -> out ("mftree" ^ sfx) "ERR"
          | Some t -> out ("mftree" ^ sfx) (s_list s_onat t)));
      (match all_some itree with
       | None -> out ("ist" ^ sfx) "0"
       | Some t -> out ("ist" ^ sfx) (s_bool (is_spanning_tree ep (nat_of_int nf) t)))) itrees

let s_u (u : z list) =
  String.concat "" (List.map (fun x -> if x = Zpos XH then "+" else if x = Zneg XH then "-" else "?") u)

let cmd_flip c =
  let n = next_z c in
  let u = next_list c next_z in
  let tree = next_list c next_nat in
  match n_to_ujk_flipped n u tree with
  | None -> out "flip" "ERR"
  | Some r -> out "flip" (s_list s_z r)

let cmd_flipall c =
  let u = next_list c next_z in
  let tree = next_list c next_nat in
  let k = List.length tree in
  if k > 16 then failwith "flipall: tree too large" else begin
    let buf = Buffer.create (1 lsl 16) in
    for n = 0 to (1 lsl k) - 1 do
      if n > 0 then Buffer.add_char buf ' ';
      (match n_to_ujk_flipped (z_of_int n) u tree with
       | None -> Buffer.add_string buf "ERR"
       | Some r -> Buffer.add_string buf (if r = [] then "." else s_u r))
    done;
    out "flipall" (Buffer.contents buf)
  end

let () =
  iter_lines (fun line ->
      let c = cursor_of_line line in
      let cmd = next c in
      (try
         (match cmd with
          | "span" -> cmd_span c
          | "flip" -> cmd_flip c
          | "flipall" -> cmd_flipall c
          | _ -> out "error" ("unknown command " ^ cmd))
       with Failure m -> out "error" m);
      print_endline "end")
