(* c09p_driver.ml — evaluates the extracted predicate-agreement tests (coq/Proofs/PredicateStableDefs.v) on a
   pair of lattices (original, restored).  Lattice on the wire as for lat_driver.ml:
     <scale> <nV> x0 y0 ... <nE> j0 k0 ... <nE> cx0 cy0 ...      (integers hex, counts and indices decimal)
   Command:  pa LAT LAT
   Output: "key tokens..." lines followed by "end". *)
open Model
open Hexio

let out k v = print_string k; print_char ' '; print_endline v

let read_lattice c : lattice =
  let sc = next_z c in
  let ps = next_list c next_zpair in
  let es = next_list c next_natpair in
  let cr = next_list c next_zpair in
  { scale = sc; pos = ps; edges = es; crossing = cr }

let rec seq_from i n = if n <= 0 then [] else i :: seq_from (i + 1) (n - 1)

let cmd_pa (l : lattice) (l' : lattice) =
  out "wf" (s_bool (wf_lattice l) ^ " " ^ s_bool (wf_lattice l'));
  out "same_connectivity" (s_bool (same_connectivity_b l l'));
  out "round32_copy" (s_bool (is_round32_copy l l'));
  out "rot" (s_bool (rot_agree l l'));
  (* vertices at which the comparator changes a verdict *)
  let bad = List.filter (fun v -> not (rot_agree_at l l' (nat_of_int v))) (seq_from 0 (List.length l.pos)) in
  out "rot_bad_vertices" (s_list string_of_int bad);
  out "faces" (match all_faces l with None -> "ERR" | Some fs -> string_of_int (List.length fs));
  (* indices (discovery order) of the face walks whose orientation verdict "winding = -1" changes, with both windings *)
  (match all_faces l with
   | None -> out "valid_bad_faces" "0"
   | Some fs ->
     let bad = List.concat (List.mapi (fun i f ->
         let w = winding (List.map (dvec l) f.f_walk) and w' = winding (List.map (dvec l') f.f_walk) in
         let m1 = Zneg XH in
         if (w = m1) <> (w' = m1) then [string_of_int i ^ " " ^ s_z w ^ " " ^ s_z w' ^ " " ^ string_of_int (List.length f.f_walk)] else []) fs) in
     out "valid_bad_faces" (sp (string_of_int (List.length bad) :: bad)));
  out "wrap" (s_bool (wrap_agree l l'));
  out "wind" (s_bool (wind_agree l l'));
  out "valid" (s_bool (valid_agree l l'));
  out "preds_fine" (s_bool (preds_agree_fine l l'));
  out "preds" (s_bool (preds_agree l l'));
  out "preds_weak" (s_bool (preds_agree_weak l l'));
  (* the model's own tables of the two lattices (the conclusion of C09_roundtrip_tables), compared structurally *)
  out "model_tables_equal" (s_bool (tables l = tables l'))

let () =
  iter_lines (fun line ->
      let c = cursor_of_line line in
      let cmd = next c in
      (try
         (match cmd with
          | "pa" -> let l = read_lattice c in let l' = read_lattice c in cmd_pa l l'
          | _ -> out "error" ("unknown command " ^ cmd))
       with Failure m -> out "error" m);
      print_endline "end")
