(* c19_driver.ml — runs the extracted point-set model (coq/Model/Points.v).
   Input lines (integers hex, counts decimal):
     bn <sc> <nx> <ny> <k> <x0x> <x0y> <niter> { <idx> <ncand> { <x> <y> }* }*
     hu <sc> <npts> { <x> <y> }*
     un <n>
     bw <a> <b> <m> <sc> <nx> <ny> <k> <x0x> <x0y> <niter> { <idx> <ncand> { <x> <y> }* }*     (windowed loop)
     cl <sc> <nx> <ny> <nsamples> { <x> <y> }*                                               (cells dictionary)
     hf <sc> <nx> <ny> <n> { <ox> <oy> }* <n> { <kx> <ky> }*                                 (jittered grid; nx, ny decimal)
   Output: "key tokens..." lines followed by "end". *)
open Model
open Hexio

let s_zpair (a, b) = s_z a ^ " " ^ s_z b
let out k v = print_string k; print_char ' '; print_endline v

let s_outcome o = match o with
  | Accept (i, _) -> "A" ^ s_nat i
  | Remove -> "R"
  | NoChange -> "N"

let s_q (q : q) = s_z q.qnum ^ " " ^ hex_of_pos q.qden

let cmd_bn c =
  let sc = next_z c in
  let nx = next_z c in
  let ny = next_z c in
  let k = next_nat c in
  let x0 = next_zpair c in
  let its = next_list c (fun c -> let idx = next_nat c in let cands = next_list c next_zpair in (idx, cands)) in
  match run_trace sc nx ny k (init x0) its with
  | None -> out "ok" "0"
  | Some (st, tr) ->
    out "ok" "1";
    out "samples" (s_list s_zpair st.samples);
    out "active" (s_list s_nat st.active);
    out "finished" (s_bool (finished st));
    out "trace" (s_list s_outcome tr);
    out "normalised" (s_list (fun p -> let (a, b) = normalise sc nx ny p in s_q a ^ " " ^ s_q b) st.samples)

let cmd_bw c =
  let a = next_z c in
  let b = next_z c in
  let m = next_z c in
  let sc = next_z c in
  let nx = next_z c in
  let ny = next_z c in
  let k = next_nat c in
  let x0 = next_zpair c in
  let its = next_list c (fun c -> let idx = next_nat c in let cands = next_list c next_zpair in (idx, cands)) in
  match run_trace_window a b m sc nx ny k (init x0) its with
  | None -> out "ok" "0"
  | Some (st, tr) ->
    out "ok" "1";
    out "samples" (s_list s_zpair st.samples);
    out "active" (s_list s_nat st.active);
    out "finished" (s_bool (finished st));
    out "trace" (s_list s_outcome tr)

let cmd_cl c =
  let sc = next_z c in
  let nx = next_z c in
  let ny = next_z c in
  let ss = next_list c next_zpair in
  out "cells" (s_list (fun (key, v) -> s_zpair key ^ " " ^ s_onat v) (cells_after sc nx ny ss));
  out "max" (s_z (max_samples nx ny))

let cmd_hf c =
  let sc = next_z c in
  let nx = next_nat c in
  let ny = next_nat c in
  let offs = next_list c next_zpair in
  let kicks = next_list c next_zpair in
  out "den" (s_z (hu_den sc nx) ^ " " ^ s_z (hu_den sc ny));
  out "final" (s_list s_zpair (hu_final_l sc nx ny offs kicks));
  out "kept" (s_list s_zpair (hyperuniform_full_l sc nx ny offs kicks))

let cmd_hu c =
  let sc = next_z c in
  let pts = next_list c next_zpair in
  out "keep" (s_list (fun p -> s_bool (inside_open_unit sc p)) pts);
  out "crop" (s_list s_zpair (hyperuniform_crop sc pts));
  out "unit" (s_list (fun (a, b) -> s_q a ^ " " ^ s_q b) (hyperuniform sc pts))

let cmd_un c =
  let n = next_nat c in
  let l = uniform n (fun i -> (Z0, Z0)) in
  out "len" (string_of_int (List.length l))

let () =
  iter_lines (fun line ->
      let c = cursor_of_line line in
      let cmd = next c in
      (try
         (match cmd with
          | "bn" -> cmd_bn c
          | "hu" -> cmd_hu c
          | "un" -> cmd_un c
          | "bw" -> cmd_bw c
          | "cl" -> cmd_cl c
          | "hf" -> cmd_hf c
          | _ -> out "error" ("unknown command " ^ cmd))
       with Failure m -> out "error" m);
      print_endline "end")
