(* c18_driver.ml — runs the extracted marker model (coq/Model/Marker.v).
   Input line:
     crosshair <nrows> (<ncols> re im ...)* <nx> x.. <ny> y.. X Y
     chern     <nrows> (<ncols> re im ...)* <nx> x.. <ny> y..
     proj      <D> <nrows> (<ncols> re im ...)*        -> "proj 1" iff Pz^* = Pz and Pz Pz = D Pz
   all integers in hex (Hexio).  Output: "marker <n> v0 v1 ..." (numerators, hex) or
   "marker ERR" (shape error), then "end". *)
open Model
open Hexio

let out k v = print_string k; print_char ' '; print_endline v
let read_matrix c = next_list c (fun c -> next_list c next_zpair)
let show r = match r with
  | None -> out "marker" "ERR"
  | Some l -> out "marker" (s_list s_z l)

let () =
  iter_lines (fun line ->
      let c = cursor_of_line line in
      let cmd = next c in
      (try
         (match cmd with
          | "crosshair" ->
            let p = read_matrix c in
            let xs = next_list c next_z in
            let ys = next_list c next_z in
            let x = next_z c in
            let y = next_z c in
            out "theta_x" (s_list (fun g -> s_z (fst g)) (theta xs x));
            out "theta_y" (s_list (fun g -> s_z (fst g)) (theta ys y));
            show (crosshair_num p xs ys x y)
          | "proj" ->
            let d = next_z c in
            let p = read_matrix c in
            out "proj" (s_bool (gz_projb (nat_of_int (List.length p)) d p))
          | "chern" ->
            let p = read_matrix c in
            let xs = next_list c next_z in
            let ys = next_list c next_z in
            show (chern_num p xs ys)
          | _ -> out "error" ("unknown command " ^ cmd))
       with Failure m -> out "error" m);
      print_endline "end")
