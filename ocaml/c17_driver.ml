(* c17_driver.ml — runs the extracted rhombus-tiling checker of Model/Tiling2.v.
   Input line:  c17 <tn> <td> <use_dirs 0/1> <nd> dx dy ... <scale> <nV> x y ... <nE> j k ... <nE> cx cy ...
   Output: "key tokens" lines then "end". *)
open Model
open Hexio

let read_lattice c : lattice =
  let sc = next_z c in
  let ps = next_list c next_zpair in
  let es = next_list c next_natpair in
  let cr = next_list c next_zpair in
  { scale = sc; pos = ps; edges = es; crossing = cr }
let out k v = print_string k; print_char ' '; print_endline v

let cmd_c17 c =
  let tn = next_z c in let td = next_z c in let use_dirs = next_bool c in
  let dirs = next_list c next_zpair in
  let l = read_lattice c in
  let ok = check_rhombus_tiling tn td use_dirs dirs l in
  out "ok" (s_bool ok);
  if not ok then begin
    out "wf" (s_bool (wf_lattice l));
    out "zero_crossing" (s_bool (zero_crossing l));
    out "no_self_loops" (s_bool (no_self_loops l));
    out "distinct" (s_bool (all_distinct l.pos));
    out "degrees" (s_bool (degrees_ok l));
    out "in_square" (s_bool (in_unit_square l));
    out "connected" (s_bool (connected_check l));
    out "no_crossing" (s_bool (no_crossing_check l));
    out "lengths" (s_bool (lengths_ok tn td l));
    out "directions" (s_bool (if use_dirs then directions_ok tn td dirs l else true));
    out "faces" (s_bool (faces_ok tn td l));
    (match find_all_plaquettes l with
     | None -> out "sides" "ERR"
     | Some ps -> out "sides" (s_list (fun p -> s_nat (n_sides p)) ps))
  end

let () =
  iter_lines (fun line ->
      let c = cursor_of_line line in
      let cmd = next c in
      (try
         (match cmd with
          | "c17" -> cmd_c17 c
          | _ -> out "error" ("unknown command " ^ cmd))
       with Failure m -> out "error" m);
      print_endline "end")
