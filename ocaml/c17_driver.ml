(* c17_driver.ml — runs the extracted rhombus-tiling checker of Model/Tiling2.v.
   Input line:  c17 <tn> <td> <use_dirs 0/1> <nd> dx dy ... <scale> <nV> x y ... <nE> j k ... <nE> cx cy ...
   Output: "key tokens" lines then "end".
   Dual construction (Model/DeBruijn.v); every rational is two hex integers "num den":
     db <n> <scaling> <B> starts.. <B> normals.. <B> stars.. <N> points.. <F> a b c d ..
        -> idx (N*B integers)  mar (N rationals)  win (N flags)  pos (N*2 rationals)  quad (F * "i s j t", i = -1: no certificate)
     gv <nlines> <scaling> <B> grads.. <B> normals.. <B> offsets.. <M> b1 l1 b2 l2 ..
        -> pts (per requested intersection "1 x y" / "0 0 1 0 1")  starts (B*2 rationals) *)
open Model
open Hexio

let read_lattice c : lattice =
  let sc = next_z c in
  let ps = next_list c next_zpair in
  let es = next_list c next_natpair in
  let cr = next_list c next_zpair in
  { scale = sc; pos = ps; edges = es; crossing = cr }
let out k v = print_string k; print_char ' '; print_endline v

let cmd_c17 c =
  let tn = next_z c in let td = next_z c in let use_dirs = next_bool c in
  let dirs = next_list c next_zpair in
  let l = read_lattice c in
  let ok = check_rhombus_tiling tn td use_dirs dirs l in
  out "ok" (s_bool ok);
  if not ok then begin
    out "wf" (s_bool (wf_lattice l));
    out "zero_crossing" (s_bool (zero_crossing l));
    out "no_self_loops" (s_bool (no_self_loops l));
    out "distinct" (s_bool (all_distinct l.pos));
    out "degrees" (s_bool (degrees_ok l));
    out "in_square" (s_bool (in_unit_square l));
    out "connected" (s_bool (connected_check l));
    out "no_crossing" (s_bool (no_crossing_check l));
    out "lengths" (s_bool (lengths_ok tn td l));
    out "directions" (s_bool (if use_dirs then directions_ok tn td dirs l else true));
    out "faces" (s_bool (faces_ok tn td l));
    (match find_all_plaquettes l with
     | None -> out "sides" "ERR"
     | Some ps -> out "sides" (s_list (fun p -> s_nat (n_sides p)) ps))
  end

let next_q c : q =
  let n = next_z c in
  (match next_z c with Zpos p -> { qnum = n; qden = p } | _ -> failwith "denominator not positive")
let next_qpair c = let a = next_q c in let b = next_q c in (a, b)
let s_q (x : q) = s_z x.qnum ^ " " ^ s_z (Zpos x.qden)
let s_qpair (a, b) = s_q a ^ " " ^ s_q b

let cmd_db c =
  let n = next_z c in let sc = next_q c in
  let starts = next_list c next_qpair in let normals = next_list c next_qpair in let stars = next_list c next_qpair in
  let pts = next_list c next_qpair in
  let faces = next_list c (fun c -> let a = next_nat c in let b = next_nat c in let c' = next_nat c in let d = next_nat c in [a; b; c'; d]) in
  let rs = List.map (fun q -> db_eval n sc starts normals stars q) pts in
  let ks = List.map (fun (((k, _), _), _) -> k) rs in
  out "idx" (sp (List.concat_map (fun k -> List.map s_z k) ks));
  out "mar" (sp (List.map (fun (((_, m), _), _) -> s_q m) rs));
  out "win" (sp (List.map (fun (((_, _), w), _) -> s_bool w) rs));
  out "pos" (sp (List.map (fun (((_, _), _), p) -> s_qpair p) rs));
  let b = nat_of_int (List.length starts) in
  out "quad" (sp (List.map (fun o -> match o with
      | None -> "-1 0 -1 0"
      | Some ((i, s), (j, t)) -> sp [s_nat i; s_z s; s_nat j; s_z t]) (face_certs b ks faces)))

let cmd_gv c =
  let n = next_nat c in let sc = next_q c in
  let grads = next_list c next_qpair in let normals = next_list c next_qpair in let offs = next_list c next_q in
  let g = { g_grads = grads; g_normals = normals; g_offsets = offs; g_nlines = n; g_scaling = sc } in
  let which = next_list c (fun c -> let b1 = next_nat c in let l1 = next_nat c in let b2 = next_nat c in let l2 = next_nat c in (b1, l1, b2, l2)) in
  out "pts" (sp (List.map (fun (b1, l1, b2, l2) -> match grid_point g b1 l1 b2 l2 with
      | None -> "0 0 1 0 1" | Some p -> "1 " ^ s_qpair p) which));
  out "starts" (sp (List.map s_qpair (start_positions g)))

let () =
  iter_lines (fun line ->
      let c = cursor_of_line line in
      let cmd = next c in
      (try
         (match cmd with
          | "c17" -> cmd_c17 c
          | "db" -> cmd_db c
          | "gv" -> cmd_gv c
          | _ -> out "error" ("unknown command " ^ cmd))
       with Failure m -> out "error" m);
      print_endline "end")
