(* c02_driver.ml — runs the extracted lattice tables, query helpers and cache state machine (C02).
   Input line:
     c02 <scale> <nV> x0 y0 ... <nE> j0 k0 ... <nE> cx0 cy0 ... <adjm 0|1> <nH> { <len> op ... }*
   ops: 0 GetPlaquettes, 1 GetNPlaquettes, 2 GetEdgeAdj, 3 GetVertexAdj.
   Output: "key tokens..." lines followed by "end". *)
open Model
open Hexio

let read_lattice c : lattice =
  let sc = next_z c in
  let ps = next_list c next_zpair in
  let es = next_list c next_natpair in
  let cr = next_list c next_zpair in
  { scale = sc; pos = ps; edges = es; crossing = cr }

let s_zpair (a, b) = s_z a ^ " " ^ s_z b
let out k v = print_string k; print_char ' '; print_endline v
let s_eprow (a, b) = s_onat a ^ " " ^ s_onat b
let s_natlists (a, b) = s_list s_nat a ^ " " ^ s_list s_nat b

let op_of_int = function
  | 0 -> GetPlaquettes | 1 -> GetNPlaquettes | 2 -> GetEdgeAdj | 3 -> GetVertexAdj
  | _ -> failwith "bad op"

let s_plaq (p : plaquette) =
  sp [ s_list s_nat p.p_verts; s_list s_nat p.p_edges; s_list s_bool p.p_dirs ]

(* a returned value, written out in full *)
let s_value (v : value) : string = match v with
  | VPlaq (ps, nbs) -> sp [ "P"; s_list s_plaq ps; s_list (s_list s_onat) nbs ]
  | VNat n -> sp [ "N"; s_nat n ]
  | VEdge t -> sp [ "E"; s_list s_eprow t ]
  | VVert t -> sp [ "V"; s_list (s_list s_onat) t ]
  | VRaise -> "RAISE"
  | VAttrError -> "ATTRERROR"

let cmd_c02 c =
  let l = read_lattice c in
  let want_adjm = next_bool c in
  let hists = next_list c (fun c -> next_list c (fun c -> op_of_int (next_int c))) in
  out "wf" (s_bool (wf_lattice l));
  out "noloops" (s_bool (no_self_loops l));
  out "vectors" (s_list s_zpair (vectors l));
  out "adj" (s_list (s_list s_nat) (adj_table l));
  out "coord" (s_list s_nat (coordination l));
  out "edge_nb" (s_list (s_list s_nat) (List.init (List.length l.edges) (fun e -> edge_neighbours l (nat_of_int e))));
  if want_adjm then begin
    let n = List.length l.pos in
    let buf = Buffer.create 256 in
    let cnt = ref 0 in
    let nats = Array.init n nat_of_int in
    for i = 0 to n - 1 do for j = 0 to n - 1 do
        if adjacency_true l nats.(i) nats.(j) then
          (incr cnt; Buffer.add_string buf (Printf.sprintf " %d %d" i j)) done done;
    out "adjm" (string_of_int !cnt ^ Buffer.contents buf)
  end;
  out "generic" (s_nat (generic_count l));
  out "q_vn" (s_list s_natlists (all_vertex_neighbours l));
  out "q_en" (s_list (s_list s_nat) (all_q_edge_neighbours l));
  out "q_cw" (s_list s_natlists (all_clockwise_about l));
  out "q_ev" (s_list (s_list s_zpair) (all_edge_vectors l));
  (* the history-free values *)
  let cp = compute_plaquettes l in      (* once; pure_value l o = pure_value_of (compute_plaquettes l) o by definition *)
  let pures = List.map (fun (k, o) -> (k, o, pure_value_of cp o))
      [ ("pure0", GetPlaquettes); ("pure1", GetNPlaquettes); ("pure2", GetEdgeAdj); ("pure3", GetVertexAdj) ] in
  let pure_of o = let (_, _, v) = List.find (fun (_, o', _) -> o' = o) pures in v in
  List.iter (fun (k, _, v) -> out k (s_value v)) pures;
  (match pure_of GetPlaquettes with
   | VPlaq (ps, _) ->
     (* the boolean hypothesis of the plaquette-table theorems, on the model's own plaquette list *)
     out "hyp" (s_bool (plaq_list_ok l ps));
     out "q_ap" (s_list (fun r -> match r with None -> "ERR" | Some x -> s_natlists x)
                   (all_q_adjacent_plaquettes l ps))
   | _ -> out "q_ap" "ERR");
  (* histories: run the cache state machine; each returned value is printed as "=" when it is
     (structurally) the history-free value, else in full *)
  List.iteri (fun i ops ->
      let (_, vs) = run l cinit ops in
      out ("hist" ^ string_of_int i)
        (sp (List.map2 (fun o v -> if v = pure_of o then "=" else "[" ^ s_value v ^ "]") ops vs))) hists

let () =
  iter_lines (fun line ->
      let c = cursor_of_line line in
      let cmd = next c in
      (try
         (match cmd with
          | "c02" -> cmd_c02 c
          | _ -> out "error" ("unknown command " ^ cmd))
       with Failure m -> out "error" m);
      print_endline "end")
