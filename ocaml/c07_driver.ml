(* c07_driver.ml — runs the extracted Hamiltonian model (coq/Model/Ham.v).
   nat as decimal, Z as hex (Hexio).  Commands (one per line):
     ham     <V> <nE> j k .. <hascol> [<nE> c ..] <nE> u .. <nJ> J ..
             -> wf, noloops, A4 (V rows: "<V> z ..."), bondsum_equal (1 iff bond_sum = A4 entry-wise)
     fermion <V> <V> (<V> z ..)*                     -> F (2n rows of "<2n> re im ...")
     permute <V> <nE> j k .. <n> ordering ..          -> isperm, inv, edges
     bisect  <V> <nE> j k .. <nE> sol .. <along> <n> ordering ..
             -> labels, argsort, matching, edges (permuted), halves
   every answer ends with "end". *)
open Model
open Hexio

let out k v = print_string k; print_char ' '; print_endline v
let s_natpair (a, b) = s_nat a ^ " " ^ s_nat b
let read_edges c = next_list c next_natpair
let read_zmat c = next_list c (fun c -> next_list c next_z)

let () =
  iter_lines (fun line ->
      let c = cursor_of_line line in
      let cmd = next c in
      (try
         (match cmd with
          | "ham" ->
            let v = next_nat c in
            let es = read_edges c in
            let hascol = next_int c in
            let col = if hascol = 1 then Some (next_list c next_nat) else None in
            let u = next_list c next_z in
            let j = next_list c next_z in
            out "wf" (s_bool (wf_edges v es));
            out "noloops" (s_bool (no_loops es));
            let a = majorana4 v es col u j in
            out "A4" (s_list (s_list s_z) a);
            let hop = hoppings (nat_of_int (List.length es)) col u j in
            let vi = int_of_nat v in
            let ok = ref true in
            (* re-evaluation of theorem C07_ham_is_bond_sum on this input (small V only: unary nat comparisons) *)
            if vi <= 24 then begin
              List.iteri (fun r row -> List.iteri (fun cc x ->
                  if hex_of_z (bond_sum es hop (nat_of_int r) (nat_of_int cc)) <> hex_of_z x then ok := false) row) a;
              out "bondsum_equal" (s_bool !ok) end
            else out "bondsum_equal" "skipped"
          | "fermion" ->
            let v = next_nat c in
            let a = read_zmat c in
            out "F" (s_list (s_list (fun (re, im) -> s_z re ^ " " ^ s_z im)) (fermion4 v a))
          | "permute" ->
            let v = next_nat c in
            let es = read_edges c in
            let ord = next_list c next_nat in
            out "isperm" (s_bool (is_perm_of_range v ord));
            out "inv" (s_list s_nat (inverse_ordering v ord));
            out "edges" (s_list s_natpair (permute_edges v ord es))
          | "bisect" ->
            let v = next_nat c in
            let es = read_edges c in
            let sol = next_list c next_nat in
            let along = next_nat c in
            let ord = next_list c next_nat in
            let lab = sublattice_labels v es sol along in
            out "labels" (s_list s_nat lab);
            out "argsort" (s_bool (is_argsort lab ord));
            out "matching" (s_bool (perfect_matching v (dimer_edges es sol along)));
            let pe = permute_edges v ord es in
            out "edges" (s_list s_natpair pe);
            out "halves" (s_bool (opposite_halves v (dimer_edges pe sol along)))
          | _ -> out "error" ("unknown command " ^ cmd))
       with Failure m -> out "error" m);
      print_endline "end")
