(* c20_driver.ml — runs the extracted models coq/Model/Sampling.v and coq/Model/ParMap.v.
   Input lines (integers hex, counts decimal):
     sp <s>                                   sampling points of both schemes for samples = s
     chq <n> <n_splits>                       chunk sizes of 0..n-1, exact rational carry
     ch <n> <nceil> { <ceil> }*               chunk sizes of 0..n-1 for the given ceil sequence (then 1 for ever)
     pm <n> <predicted> <nceil> { <ceil> }* <nsched> { <pos> }*
                                              parmap_by over the points 0..n-1 with f = identity, the pool
                                              delivering the tasks in the order of the schedule;
                                              predicted = number of chunks announced by get_n_chunks
     kp <n> <n_jobs> <nsched> { <pos> }*    compute_phase_diagram as it is now (integer chunk size) over the points
                                              0..n-1, f = identity, pool delivering in the order of the schedule
     nd <s>                                   the point lists handed to Triangulation: skewed plain points, the six
                                              transformed lists of the symmetric scheme (second coordinate in units of sin(pi/3))
     kv <n> <n_jobs> <d> <nsched> { <pos> }*  compute_phase_diagram END TO END (cpd_vector) over the points 0..n-1 with the
                                              vector-valued f(i) = [i*d; ...; i*d + d-1]; prints the returned (d, n) array
     km <n> <n_jobs> <a> <b> <nsched> { <pos> }*   the same for the a x b matrix-valued f(i)[j][k] = (i*a + j)*b + k (cpd_matrix);
                                              prints the returned (b, a, n) array
   Output: "key tokens..." lines followed by "end". *)
open Model
open Hexio

let out k v = print_string k; print_char ' '; print_endline v
let s_q (q : q) = s_z q.qnum ^ " " ^ hex_of_pos q.qden
let s_triple ((x, y), z) = sp [s_q x; s_q y; s_q z]

let pos_of_z (x : z) : positive = match x with Zpos p -> p | _ -> failwith "positive expected"

let ceil_fun (l : z list) : nat -> z =
  let a = Array.of_list l in
  fun i -> let k = int_of_nat i in if k < Array.length a then a.(k) else Zpos XH

let cmd_sp c =
  let s = next_nat c in
  let p = nonsym_triples s in
  let q = sym_triples s in
  out "plain" (s_list s_triple p);
  out "sym" (s_list s_triple q);
  out "simplex_ok" (s_bool (List.for_all on_simplex p && List.for_all on_simplex q));
  out "centre_in_grid" (s_bool (centre_in_grid s))

let sizes chunks = s_list (fun ch -> string_of_int (List.length ch)) chunks

let cmd_chq c =
  let n = next_int c in
  let m = pos_of_z (next_z c) in
  out "sizes" (sizes (chunk_tasks (List.init n (fun i -> i)) m))

let cmd_ch c =
  let n = next_int c in
  let ceils = next_list c next_z in
  out "sizes" (sizes (chunk_tasks_by (ceil_fun ceils) (List.init n (fun i -> i))))

let cmd_pm c =
  let n = next_int c in
  let predicted = next_nat c in
  let ceils = next_list c next_z in
  let sched = next_list c next_nat in
  let xs = List.init n (fun i -> i) in
  let pool g tasks = schedule_pool g sched tasks in
  let chunks = chunk_tasks_by (ceil_fun ceils) xs in
  out "sizes" (sizes chunks);
  out "delivered" (s_list (fun (i, _) -> s_nat i) (pool (computation (fun x -> x)) (tag chunks)));
  out "result" (s_list string_of_int (parmap_by (fun x -> x) pool (ceil_fun ceils) xs));
  out "serial" (s_list string_of_int (serial (fun x -> x) xs));
  out "raises" (match parmap_checked (fun x -> x) pool (ceil_fun ceils) predicted xs with None -> "1" | Some _ -> "0")

let cmd_kp c =
  let n = next_int c in
  let jobs = pos_of_z (next_z c) in
  let sched = next_list c next_nat in
  let xs = List.init n (fun i -> i) in
  let pool g tasks = schedule_pool g sched tasks in
  let cs = koala_chunk_size (nat_of_int n) jobs in
  let chunks = chunk_tasks_by (fun _ -> z_of_hex (Printf.sprintf "%x" (int_of_nat cs))) xs in
  out "chunk_size" (s_nat cs);
  out "predicted" (s_nat (n_chunks_exact (nat_of_int n) cs));
  out "sizes" (sizes chunks);
  out "delivered" (s_list (fun (i, _) -> s_nat i) (pool (computation (fun x -> x)) (tag chunks)));
  (match parmap (fun x -> x) pool jobs xs with
   | None -> out "raises" "1"
   | Some r -> out "raises" "0"; out "result" (s_list string_of_int r));
  out "serial" (s_list string_of_int (serial (fun x -> x) xs))

let s_pair (x, y) = sp [s_q x; s_q y]

let cmd_nd c =
  let s = next_nat c in
  out "plain_nodes" (s_list s_pair (nonsym_nodes s));
  out "sym_nodes" (s_list (fun l -> s_list s_pair l) (sym_nodes s))

let cmd_kv c =
  let n = next_int c in
  let jobs = pos_of_z (next_z c) in
  let d = next_int c in
  let sched = next_list c next_nat in
  let xs = List.init n (fun i -> i) in
  let pool g tasks = schedule_pool g sched tasks in
  let f i = List.init d (fun j -> i * d + j) in
  out "evaluated" (s_list string_of_int (evaluated_points jobs xs));
  (match cpd_vector f pool jobs xs with
   | None -> out "raises" "1"
   | Some data -> out "raises" "0"; out "data" (s_list (fun col -> s_list string_of_int col) data))

let cmd_km c =
  let n = next_int c in
  let jobs = pos_of_z (next_z c) in
  let a = next_int c in
  let b = next_int c in
  let sched = next_list c next_nat in
  let xs = List.init n (fun i -> i) in
  let pool g tasks = schedule_pool g sched tasks in
  let f i = List.init a (fun j -> List.init b (fun k -> (i * a + j) * b + k)) in
  (match cpd_matrix f pool jobs xs with
   | None -> out "raises" "1"
   | Some data -> out "raises" "0";
     out "data" (s_list (fun plane -> s_list (fun col -> s_list string_of_int col) plane) data))

let () =
  iter_lines (fun line ->
      let c = cursor_of_line line in
      let cmd = next c in
      (try
         (match cmd with
          | "sp" -> cmd_sp c
          | "chq" -> cmd_chq c
          | "ch" -> cmd_ch c
          | "pm" -> cmd_pm c
          | "kp" -> cmd_kp c
          | "nd" -> cmd_nd c
          | "kv" -> cmd_kv c
          | "km" -> cmd_km c
          | _ -> out "error" ("unknown command " ^ cmd))
       with Failure m -> out "error" m);
      print_endline "end")
