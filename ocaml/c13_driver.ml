(* c13_driver.ml — runs the extracted models Model/Dual.v and Model/Truncate.v.
   Input line:  c13 <scale> <nV> x y ... <nE> j k ... <nE> cx cy ... <nops> op ...
     op ::= dual | trunc N | trunc L <k> i1..ik
   Output: "wf b", "noloops b", then per op a line "o<i> ...", then "end".
     dual  -> o<i> STUCK | DUPLICATE | D <nV> xn xd yn yd ... <nE> a b ... <nE> cx cy ...
              (positions as exact fractions num den, hex)
     trunc -> o<i> ERR | L <nV> x y ... <nE> j k ... <nE> cx cy ...   (positions times 3*scale, hex) *)
open Model
open Hexio

let read_lattice c : lattice =
  let sc = next_z c in
  let ps = next_list c next_zpair in
  let es = next_list c next_natpair in
  let cr = next_list c next_zpair in
  { scale = sc; pos = ps; edges = es; crossing = cr }

let s_zpair (a, b) = s_z a ^ " " ^ s_z b
let s_natpair (a, b) = s_nat a ^ " " ^ s_nat b
let s_q (x : q) = s_z x.qnum ^ " " ^ hex_of_pos x.qden
let s_qpair (a, b) = s_q a ^ " " ^ s_q b
let out k v = print_string k; print_char ' '; print_endline v
let s_lattice (l : lattice) =
  sp [ "L"; s_list s_zpair l.pos; s_list s_natpair l.edges; s_list s_zpair l.crossing ]

let run_op (l : lattice) c : string =
  match next c with
  | "dual" ->
    (match make_dual l with
     | DualStuck -> "STUCK"
     | DualDuplicate -> "DUPLICATE"
     | DualOk d -> sp [ "D"; s_list s_qpair d.qpos; s_list s_natpair d.qedges; s_list s_zpair d.qcrossing ])
  | "trunc" ->
    let vs = (match next c with
        | "N" -> None
        | "L" -> Some (next_list c next_nat)
        | s -> failwith ("bad selection " ^ s)) in
    (match vertices_to_polygon l vs with None -> "ERR" | Some l' -> s_lattice l')
  | s -> failwith ("unknown op " ^ s)

let () =
  iter_lines (fun line ->
      let c = cursor_of_line line in
      let cmd = next c in
      (try
         (match cmd with
          | "c13" ->
            let l = read_lattice c in
            out "wf" (s_bool (wf_lattice l));
            out "noloops" (s_bool (no_self_loops l));
            let n = next_int c in
            for i = 0 to n - 1 do
              out ("o" ^ string_of_int i) (run_op l c)
            done
          | _ -> out "error" ("unknown command " ^ cmd))
       with Failure m -> out "error" m);
      print_endline "end")
