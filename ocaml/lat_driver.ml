(* lat_driver.ml — runs the extracted lattice model on serialised lattices.
   Input line:  <cmd> <scale> <nV> x0 y0 ... <nE> j0 k0 ... <nE> cx0 cy0 ... [extra]
   Output: several "key tokens..." lines followed by "end". *)
open Model
open Hexio

let read_lattice c : lattice =
  let sc = next_z c in
  let ps = next_list c next_zpair in
  let es = next_list c next_natpair in
  let cr = next_list c next_zpair in
  { scale = sc; pos = ps; edges = es; crossing = cr }

let s_zpair (a, b) = s_z a ^ " " ^ s_z b
let out k v = print_string k; print_char ' '; print_endline v

let cmd_lat (l : lattice) =
  out "wf" (s_bool (wf_lattice l));
  out "noloops" (s_bool (no_self_loops l));
  out "vectors" (s_list s_zpair (vectors l));
  out "adj" (s_list (s_list s_nat) (adj_table l));
  out "coord_bincount" (s_list s_nat (coordination_bincount l));
  out "coord" (s_list s_nat (coordination l));
  out "edge_nb" (s_list (s_list s_nat) (List.init (List.length l.edges) (fun e -> edge_neighbours l (nat_of_int e))));
  (match find_all_plaquettes l with
   | None -> out "plaquettes" "ERR"
   | Some ps ->
     out "plaquettes" (string_of_int (List.length ps));
     List.iteri (fun i p ->
         out ("p" ^ string_of_int i)
           (sp [ s_list s_nat p.p_verts; s_list s_nat p.p_edges; s_list s_bool p.p_dirs;
                 s_zpair p.p_cnum; s_z p.p_area2; s_z p.p_winding ])) ps;
     let ep = edges_plaquettes l ps in
     out "ep" (s_list (fun (a, b) -> s_onat a ^ " " ^ s_onat b) ep);
     (match vertices_plaquettes l ps with
      | None -> out "vp" "ERR"
      | Some t -> out "vp" (s_list (s_list s_onat) t));
     out "pnb" (s_list (s_list s_onat) (all_plaquette_neighbours l ps)))

let cmd_faces (l : lattice) =
  match all_faces l with
  | None -> out "faces" "ERR"
  | Some fs ->
    out "faces" (string_of_int (List.length fs));
    List.iteri (fun i f ->
        out ("f" ^ string_of_int i)
          (sp [ s_list (fun ((e, v), d) -> s_nat e ^ " " ^ s_nat v ^ " " ^ s_bool d) f.f_walk;
                s_bool f.f_nodup; s_bool f.f_netzero; s_z f.f_winding; s_z f.f_area2 ])) fs

let () =
  iter_lines (fun line ->
      let c = cursor_of_line line in
      let cmd = next c in
      (try
         (match cmd with
          | "lat" -> cmd_lat (read_lattice c)
          | "faces" -> cmd_faces (read_lattice c)
          | "latfaces" -> let l = read_lattice c in cmd_lat l; cmd_faces l
          | _ -> out "error" ("unknown command " ^ cmd))
       with Failure m -> out "error" m);
      print_endline "end")
