(* c04_driver.ml — runs the extracted CNF / colouring model (coq/Model/Cnf.v, Color.v).
   Counts and indices travel as decimal (nat), literals and counts of colourings as hex (Z).
   Input lines
     card <k> lit*k                                       equals1 (CardEnc contract)
     ec   <E> (u v)*E <n> <F> (col e)*F <flags>           edge_color
     vc   <A> (i j)*A <n> <flags>                         vertex_color
     dm   <nv> <E> (u v)*E <flags>                        dimerise
     cl   <E> (u v)*E <K> cw*K                            color_lattice run with the brute-force solver
     kec  <E> (u v)*E <n> <F> (col e)*F <L> c*L           check an edge colouring returned by koala
     kvc  <A> (i j)*A <n> <L> c*L
     kdm  <nv> <E> (u v)*E <L> d*L
   flags (sum): 1 cnf, 2 count (backtracking), 4 list (backtracking), 8 brute (through the formula),
                16 exists, 32 run the model's edge_color/vertex_color/dimerise with brute_models as solver
   Output: "key tokens..." lines followed by "end". *)
open Model
open Hexio
(* NB: the Coq function [val] is extracted as [val0] (val is an OCaml keyword) *)

let out k v = print_string k; print_char ' '; print_endline v
let s_clause c = s_list s_z c
let s_cnf f = s_list s_clause f
let s_col c = s_list s_nat c
let s_cols cs = s_list s_col cs
let has fl b = (fl land b) <> 0

(* the solver of the model's end-to-end functions, instantiated by exhaustive search *)
let b_enum f = brute_models (maxvar f) f
let b_solve f = (match b_enum f with [] -> false | _ -> true)
let b_get f = (match b_enum f with m :: _ -> m | [] -> [])

let s_result r = match r with
  | Unsolvable -> "U"
  | Invalid -> "I"
  | Solution c -> "S " ^ s_col c
  | Solutions cs -> "M " ^ s_cols cs

let read_edges c = next_list c next_natpair

let cmd_card c =
  let l = next_list c next_z in
  out "cnf" (s_cnf (equals1 l))

let cmd_ec c =
  let es = read_edges c in
  let n = next_nat c in
  let fx = next_list c next_natpair in
  let fl = next_int c in
  (match edge_color_cnf es n fx with
   | None -> out "dom" "0"
   | Some f ->
     out "dom" "1";
     out "maxvar" (s_nat (maxvar f));
     if has fl 1 then out "cnf" (s_cnf f));
  if has fl 2 then out "count" (s_z (count_edge_colourings es n fx));
  if has fl 16 then out "exists" (s_bool (exists_edge_colouring es n fx));
  if has fl 4 then out "list" (s_cols (list_edge_colourings es n fx));
  if has fl 8 then (match brute_edge_colourings es n fx with
      | None -> out "brute" "N" | Some l -> out "brute" (s_cols l));
  if has fl 32 then begin
    out "run_single" (s_result (edge_color b_solve b_get b_enum es n Single fx));
    out "run_all" (s_result (edge_color b_solve b_get b_enum es n AllSolutions fx));
    out "run_first2" (s_result (edge_color b_solve b_get b_enum es n (FirstN (nat_of_int 2)) fx))
  end

let cmd_vc c =
  let adj = read_edges c in
  let n = next_nat c in
  let fl = next_int c in
  (match vertex_color_cnf adj n with
   | None -> out "dom" "0"
   | Some f ->
     out "dom" "1";
     out "nverts" (s_nat (nverts adj));
     out "maxvar" (s_nat (maxvar f));
     if has fl 1 then out "cnf" (s_cnf f));
  if has fl 2 then out "count" (s_z (count_vertex_colourings adj n));
  if has fl 16 then out "exists" (s_bool (exists_vertex_colouring adj n));
  if has fl 4 then out "list" (s_cols (list_vertex_colourings adj n));
  if has fl 8 then (match brute_vertex_colourings adj n with
      | None -> out "brute" "N" | Some l -> out "brute" (s_cols l));
  if has fl 32 then begin
    out "run_single" (s_result (vertex_color b_solve b_get b_enum adj n false));
    out "run_all" (s_result (vertex_color b_solve b_get b_enum adj n true))
  end

let cmd_dm c =
  let nv = next_nat c in
  let es = read_edges c in
  let fl = next_int c in
  let f = dimer_cnf nv es in
  out "maxvar" (s_nat (maxvar f));
  if has fl 1 then out "cnf" (s_cnf f);
  if has fl 2 then out "count" (s_z (count_dimerisations nv es));
  if has fl 16 then out "exists" (s_bool (exists_dimerisation nv es));
  if has fl 4 then out "list" (s_cols (list_dimerisations nv es));
  if has fl 8 then out "brute" (s_cols (brute_dimerisations nv es));
  if has fl 32 then begin
    out "run_single" (s_result (dimerise b_solve b_enum nv es (Some (nat_of_int 1))));
    out "run_all" (s_result (dimerise b_solve b_enum nv es None));
    out "run_first2" (s_result (dimerise b_solve b_enum nv es (Some (nat_of_int 2))))
  end

let cmd_cl c =
  let es = read_edges c in
  let cw = next_list c next_nat in
  out "run" (s_result (color_lattice b_solve b_get b_enum es cw))

let cmd_kec c =
  let es = read_edges c in
  let n = next_nat c in
  let fx = next_list c next_natpair in
  let col = next_list c next_nat in
  out "valid" (s_bool (valid_edge_coloringb es n fx col));
  (match edge_color_cnf es n fx with
   | None -> out "encsat" "N"
   | Some f ->
     let m = encode_colors (List.length es |> nat_of_int) n col in
     out "encsat" (s_bool (wf_model (maxvar f) m && eval_cnf (val0 m) f));
     out "roundtrip" (s_bool (decode_colors (List.length es |> nat_of_int) n m = col)))

let cmd_kvc c =
  let adj = read_edges c in
  let n = next_nat c in
  let col = next_list c next_nat in
  out "valid" (s_bool (valid_vertex_coloringb adj n col));
  (match vertex_color_cnf adj n with
   | None -> out "encsat" "N"
   | Some f ->
     let m = encode_colors (nverts adj) n col in
     out "encsat" (s_bool (wf_model (maxvar f) m && eval_cnf (val0 m) f));
     out "roundtrip" (s_bool (decode_colors (nverts adj) n m = col)))

let cmd_kdm c =
  let nv = next_nat c in
  let es = read_edges c in
  let d = next_list c next_nat in
  out "valid" (s_bool (valid_dimerb nv es d));
  let f = dimer_cnf nv es in
  let m = encode_dimer d in
  out "encsat" (s_bool (wf_model (maxvar f) m && eval_cnf (val0 m) f));
  out "roundtrip" (s_bool (decode_dimer m = d))

let () =
  iter_lines (fun line ->
      let c = cursor_of_line line in
      let cmd = next c in
      (try
         (match cmd with
          | "card" -> cmd_card c
          | "ec" -> cmd_ec c
          | "vc" -> cmd_vc c
          | "dm" -> cmd_dm c
          | "cl" -> cmd_cl c
          | "kec" -> cmd_kec c
          | "kvc" -> cmd_kvc c
          | "kdm" -> cmd_kdm c
          | _ -> out "error" ("unknown command " ^ cmd))
       with Failure m -> out "error" m);
      print_endline "end")
