(* hexio.ml — shared I/O glue between the extracted Coq model (module Model) and the
   Python harness.  Trusted (part of the correspondence check, not of any theorem).
   Integers travel as hexadecimal with an optional leading '-', so that the extracted
   binary [positive]/[z] datatypes are built bit by bit (no OCaml int overflow).
   nat indices travel as decimal OCaml ints. *)
open Model

let pos_of_hex (s : string) (start : int) : positive option =
  let acc = ref None in
  for i = start to String.length s - 1 do
    let c = s.[i] in
    let v =
      if c >= '0' && c <= '9' then Char.code c - 48
      else if c >= 'a' && c <= 'f' then Char.code c - 87
      else failwith ("bad hex digit in " ^ s) in
    for b = 3 downto 0 do
      let bit = (v lsr b) land 1 = 1 in
      acc := (match !acc with
              | None -> if bit then Some XH else None
              | Some p -> Some (if bit then XI p else XO p))
    done
  done;
  !acc

let z_of_hex (s : string) : z =
  if String.length s = 0 then failwith "empty integer token"
  else if s.[0] = '-' then
    (match pos_of_hex s 1 with None -> Z0 | Some p -> Zneg p)
  else (match pos_of_hex s 0 with None -> Z0 | Some p -> Zpos p)

let hex_of_pos (p : positive) : string =
  let rec lsb p = match p with
    | XH -> [true] | XO q -> false :: lsb q | XI q -> true :: lsb q in
  let msb_first = List.rev (lsb p) in
  let n = List.length msb_first in
  let pad = (4 - n mod 4) mod 4 in
  let padded = (List.init pad (fun _ -> false)) @ msb_first in
  let buf = Buffer.create 16 in
  let rec go l = match l with
    | a :: b :: c :: d :: r ->
      let v = (if a then 8 else 0) + (if b then 4 else 0) + (if c then 2 else 0) + (if d then 1 else 0) in
      Buffer.add_char buf "0123456789abcdef".[v]; go r
    | [] -> ()
    | _ -> failwith "hex_of_pos" in
  go padded; Buffer.contents buf

let hex_of_z (x : z) : string = match x with
  | Z0 -> "0"
  | Zpos p -> hex_of_pos p
  | Zneg p -> "-" ^ hex_of_pos p

let nat_of_int (n : int) : nat =
  let rec go n acc = if n <= 0 then acc else go (n - 1) (S acc) in go n O
let int_of_nat (n : nat) : int =
  let rec go n acc = match n with O -> acc | S m -> go m (acc + 1) in go n 0

(* token cursor over one input line *)
type cursor = { toks : string array; mutable i : int }
let cursor_of_line (line : string) : cursor =
  { toks = Array.of_list (List.filter (fun s -> s <> "") (String.split_on_char ' ' line)); i = 0 }
let next (c : cursor) : string =
  if c.i >= Array.length c.toks then failwith "unexpected end of line"
  else (let t = c.toks.(c.i) in c.i <- c.i + 1; t)
let next_int c = int_of_string (next c)
let next_nat c = nat_of_int (next_int c)
let next_z c = z_of_hex (next c)
let next_bool c = (next c) = "1"
let next_list (c : cursor) (f : cursor -> 'a) : 'a list =
  let n = next_int c in List.init n (fun _ -> f c)
let next_zpair c = let a = next_z c in let b = next_z c in (a, b)
let next_natpair c = let a = next_nat c in let b = next_nat c in (a, b)

let sp = String.concat " "
let s_nat n = string_of_int (int_of_nat n)
let s_z = hex_of_z
let s_bool b = if b then "1" else "0"
let s_list f l = sp (string_of_int (List.length l) :: List.map f l)
let s_onat o = match o with None -> "N" | Some n -> s_nat n

let iter_lines (f : string -> unit) : unit =
  try while true do
      let line = input_line stdin in
      if String.length line > 0 then f line
    done with End_of_file -> ()
