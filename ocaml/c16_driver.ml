(* c16_driver.ml — runs the extracted plotting model (Model/Plot.v, Model/Clip.v).
   Rationals travel as two hex tokens "num den"; lattice positions as numerators over one
   common power-of-two scale.  One case per input line, output "key tokens..." lines + "end".

   commands
     args  N <subset> <labels> K
     verts <lat> <subset> <labels> K
     edges <lat> <subset> <labels> K <dirs>
     plaqs <lat> nP (v0 n (e d)...)... <subset> <labels> K
     espec G (n (x0 y0 x1 y1)...)...            spec check on drawn segments, grouped per edge
     pspec G (np (nv (x y)...)...)...           spec check on drawn polygons, grouped per plaquette
     lint  tol n (s1x s1y e1x e1y s2x s2y e2x e2y)...
   glue (Model/PlotGlue.v); colours are Python strings = code point lists  <ustr> ::= n z...
     cres   <sarg> <kw>                                   resolve_scheme
     argsc  N <subset> <labels> <sarg> <kw>               process_plot_args_c
     vertsc <lat> <subset> <labels> <sarg> <kw>           plot_vertices_c
     edgesc <lat> <subset> <labels> <sarg> <kw> <dirs>    plot_edges_c   (colour handed over, final colour)
     plaqsc <lat> nP plaq... <subset> <labels> <sarg> <kw>  plot_plaquettes_c
     vdef <lat> | edef <lat> | pdef <lat> nP plaq...      the calls with all defaults
     dual  <scale nV x y.. nE j k.. nE cx cy..> <subset> <labels> K <dirs>     plot_dual (lattice of Model/Lattice.v)
   <sarg> ::= S <ustr> | L n <ustr>...      <kw> ::= N | K <ustr>
   <subset> ::= S a b c  (a,b,c = N | hex)   |  M n b...   |  I n z...
   <labels> ::= s z | l n z...                                                      *)
open Model
open Hexio

let out k v = print_string k; print_char ' '; print_endline v

let next_pos c : positive =
  match pos_of_hex (next c) 0 with Some p -> p | None -> failwith "zero denominator"
let next_q c : q = let n = next_z c in let d = next_pos c in { qnum = n; qden = d }
let next_point c : point = let x = next_q c in let y = next_q c in (x, y)
let next_seg c : seg = let a = next_point c in let b = next_point c in (a, b)
let s_q (x : q) = let r = qred x in s_z r.qnum ^ " " ^ hex_of_pos r.qden
let s_point ((x, y) : point) = s_q x ^ " " ^ s_q y
let s_seg ((a, b) : seg) = s_point a ^ " " ^ s_point b

let next_oz c = let t = next c in if t = "N" then None else Some (z_of_hex t)
let next_subset c : subset =
  match next c with
  | "S" -> let a = next_oz c in let b = next_oz c in let s = next_oz c in SSlice (a, b, s)
  | "M" -> SMask (next_list c next_bool)
  | "I" -> SIdx (next_list c next_z)
  | t -> failwith ("bad subset tag " ^ t)
let next_labels c : labels =
  match next c with
  | "s" -> LScalar (next_z c)
  | "l" -> LList (next_list c next_z)
  | t -> failwith ("bad labels tag " ^ t)
let next_scheme c : z list =
  let k = next_int c in List.init k (fun i -> z_of_hex (Printf.sprintf "%x" i))

let read_lat c : plat =
  let sc = next_pos c in
  let ps = next_list c (fun c -> let x = next_z c in let y = next_z c in
                         (qred { qnum = x; qden = sc }, qred { qnum = y; qden = sc })) in
  let es = next_list c next_natpair in
  let cr = next_list c next_zpair in
  { ppos = ps; pedges = es; pcross = cr }

let s_err e = match e with IndexError -> "IndexError" | ValueError -> "ValueError"

let cmd_args c =
  let n = next_nat c in
  let s = next_subset c in
  let l = next_labels c in
  let sch = next_scheme c in
  (match subset_indices n s with
   | Error e -> out "idx" (s_err e)
   | Ok idx -> out "idx" ("ok " ^ s_list s_nat idx));
  (match process_plot_args n s l sch with
   | Error e -> out "res" (s_err e)
   | Ok (idx, cols) -> out "res" "ok"; out "col" (s_list s_z cols))

let cmd_verts c =
  let lat = read_lat c in
  let s = next_subset c in
  let l = next_labels c in
  let sch = next_scheme c in
  match plot_vertices lat s l sch with
  | Error e -> out "res" (s_err e)
  | Ok pts -> out "res" "ok"; out "pts" (s_list (fun (p, col) -> s_point p ^ " " ^ s_z col) pts)

let cmd_edges c =
  let lat = read_lat c in
  let s = next_subset c in
  let l = next_labels c in
  let sch = next_scheme c in
  let d = next_labels c in
  match plot_edges lat s l sch d with
  | Error e -> out "res" (s_err e)
  | Ok dr ->
    out "res" "ok";
    out "drawn" (s_list (fun (sg, (col, dire)) ->
        let (ctr2, v) = arrow_of sg dire in
        sp [ s_seg sg; s_z col; s_z dire; s_point ctr2; s_point v ]) dr)

let read_plaq c : plaq =
  let v0 = next_nat c in
  let es = next_list c (fun c -> let e = next_nat c in let d = next_bool c in (e, d)) in
  { pl_v0 = v0; pl_edges = es }

let s_poly (p : polygon) = s_list s_point p

let cmd_plaqs c =
  let lat = read_lat c in
  let pls = next_list c read_plaq in
  let s = next_subset c in
  let l = next_labels c in
  let sch = next_scheme c in
  match plot_plaquettes lat pls s l sch with
  | Error e -> out "res" (s_err e)
  | Ok r ->
    out "res" "ok";
    out "np" (string_of_int (List.length r));
    List.iteri (fun i (polys, col) ->
        out ("p" ^ string_of_int i) (sp [ s_z col; s_list s_poly polys ])) r

let qzero = { qnum = Z0; qden = XH }
let qabs_ (x : q) = match x.qnum with Zneg p -> { qnum = Zpos p; qden = x.qden } | _ -> x

let cmd_espec c =
  let groups = next_list c (fun c -> next_list c next_seg) in
  out "ng" (string_of_int (List.length groups));
  List.iteri (fun i segs ->
      let ivs = List.map clip_interval segs in
      let total = List.fold_left (fun acc s -> qred (qplus acc (clip_len s))) qzero segs in
      let somes = List.filter_map (fun x -> x) ivs in
      let rec pairs l acc = match l with
        | [] -> acc
        | a :: r -> pairs r (List.fold_left (fun m b -> qmax m (overlap_len a b)) acc r) in
      out ("g" ^ string_of_int i)
        (sp [ s_q total; s_q (pairs somes qzero);
              s_list (fun iv -> match iv with
                  | None -> "0"
                  | Some (lo, hi) -> "1 " ^ s_q lo ^ " " ^ s_q hi) ivs ])) groups

let cmd_pspec c =
  let groups = next_list c (fun c -> next_list c (fun c -> next_list c next_point)) in
  out "ng" (string_of_int (List.length groups));
  List.iteri (fun i polys ->
      match polys with
      | [] -> out ("g" ^ string_of_int i) "empty"
      | p0 :: _ ->
        let a0 = qabs_ (area2 p0) in
        let clipped = List.map (fun p -> qabs_ (clipped_area2 p)) polys in
        let total = List.fold_left (fun acc a -> qred (qplus acc a)) qzero clipped in
        let cvx = convexb p0 in
        let rec maxov l acc = match l with
          | [] -> acc
          | a :: r ->
            let acc' = List.fold_left (fun m b -> qmax m (qabs_ (overlap_area2_in_cell a b))) acc r in
            maxov r acc' in
        let ov = if cvx then maxov polys qzero else qzero in
        out ("g" ^ string_of_int i)
          (sp [ s_q a0; s_q total; s_bool cvx; s_q ov; s_list s_q clipped ])) groups

let cmd_lint c =
  let tol = next_q c in
  let pairs = next_list c (fun c -> let a = next_seg c in let b = next_seg c in (a, b)) in
  out "li" (s_list (fun (a, b) -> s_bool (line_intersection tol a b) ^ " " ^ s_bool (segments_meet_exact a b)) pairs)

(* ---------- glue: Model/PlotGlue.v ---------- *)
let next_ustr c : z list = next_list c next_z
let s_ustr (u : z list) = s_list s_z u
let next_sarg c : scheme_arg =
  match next c with
  | "S" -> SchemeStr (next_ustr c)
  | "L" -> SchemeList (next_list c next_ustr)
  | t -> failwith ("bad scheme tag " ^ t)
let next_kw c : z list option =
  match next c with
  | "N" -> None
  | "K" -> Some (next_ustr c)
  | t -> failwith ("bad kw tag " ^ t)

let cmd_cres c =
  let sa = next_sarg c in
  let kw = next_kw c in
  match resolve_scheme sa kw with
  | Error e -> out "res" (s_err e)
  | Ok sch -> out "res" "ok"; out "sch" (s_list s_ustr sch)

let cmd_argsc c =
  let n = next_nat c in
  let s = next_subset c in
  let l = next_labels c in
  let sa = next_sarg c in
  let kw = next_kw c in
  match process_plot_args_c n s l sa kw with
  | Error e -> out "res" (s_err e)
  | Ok (idx, cols) -> out "res" "ok"; out "idx" (s_list s_nat idx); out "col" (s_list s_ustr cols)

let out_verts r =
  match r with
  | Error e -> out "res" (s_err e)
  | Ok pts -> out "res" "ok"; out "pts" (s_list (fun (p, col) -> s_point p ^ " " ^ s_ustr col) pts)
let out_edges kw r =
  match r with
  | Error e -> out "res" (s_err e)
  | Ok dr ->
    out "res" "ok";
    out "drawn" (s_list (fun (sg, (col, dire)) ->
        sp [ s_seg sg; s_ustr col; s_ustr (final_colour kw col); s_z dire ]) dr)
let out_plaqs r =
  match r with
  | Error e -> out "res" (s_err e)
  | Ok r ->
    out "res" "ok";
    out "np" (string_of_int (List.length r));
    List.iteri (fun i (polys, col) ->
        out ("p" ^ string_of_int i) (sp [ s_ustr col; s_list s_poly polys ])) r

let cmd_vertsc c =
  let lat = read_lat c in
  let s = next_subset c in
  let l = next_labels c in
  let sa = next_sarg c in
  let kw = next_kw c in
  out_verts (plot_vertices_c lat s l sa kw)
let cmd_edgesc c =
  let lat = read_lat c in
  let s = next_subset c in
  let l = next_labels c in
  let sa = next_sarg c in
  let kw = next_kw c in
  let d = next_labels c in
  out_edges kw (plot_edges_c lat s l sa kw d)
let cmd_plaqsc c =
  let lat = read_lat c in
  let pls = next_list c read_plaq in
  let s = next_subset c in
  let l = next_labels c in
  let sa = next_sarg c in
  let kw = next_kw c in
  out_plaqs (plot_plaquettes_c lat pls s l sa kw)
let cmd_vdef c = let lat = read_lat c in out_verts (plot_vertices_default lat)
let cmd_edef c = let lat = read_lat c in out_edges None (plot_edges_default lat)
let cmd_pdef c = let lat = read_lat c in let pls = next_list c read_plaq in out_plaqs (plot_plaquettes_default lat pls)

let read_lattice c : lattice =
  let sc = next_z c in
  let ps = next_list c next_zpair in
  let es = next_list c next_natpair in
  let cr = next_list c next_zpair in
  { scale = sc; pos = ps; edges = es; crossing = cr }

let cmd_dual c =
  let l = read_lattice c in
  let s = next_subset c in
  let lab = next_labels c in
  let sch = next_scheme c in
  let d = next_labels c in
  (match make_dual l with
   | DualOk dl ->
     out "dpos" (s_list s_point dl.qpos);
     out "ded" (s_list (fun (a, b) -> s_nat a ^ " " ^ s_nat b) dl.qedges);
     out "dcr" (s_list (fun (a, b) -> s_z a ^ " " ^ s_z b) dl.qcrossing)
   | _ -> ());
  match plot_dual l s lab sch d with
  | DPStuck -> out "res" "STUCK"
  | DPDuplicate -> out "res" "DUPLICATE"
  | DPDrawn (Error e) -> out "res" (s_err e)
  | DPDrawn (Ok dr) ->
    out "res" "ok";
    out "drawn" (s_list (fun (sg, (col, dire)) -> sp [ s_seg sg; s_z col; s_z dire ]) dr)

let () =
  iter_lines (fun line ->
      let c = cursor_of_line line in
      let cmd = next c in
      (try
         (match cmd with
          | "args" -> cmd_args c
          | "verts" -> cmd_verts c
          | "edges" -> cmd_edges c
          | "plaqs" -> cmd_plaqs c
          | "espec" -> cmd_espec c
          | "pspec" -> cmd_pspec c
          | "lint" -> cmd_lint c
          | "cres" -> cmd_cres c
          | "argsc" -> cmd_argsc c
          | "vertsc" -> cmd_vertsc c
          | "edgesc" -> cmd_edgesc c
          | "plaqsc" -> cmd_plaqsc c
          | "vdef" -> cmd_vdef c
          | "edef" -> cmd_edef c
          | "pdef" -> cmd_pdef c
          | "dual" -> cmd_dual c
          | _ -> out "error" ("unknown command " ^ cmd))
       with Failure m -> out "error" m);
      print_endline "end")
