(* c12_driver.ml — runs the extracted surgery model (Model/Surgery.v).
   Input line:  c12 <scale> <nV> x y ... <nE> j k ... <nE> cx cy ... <nops> op ...
     op ::= cut <bx> <by> | rmv <k> i1..ik | trail | perm <k> i1..ik | reord <k> i1..ik
   Output: "wf b", then per op i a line "o<i> ..." ; then "end".
     lattice  ::= L <nV> x y ... <nE> j k ... <nE> cx cy ...     (positions scaled, hex)
     cut      -> o<i> lattice
     rmv      -> o<i> ERR | o<i> lattice <n> removed...
     trail    -> o<i> FUEL | BADINDEX | lattice KV <n> v... KE <n> e...
     perm     -> o<i> ERR | lattice ;  reord likewise *)
open Model
open Hexio

let read_lattice c : lattice =
  let sc = next_z c in
  let ps = next_list c next_zpair in
  let es = next_list c next_natpair in
  let cr = next_list c next_zpair in
  { scale = sc; pos = ps; edges = es; crossing = cr }

let s_zpair (a, b) = s_z a ^ " " ^ s_z b
let s_natpair (a, b) = s_nat a ^ " " ^ s_nat b
let out k v = print_string k; print_char ' '; print_endline v
let s_lattice (l : lattice) =
  sp [ "L"; s_list s_zpair l.pos; s_list s_natpair l.edges; s_list s_zpair l.crossing ]

let run_op (l : lattice) c : string =
  match next c with
  | "cut" -> let bx = next_bool c in let by = next_bool c in s_lattice (cut_boundaries l bx by)
  | "rmv" ->
    let idx = next_list c next_nat in
    (match remove_vertices l idx with
     | None -> "ERR"
     | Some (l', rem) -> sp [ s_lattice l'; s_list s_nat rem ])
  | "trail" ->
    (match remove_trailing_edges l with
     | TrailOutOfFuel -> "FUEL"
     | TrailBadIndex -> "BADINDEX"
     | TrailDone l' ->
       (match trailing_survivors l with
        | None -> "FUEL"
        | Some (kv, ke) -> sp [ s_lattice l'; "KV"; s_list s_nat kv; "KE"; s_list s_nat ke ]))
  | "perm" ->
    let o = next_list c next_nat in
    (match permute_vertices l o with None -> "ERR" | Some l' -> s_lattice l')
  | "reord" ->
    let o = next_list c next_nat in
    (match reorder_vertices l o with None -> "ERR" | Some l' -> s_lattice l')
  | s -> failwith ("unknown op " ^ s)

let () =
  iter_lines (fun line ->
      let c = cursor_of_line line in
      let cmd = next c in
      (try
         (match cmd with
          | "c12" ->
            let l = read_lattice c in
            out "wf" (s_bool (wf_lattice l));
            out "noloops" (s_bool (no_self_loops l));
            let n = next_int c in
            for i = 0 to n - 1 do
              out ("o" ^ string_of_int i) (run_op l c)
            done
          | _ -> out "error" ("unknown command " ^ cmd))
       with Failure m -> out "error" m);
      print_endline "end")
