(* c06_driver.ml — runs the extracted flux-solver model (coq/Model/FluxSolver.v).
   Input line (integers hex, indices/counts decimal):
     solve <conv 0=ujk 1=bonds> <nP> { <n> { <edge> <dir hex> }* }*  <nE> { <a|N> <b|N> }*
           <nT> {target hex}*  <nG> {guess hex}*  <nPairs> { <a> <b> }*  <nPaths> { <a> <b> <nodes list> <edges list> }*
   The pairing oracle returns the given pairs (whatever its argument), the path oracle looks (a, b) up
   among the given paths (None if absent).
   Output:
     flux0 <list>                     (model flux of the guess)
     defects <list>                   (np.where(ftf == -1) after step 2 = the argument of the pairing)
     pairing_ok 0/1 ; paths_ok <list 0/1>
     res OK <bonds list> | LEFTOVER | MISMATCH | PATHERR
   followed by "end".
   e2e <conv> <plaqs as above> <ep as above> <nT> {target hex}* <nG> {guess hex}* <nCaps> { <a> <b> }* <nH> { <a> <b> <h(a,b) hex> }*
     the solver with NOTHING fed in but the greedy choices (replayed from the captured pairs) and the cost values: the paths are
     computed by the A* model (fsl_path: adjacency lists by the model of graph_utils.adjacent_plaquettes, early stopping, budget
     n_edges).  Output:
       conn 0/1                          (fs_connected_b ep F)
       apath<i> P <margin hex|N> <nodes list> <edges list> | E | C      for the i-th captured pair (as_path on the same arguments)
       res OK <bonds list> | LEFTOVER | MISMATCH | PATHERR              (fs_solve_astar)
       boundary N | <e0> <q0>            (fs_find_boundary ep)
       complete N | <bonds list>         (fs_complete_open on the model's result, when res is OK and a boundary edge exists) *)
open Model
open Hexio

let out k v = print_string k; print_char ' '; print_endline v
let next_onat c = let t = next c in if t = "N" then None else Some (nat_of_int (int_of_string t))

let cmd_solve c =
  let conv = next_int c in
  let plaqs = next_list c (fun c -> next_list c (fun c -> let e = next_nat c in let d = next_z c in (e, d))) in
  let ep = next_list c (fun c -> let a = next_onat c in let b = next_onat c in (a, b)) in
  let target = next_list c next_z in
  let guess = next_list c next_z in
  let pairs = next_list c next_natpair in
  let paths = next_list c (fun c ->
      let a = next_int c in let b = next_int c in
      let ns = next_list c next_nat in let es = next_list c next_nat in ((a, b), (ns, es))) in
  let flux = if conv = 0 then fs_fluxes_ujk plaqs else fs_fluxes_bonds plaqs in
  let pairing _ = pairs in
  let path a b = List.assoc_opt (int_of_nat a, int_of_nat b) paths in
  let f0 = flux guess in
  out "flux0" (s_list s_z f0);
  let ftf = fs_map2 Z.div target f0 in
  let (_, f1) = fs_flip_adjacent ep O guess ftf in
  let defects = fs_where_neg f1 in
  out "defects" (s_list s_nat defects);
  out "pairing_ok" (s_bool (fs_pairing_ok defects pairs));
  out "paths_ok" (s_list (fun (a, b) -> s_bool (fs_path_ok ep a b (path a b))) pairs);
  (match fs_solve flux ep pairing path target guess with
   | FS_Ok b -> out "res" ("OK " ^ s_list s_z b)
   | FS_LeftoverError -> out "res" "LEFTOVER"
   | FS_MismatchError -> out "res" "MISMATCH"
   | FS_PathError -> out "res" "PATHERR")

(* wf <nP> { <n> { <edge> <dir hex> }* }*  <nE> { <a|N> <b|N> }*   ->  wf 0/1   (once per lattice: O(F*E)) *)
let cmd_wf c =
  let plaqs = next_list c (fun c -> next_list c (fun c -> let e = next_nat c in let d = next_z c in (e, d))) in
  let ep = next_list c (fun c -> let a = next_onat c in let b = next_onat c in (a, b)) in
  out "wf" (s_bool (fs_wf plaqs ep))

(* ansatz <k> {n decimal}*  ->  gsa <list hex> (generated ground_state_ansatz n), sr <list hex> (sign_real[n mod 4]) *)
let cmd_ansatz c =
  let ns = next_list c next_int in
  out "gsa" (s_list (fun n -> s_z (ground_state_ansatz (z_of_hex (Printf.sprintf "%x" n)))) ns);
  out "sr" (s_list (fun n -> s_z (fs_sign_real (nat_of_int n))) ns)

(* greedy <n> {defect}* <k> { <a> <b> }*   (the argument of the pairing, then the pairs captured from the implementation, in order)
   runs the model of _greedy_plaquette_pairing with the oracles REPLAYING the captured choices
   (fs_replay_pick / fs_replay_nearest: set.pop yields the captured cur, min yields the captured closest)
   ->  greedy PAIRS <list of a b> | MINEMPTY | FUEL ; greedy_ok 0/1 (fs_pairing_ok on the model's pairs) *)
let cmd_greedy c =
  let defects = next_list c next_nat in
  let caps = next_list c next_natpair in
  let pick = fs_replay_pick caps and nearest = fs_replay_nearest caps in
  (match fs_greedy_run pick nearest defects with
   | FG_Pairs ps -> out "greedy" ("PAIRS " ^ s_list (fun (a, b) -> s_nat a ^ " " ^ s_nat b) ps)
   | FG_MinEmptyError -> out "greedy" "MINEMPTY"
   | FG_OutOfFuel -> out "greedy" "FUEL");
  out "greedy_ok" (s_bool (fs_pairing_ok defects (greedy_pairing pick nearest defects)))

let cmd_e2e c =
  let conv = next_int c in
  let plaqs = next_list c (fun c -> next_list c (fun c -> let e = next_nat c in let d = next_z c in (e, d))) in
  let ep = next_list c (fun c -> let a = next_onat c in let b = next_onat c in (a, b)) in
  let target = next_list c next_z in
  let guess = next_list c next_z in
  let caps = next_list c next_natpair in
  let nh = next_int c in
  let tbl = Hashtbl.create (2 * nh + 1) in
  for _ = 1 to nh do
    let a = next_int c in let b = next_int c in let v = next_z c in
    Hashtbl.replace tbl (a, b) v
  done;
  let hf (a : nat) (b : nat) =
    let k = (int_of_nat a, int_of_nat b) in
    match Hashtbl.find_opt tbl k with
    | Some v -> v
    | None -> failwith (Printf.sprintf "h(%d,%d) not supplied" (fst k) (snd k)) in
  let one = z_of_hex "1" in
  let ps = List.map (fun p -> plaq_of_arrays [] (List.map fst p) (List.map (fun ed -> snd ed = one) p)) plaqs in
  let nE = nat_of_int (List.length ep) in
  out "conn" (s_bool (fs_connected_b ep (nat_of_int (List.length ps))));
  List.iteri (fun i (a, b) ->
      let key = "apath" ^ string_of_int i in
      match as_path (fsl_adj ps ep) hf a b true nE with
      | AS_Path (ns, es, mg) ->
        out key (sp [ "P"; (match mg with None -> "N" | Some m -> s_z m); s_list s_nat ns; s_list s_nat es ])
      | AS_PathFindingError _ -> out key "E"
      | AS_Crash -> out key "C") caps;
  let pick = fs_replay_pick caps and nearest = fs_replay_nearest caps in
  let r = fs_solve_astar (conv = 1) ps ep hf pick nearest target guess in
  (match r with
   | FS_Ok b -> out "res" ("OK " ^ s_list s_z b)
   | FS_LeftoverError -> out "res" "LEFTOVER"
   | FS_MismatchError -> out "res" "MISMATCH"
   | FS_PathError -> out "res" "PATHERR");
  (match fs_find_boundary ep with
   | None -> out "boundary" "N"
   | Some (e0, q0) -> out "boundary" (s_nat e0 ^ " " ^ s_nat q0));
  (match r with
   | FS_Ok b ->
     let flux = if conv = 0 then fs_fluxes_ujk (fsl_plaqs ps) else fs_fluxes_bonds (fsl_plaqs ps) in
     (match fs_complete_open flux ep (fsl_path ps ep hf nE) target b with
      | None -> out "complete" "N"
      | Some u -> out "complete" (s_list s_z u))
   | _ -> out "complete" "N")

let () =
  iter_lines (fun line ->
      let c = cursor_of_line line in
      let cmd = next c in
      (try
         (match cmd with
          | "solve" -> cmd_solve c
          | "ansatz" -> cmd_ansatz c
          | "wf" -> cmd_wf c
          | "greedy" -> cmd_greedy c
          | "e2e" -> cmd_e2e c
          | _ -> out "error" ("unknown command " ^ cmd))
       with Failure m -> out "error" m);
      print_endline "end")
