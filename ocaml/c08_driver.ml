(* c08_driver.ml — runs the extracted Bloch-Hamiltonian model.
   Commands (integers hex, counts decimal):
     hk  n nE j k.. nC cx cy.. 3 J0 J1 J2 col(0 | 1 nE c..) nU u.. qa qb
         -> "hk": n*n Gaussian integers (re im), row-major = 2*scaleJ*H(k), k = (pi/2)(qa,qb)
     ham n nE j k.. 3 J.. col nU u..          -> "ham": 2*scaleJ*majorana_hamiltonian
     helpers S nK (nS e..).. n_states        -> gs (num den), gap, gaps
     kgrid nkx nky                           -> grid points (units of 2 pi) as num den num den *)
open Model
open Hexio

let out k v = print_string k; print_char ' '; print_endline v
let s_zpair (a, b) = s_z a ^ " " ^ s_z b
let s_q (q : q) = s_z q.qnum ^ " " ^ s_z (Zpos q.qden)
let s_oq o = match o with None -> "N N" | Some q -> s_q q

let read_col c = if next_int c = 0 then None else Some (next_list c next_z)

let s_matrix m = sp (List.map (fun row -> sp (List.map s_zpair row)) m)

let cmd_hk c =
  let n = next_z c in
  let es = next_list c next_zpair in
  let cr = next_list c next_zpair in
  let j = next_list c next_z in
  let col = read_col c in
  let u = next_list c next_z in
  let qa = next_z c in let qb = next_z c in
  out "hk" (s_matrix (matrix_of n (hk_gauss es cr j col u qa qb)))

let cmd_ham c =
  let n = next_z c in
  let es = next_list c next_zpair in
  let j = next_list c next_z in
  let col = read_col c in
  let u = next_list c next_z in
  out "ham" (s_matrix (matrix_of n (ham_gauss es j col u)))

let cmd_helpers c =
  let s = next_z c in
  let sp_ = (match s with Zpos p -> p | _ -> failwith "scale must be positive") in
  let spectra = next_list c (fun c -> next_list c (fun c -> { qnum = next_z c; qden = sp_ })) in
  let n_states = next_z c in
  out "gs" (s_q (ground_state_per_site spectra n_states));
  out "gap" (s_oq (gap_size spectra));
  out "gaps" (s_list s_oq (gaps spectra))

let cmd_kgrid c =
  let a = next_z c in let b = next_z c in
  out "kgrid" (s_list (fun (x, y) -> s_q x ^ " " ^ s_q y) (k_grid a b))

let () =
  iter_lines (fun line ->
      let c = cursor_of_line line in
      let cmd = next c in
      (try
         (match cmd with
          | "hk" -> cmd_hk c
          | "ham" -> cmd_ham c
          | "helpers" -> cmd_helpers c
          | "kgrid" -> cmd_kgrid c
          | _ -> out "error" ("unknown command " ^ cmd))
       with Failure m -> out "error" m);
      print_endline "end")
