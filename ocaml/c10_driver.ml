(* c10_driver.ml — runs the extracted tiling / example-generator model.
   Commands (one case per line; integers hex, counts and nat decimal):
     helpers a b n sx sy                      -> the four translated scalar helpers
     tile <cell> nx ny                        -> tile_unit_cell   (<cell> = S nP x y.. nE j k.. nC cx cy..)
     gen <name> args..                        -> model lattice (+ colouring) of a generator
     genpos <name> n <S nP x y..>             -> generators whose positions come from the implementation
     spec <lattice> d nC (k c)..              -> closed_tiling / open_census / degrees on given arrays
     proper nv nE j k.. nCol c..              -> proper_coloring
     flux <lattice> nU u..                    -> fluxes of all plaquettes for bond variables u
     fixture i                                -> the i-th fixed fixture graph translated from the source (Gen/FixturesGen.v) *)
open Model
open Hexio

let out k v = print_string k; print_char ' '; print_endline v
let s_zpair (a, b) = s_z a ^ " " ^ s_z b
let z_of_int (n : int) : z = z_of_hex (if n >= 0 then Printf.sprintf "%x" n else "-" ^ Printf.sprintf "%x" (-n))

let read_zl c : zlattice =
  let sc = next_z c in
  let ps = next_list c next_zpair in
  let es = next_list c next_zpair in
  let cr = next_list c next_zpair in
  { z_scale = sc; z_pos = ps; z_edges = es; z_crossing = cr }

let read_cell c : unit_cell =
  let sc = next_z c in
  let ps = next_list c next_zpair in
  let es = next_list c next_zpair in
  let cr = next_list c next_zpair in
  { uc_scale = sc; uc_points = ps; uc_edges = es; uc_crossing = cr }

let out_zl (l : zlattice) =
  out "scale" (s_z l.z_scale);
  out "pos" (s_list s_zpair l.z_pos);
  out "edges" (s_list s_zpair l.z_edges);
  out "crossing" (s_list s_zpair l.z_crossing)

let cmd_helpers c =
  let a = next_z c in let b = next_z c in let n = next_z c in
  let sh = next_zpair c in
  out "ncn" (s_z (py_next_cell_number a b n sh));
  out "cr" (s_zpair (py_crossing a b n sh));
  out "hnd" (s_z (honeycomb_next_direction a b n sh));
  out "hso" (s_z (hso_next_direction a n sh))

let cmd_tile c =
  let cell = read_cell c in
  let nx = next_z c in let ny = next_z c in
  out "wf" (s_bool (wf_cell cell));
  out "sites" (s_list s_zpair (tile_sites cell nx ny));
  out_zl (tile_unit_cell cell nx ny)

let cmd_gen c =
  let name = next c in
  match name with
  | "honeycomb" -> let n = next_z c in
    out "nv" (s_z (honeycomb_nv n)); out_zl (honeycomb n);
    out "col" (s_list s_z (honeycomb_coloring n));
    out "ujk" (s_list s_z (make_honeycomb_ujk n))
  | "hso" -> let n = next_z c in out_zl (hex_square_oct n)
  | "tri_non" -> let nx = next_z c in let ny = next_z c in
    out_zl (tri_non nx ny); out "col" (s_list s_z (tri_non_coloring nx ny))
  | "square" -> let nx = next_z c in let ny = next_z c in out_zl (square nx ny)
  | "ladder" -> let n = next_z c in out_zl (n_ladder_straight n)
  | _ -> out "error" ("unknown generator " ^ name)

let cmd_genpos c =
  let name = next c in
  let n = next_z c in
  let s = next_z c in
  let ps = next_list c next_zpair in
  match name with
  | "single_plaquette" -> out_zl (single_plaquette s ps n)
  | "higher_coordination" -> out_zl (higher_coordination s ps n)
  | "ladder" -> out_zl (n_ladder s ps n)
  | _ -> out "error" ("unknown generator " ^ name)

let cmd_spec c =
  let l = to_lattice (read_zl c) in
  let d = next_nat c in
  let census = next_list c next_natpair in
  out "wf" (s_bool (wf_lattice l));
  out "closed" (s_bool (closed_tiling l census));
  out "open" (s_bool (open_census l census));
  out "degree" (s_bool (all_degree l d));
  out "coord" (s_list s_nat (coordination l));
  (match find_all_plaquettes l with
   | None -> out "plaquettes" "ERR"
   | Some ps ->
     out "plaquettes" (string_of_int (List.length ps));
     out "sides" (s_list (fun p -> s_nat (n_sides p)) ps);
     out "areas2" (s_list (fun p -> s_z p.p_area2) ps);
     out "area2sum" (s_z (area2_sum ps));
     out "twosided" (s_bool (two_sided l ps)))

let cmd_proper c =
  let nv = next_z c in
  let es = next_list c next_zpair in
  let col = next_list c next_z in
  out "proper" (s_bool (proper_coloring nv es col));
  out "degrees" (s_list s_z (List.init (int_of_nat (Z.to_nat nv)) (fun v -> zdegree es (z_of_int v))))

let cmd_flux c =
  let l = to_lattice (read_zl c) in
  let u = next_list c next_z in
  match find_all_plaquettes l with
  | None -> out "flux" "ERR"
  | Some ps -> out "flux" (s_list (fun p -> s_z (flux_of u p)) ps)

let cmd_fixture c =
  let i = next_z c in
  match fixture_by_id i with
  | None -> out "error" "unknown fixture"
  | Some f ->
    out_zl f.fx_lat;
    out "col" (s_list s_z f.fx_col);
    out "ujk" (s_list s_z f.fx_ujk);
    out "pos_from_impl" (s_bool f.fx_pos_from_impl)

let cmd_ok c =
  let name = next c in
  match name with
  | "honeycomb" -> let n = next_z c in out "ok" (s_bool (honeycomb_ok n)); out "flux_ok" (s_bool (honeycomb_flux_sector_ok n))
  | "hso" -> let n = next_z c in out "ok" (s_bool (hso_ok n))
  | "tri_non" -> let nx = next_z c in let ny = next_z c in out "ok" (s_bool (tri_non_ok nx ny))
  | "square" -> let nx = next_z c in let ny = next_z c in out "ok" (s_bool (square_ok nx ny))
  | "ladder" -> let n = next_z c in out "ok" (s_bool (ladder_ok n))
  | _ -> out "error" ("unknown generator " ^ name)

let () =
  iter_lines (fun line ->
      let c = cursor_of_line line in
      let cmd = next c in
      (try
         (match cmd with
          | "helpers" -> cmd_helpers c
          | "tile" -> cmd_tile c
          | "gen" -> cmd_gen c
          | "genpos" -> cmd_genpos c
          | "spec" -> cmd_spec c
          | "proper" -> cmd_proper c
          | "flux" -> cmd_flux c
          | "ok" -> cmd_ok c
          | "fixture" -> cmd_fixture c
          | _ -> out "error" ("unknown command " ^ cmd))
       with Failure m -> out "error" m);
      print_endline "end")
