(* c15_driver.ml — runs the extracted effect analysis (Model/Effects.v) on the generated IR
   (Gen/EffectsIR.v).  Input lines:
     all                       -> one line "entry <kind> <findex> <0|1>" per public / extra / escaping entry
     mask <findex> <b0> <b1>.. -> "verdict <0|1>"   (analysis with exactly these formals tainted)
     written <findex>          -> "written i j ..." (single formals that may be written)
   every answer is terminated by "end". *)
open Model
open Hexio

let b2s b = if b then "1" else "0"
let emit kind l =
  List.iter (fun e -> Printf.printf "entry_%s_%d %s\n" kind (int_of_nat (fst e)) (b2s (no_arg_write_entry prog e))) l

let () =
  try
    while true do
      let line = input_line stdin in
      let toks = List.filter (fun s -> s <> "") (String.split_on_char ' ' line) in
      (match toks with
       | ["all"] ->
         emit "public" public_functions; emit "extra" public_extra; emit "escaping" escaping_functions
       | "mask" :: f :: bits ->
         let m = List.map (fun s -> s = "1") bits in
         Printf.printf "verdict %s\n" (b2s (no_arg_write_mask prog (nat_of_int (int_of_string f)) m))
       | ["written"; f] ->
         let ws = written_params prog (nat_of_int (int_of_string f)) in
         Printf.printf "written %s\n" (String.concat " " (List.map (fun n -> string_of_int (int_of_nat n)) ws))
       | _ -> Printf.printf "error bad-command\n");
      print_endline "end"
    done
  with End_of_file -> ()
