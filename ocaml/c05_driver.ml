(* c05_driver.ml — runs the extracted flux model (coq/Model/Flux.v).
   Input lines (lattice as in lat_driver.ml):
     flux  <lattice> <nP> { <verts> <edges> <dirs> }*  <nU> { <u> }*
           (the plaquettes are the IMPLEMENTATION's; lists are "<n> x1 .. xn", dirs 1/0, u hex)
     moves <lattice> <u>
     all   <lattice>           every u in {-1,+1}^E, u_n[k] = 1 - 2*bit_k(n), on the model's plaquettes
   Output: "key tokens..." lines followed by "end". *)
open Model
open Hexio

let read_lattice c : lattice =
  let sc = next_z c in
  let ps = next_list c next_zpair in
  let es = next_list c next_natpair in
  let cr = next_list c next_zpair in
  { scale = sc; pos = ps; edges = es; crossing = cr }

let out k v = print_string k; print_char ' '; print_endline v
let s_zpair (a, b) = s_z a ^ " " ^ s_z b

let read_plaq c : plaquette =
  let vs = next_list c next_nat in
  let es = next_list c next_nat in
  let ds = next_list c next_bool in
  plaq_of_arrays vs es ds

let cmd_flux c =
  let l = read_lattice c in
  let ips = next_list c read_plaq in
  let us = next_list c (fun c -> next_list c next_z) in
  out "wf" (s_bool (wf_lattice l));
  out "noloops" (s_bool (no_self_loops l));
  let mps = find_all_plaquettes l in
  (match mps with None -> out "mp" "ERR" | Some ps -> out "mp" (string_of_int (List.length ps)));
  out "icons" (s_list (fun p -> s_bool (plaq_consistent l p)) ips);
  out "inodup" (s_list (fun p -> s_bool (nodupb p.p_edges)) ips);
  (* darts_cover is quadratic in the number of edges on unary indices: evaluated up to 400 edges *)
  out "icover" (if List.length l.edges > 400 then "skip" else s_bool (darts_cover l ips));
  List.iteri (fun i u ->
      let k = string_of_int i in
      out ("pm" ^ k) (s_bool (all_pm1 u));
      (match mps with
       | None -> ()
       | Some ps ->
         out ("mr" ^ k) (s_list s_z (fluxes_real u ps));
         out ("mc" ^ k) (s_list s_zpair (fluxes_cplx u ps)));
      let ir = fluxes_real u ips in
      out ("ir" ^ k) (s_list s_z ir);
      out ("ic" ^ k) (s_list s_zpair (fluxes_cplx u ips));
      out ("is" ^ k) (s_list (fun p -> s_z (flux_spec u (plaq_darts p))) ips);
      out ("lab" ^ k) (s_list s_z (fluxes_to_labels ir))) us

let cmd_moves c =
  let l = read_lattice c in
  let u = next_list c next_z in
  let nv = List.length l.pos and ne = List.length l.edges in
  out "gauge" (s_list (fun v -> s_list s_z (gauge l (nat_of_int v) u)) (List.init nv (fun v -> v)));
  out "flip" (s_list (fun e -> s_list s_z (flip_at (nat_of_int e) u)) (List.init ne (fun e -> e)))

let one = Zpos XH
let mone = Zneg XH

let code_real x = if x = one then 0 else if x = mone then 1 else -1
let code_cplx (a, b) =
  if a = one && b = Z0 then 0 else if a = Z0 && b = one then 1
  else if a = mone && b = Z0 then 2 else if a = Z0 && b = mone then 3 else -1

let cmd_all c =
  let l = read_lattice c in
  let ne = List.length l.edges in
  if ne > 16 then failwith "all: too many edges" else
  match find_all_plaquettes l with
  | None -> out "mp" "ERR"
  | Some ps ->
    out "mp" (string_of_int (List.length ps));
    let buf = Buffer.create (1 lsl 16) in
    for n = 0 to (1 lsl ne) - 1 do
      let u = List.init ne (fun k -> if (n lsr k) land 1 = 1 then mone else one) in
      let fr = fluxes_real u ps and fc = fluxes_cplx u ps in
      if n > 0 then Buffer.add_char buf ' ';
      (match ps with [] -> Buffer.add_char buf '-' | _ -> ());
      List.iter2 (fun r cz ->
          let a = code_real r and b = code_cplx cz in
          if a < 0 || b < 0 then Buffer.add_char buf 'X'
          else Buffer.add_char buf (Char.chr (97 + 4 * a + b))) fr fc
    done;
    out "all" (Buffer.contents buf)

let () =
  iter_lines (fun line ->
      let c = cursor_of_line line in
      let cmd = next c in
      (try
         (match cmd with
          | "flux" -> cmd_flux c
          | "moves" -> cmd_moves c
          | "all" -> cmd_all c
          | _ -> out "error" ("unknown command " ^ cmd))
       with Failure m -> out "error" m);
      print_endline "end")
