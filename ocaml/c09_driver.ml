(* c09_driver.ml — runs the extracted pickling/equality model (coq/Model/Pickle.v).
   Lattice on the wire (integers hex, counts decimal):
     <scale> <nV> {x y}* <f32|f64> <nE> {j k}* <idtype> <nC> {cx cy}* <idtype> <cachebits 4 chars>
   positions are x/scale, y/scale.
   Commands:
     gs  LAT            getstate, setstate(getstate), eq both ways with the restored lattice
     eq  LAT LAT        lat_eq both ways, py_ne, and the pre-8051f8a variant
     r32 <n> {num den}* float32 rounding of rationals
     dt  <nv>           index dtype selected for nv vertices
   Output: "key tokens..." lines followed by "end". *)
open Model
open Hexio

let out k v = print_string k; print_char ' '; print_endline v

let pos_of_z (x : z) : positive = match x with Zpos p -> p | _ -> failwith "positive expected"
let next_pos c = pos_of_z (next_z c)

let idt_of_string s = match s with
  | "u8" -> U8 | "u16" -> U16 | "u32" -> U32 | "u64" -> U64 | "i8" -> I8 | "i64" -> I64
  | _ -> failwith ("unknown integer dtype " ^ s)
let s_idt d = match d with U8 -> "u8" | U16 -> "u16" | U32 -> "u32" | U64 -> "u64" | I8 -> "i8" | I64 -> "i64"
let fdt_of_string s = match s with "f32" -> F32 | "f64" -> F64 | _ -> failwith ("unknown float dtype " ^ s)
let s_fdt d = match d with F32 -> "f32" | F64 -> "f64"

let read_lat c : lat =
  let sc = next_pos c in
  let ps = next_list c (fun c -> let (x, y) = next_zpair c in ({ qnum = x; qden = sc }, { qnum = y; qden = sc })) in
  let pd = fdt_of_string (next c) in
  let es = next_list c next_zpair in
  let ed = idt_of_string (next c) in
  let cr = next_list c next_zpair in
  let cd = idt_of_string (next c) in
  let cb = next c in
  let b i = String.length cb > i && cb.[i] = '1' in
  { l_pos = ps; l_pos_dt = pd; l_idx = es; l_idx_dt = ed; l_cross = cr; l_cross_dt = cd;
    l_cache = { c_plaquettes = b 0; c_n_plaquettes = b 1; c_edges_adjacent_plaquettes = b 2;
                c_vertices_adjacent_plaquettes = b 3 } }

let s_q (q : q) = s_z q.qnum ^ " " ^ hex_of_pos q.qden
let s_qpair (a, b) = s_q a ^ " " ^ s_q b
let s_zpair (a, b) = s_z a ^ " " ^ s_z b
let s_ob o = match o with None -> "R" | Some true -> "1" | Some false -> "0"

let cmd_gs c =
  let l = read_lat c in
  out "wf" (s_bool (wf_lat l));
  (match getstate l with
   | GSTooManyVertices -> out "status" "toomany"
   | GSCrossingRange -> out "status" "crossrange"
   | GSPosOverflow -> out "status" "posoverflow"
   | GSOk t ->
     out "status" "ok";
     out "idt" (s_idt t.s_idx_dt);
     out "idx" (s_list s_zpair t.s_idx);
     out "cdt" (s_idt t.s_cross_dt);
     out "cross" (s_list s_zpair t.s_cross);
     out "pos" (s_list s_qpair t.s_pos);
     let r = setstate (TupleState t) in
     out "rt_dt" (sp [ s_fdt r.l_pos_dt; s_idt r.l_idx_dt; s_idt r.l_cross_dt ]);
     out "rt_idx" (s_list s_zpair r.l_idx);
     out "rt_cross" (s_list s_zpair r.l_cross);
     out "rt_eq" (sp [ s_ob (lat_eq l r); s_ob (lat_eq r l) ]));
  out "eq_other" (sp [ s_ob (py_eq l PyOther); s_ob (py_ne l PyOther) ]);
  out "legacy_eq" (s_ob (lat_eq l (setstate (DictState l))))

let cmd_eq c =
  let a = read_lat c in
  let b = read_lat c in
  out "eq" (sp [ s_ob (py_eq a (PyLattice b)); s_ob (py_eq b (PyLattice a));
                 s_ob (py_ne a (PyLattice b)); s_ob (lat_eq_noshape a b) ])

let cmd_r32 c =
  let xs = next_list c (fun c -> let n = next_z c in let d = next_pos c in { qnum = n; qden = d }) in
  out "r32" (s_list (fun x -> s_bool (f32_overflows x) ^ " " ^ s_q (round32 x)) xs)

let cmd_dt c =
  let nv = next_z c in
  out "dt" (match select_index_dtype nv with None -> "none" | Some d -> s_idt d)

let () =
  iter_lines (fun line ->
      let c = cursor_of_line line in
      let cmd = next c in
      (try
         (match cmd with
          | "gs" -> cmd_gs c
          | "eq" -> cmd_eq c
          | "r32" -> cmd_r32 c
          | "dt" -> cmd_dt c
          | _ -> out "error" ("unknown command " ^ cmd))
       with Failure m -> out "error" m);
      print_endline "end")
