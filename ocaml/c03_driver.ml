(* c03_driver.ml — runs the extracted certificate checkers of Model/Delaunay.v.
   Input line:
     c03 <S> <w> <tolS> <shift 0/1> <N> x y ... <nC> (i ox oy  j ox oy  k ox oy  lox hix loy hiy)...
         <scale> <nV> x y ... <nE> j k ... <nE> cx cy ... <nvt> t ...
     post <shift 0/1> <S> <nP> x y ... <nV> x y ... <nR> a b ... <nR> i j ...
         (Model/VoronoiPost.v: replicated points, vor.vertices, vor.ridge_vertices (hex, -1 = none), vor.ridge_points)
     reindex <nV> x y ... <nOrder> i ... <nE> j k cx cy ...
         (the re-indexing step for a given enumeration of the surviving vertices)
     hyps <same arguments as post>
         (Model/VoronoiPeriodic.post_hyps: pvor_ok and trivalent_ok of the record after the optional shift)
     hypst <same arguments as post>
         (Model/VoronoiPeriodicTol.post_hyps_t: pvor_t_ok and trivalent_ok)
     dual <same arguments as post> <tolS> <N> x y ... <nT> (i ox oy  j ox oy  k ox oy)...
         (Model/VoronoiDual.post_dual_hyp: dual_ok for the seeds (on the scale of the shifted vertices) and one triangle per Voronoi vertex)
   Output: "key tokens" lines then "end". *)
open Model
open Hexio

let read_site c = let i = next_nat c in let o = next_zpair c in (i, o)
let read_tb c =
  let a = read_site c in let b = read_site c in let cc = read_site c in
  let lox = next_z c in let hix = next_z c in let loy = next_z c in let hiy = next_z c in
  (((a, b), cc), (((lox, hix), loy), hiy))
let read_lattice c : lattice =
  let sc = next_z c in
  let ps = next_list c next_zpair in
  let es = next_list c next_natpair in
  let cr = next_list c next_zpair in
  { scale = sc; pos = ps; edges = es; crossing = cr }
let out k v = print_string k; print_char ' '; print_endline v
let z_of_int n = z_of_hex (if n >= 0 then Printf.sprintf "%x" n else "-" ^ Printf.sprintf "%x" (-n))

let first_fail f l =
  let rec go i = function [] -> -1 | x :: r -> if f x then go (i + 1) r else i in go 0 l

let cmd_c03 c =
  let s = next_z c in let w = next_z c in let tols = next_z c in let shift = next_bool c in
  let pts = next_list c next_zpair in
  let cert = next_list c read_tb in
  let lat = read_lattice c in
  let vt = next_list c next_nat in
  let dl = check_delaunay s w pts cert in
  out "delaunay" (s_bool dl);
  if not dl then begin
    out "d_ptsin" (s_bool (pts_in_cell s pts));
    out "d_tri" (string_of_int (first_fail (tri_ok s w pts) cert));
    out "d_paired" (s_bool (sides_paired cert));
    out "d_count" (string_of_int (List.length cert));
    out "d_area2" (s_z (area2_sum s pts cert))
  end;
  out "dense13" (s_bool (dense_ok s (z_of_int 1) (z_of_int 3) pts cert));
  out "dense23" (s_bool (dense_ok s (z_of_int 2) (z_of_int 3) pts cert));
  let du = check_dual s tols shift pts cert lat vt in
  out "dual" (s_bool du);
  if not du then begin
    out "u_wf" (s_bool (wf_lattice lat));
    out "u_nv" (string_of_int (List.length lat.pos) ^ " " ^ string_of_int (List.length cert) ^ " " ^ string_of_int (List.length vt));
    out "u_ne" (string_of_int (List.length lat.edges));
    out "u_incell" (string_of_int (first_fail (fun tb ->
        let ((a, b), cc) = tri_pts s pts (fst tb) in in_cell s (ref_point shift a b cc)) cert));
    out "u_pos" (string_of_int (first_fail (fun (p, t) ->
        let ((a, b), cc) = tri_pts s pts (nth_tri cert t) in pos_close tols p (ref_point shift a b cc))
        (List.combine lat.pos (if List.length vt = List.length lat.pos then vt else List.map (fun _ -> O) lat.pos))));
    (match used_sides cert vt lat.edges lat.crossing with
     | None ->
       (* first edge without a matching side *)
       let rec go i es crs = match es, crs with
         | e :: es', cr :: crs' ->
           (match used_sides cert vt [e] [cr] with None -> i | Some _ -> go (i + 1) es' crs')
         | _, _ -> -1 in
       out "u_edge" (string_of_int (go 0 lat.edges lat.crossing))
     | Some us -> out "u_sides" (s_list (fun (t, sd) -> s_nat t ^ ":" ^ s_nat sd) us))
  end

(* ---- Model/VoronoiPost.v *)
let s_err = function
  | BadRidgeVertex -> "BadRidgeVertex"
  | BadRidgePoints -> "BadRidgePoints"
  | NotThreeRidges v -> "NotThreeRidges " ^ s_nat v
  | NotThreeSeeds v -> "NotThreeSeeds " ^ s_nat v
  | BadOrder -> "BadOrder"
let s_pt (x, y) = s_z x ^ " " ^ s_z y
let s_np (j, k) = s_nat j ^ " " ^ s_nat k
let s_oz = function None -> "N" | Some z -> s_z z
let out_result pre r =
  match r with
  | Err e -> out (pre ^ "err") (s_err e)
  | Ok ((ps, es), cs) ->
    out (pre ^ "positions") (s_list s_pt ps);
    out (pre ^ "edges") (s_list s_np es);
    out (pre ^ "crossing") (s_list s_pt cs)

let cmd_post c =
  let shift = next_bool c in
  let s = next_z c in
  let points = next_list c next_zpair in
  let vs = next_list c next_zpair in
  let rv = next_list c next_zpair in
  let rp = next_list c next_natpair in
  let v = { vertices = vs; ridge_vertices = rv; ridge_points = rp } in
  (* everything before the set enumeration (voronization.py:82-189); the re-indexing step is the `reindex` command *)
  (match post_stages shift s points v with
   | Err e -> out "err" (s_err e)
   | Ok ((s', vs'), (es, ms)) ->
     out "scale" (s_z s');
     if shift then out "verts" (s_list s_pt vs');
     out "pbc" (s_list (fun (jk, cr) -> s_np jk ^ " " ^ s_pt cr) es);
     out "sorted" (s_list s_nat (sorted_nodup (edge_ends es)));
     out "margins" (s_list (fun ((b0, s0), (b1, s1)) -> s_z b0 ^ " " ^ s_oz s0 ^ " " ^ s_z b1 ^ " " ^ s_oz s1) ms))

let cmd_hyps c =
  let shift = next_bool c in
  let s = next_z c in
  let points = next_list c next_zpair in
  let vs = next_list c next_zpair in
  let rv = next_list c next_zpair in
  let rp = next_list c next_natpair in
  let v = { vertices = vs; ridge_vertices = rv; ridge_points = rp } in
  (match post_hyps shift s points v with
   | None -> out "hyps" "N"
   | Some (p, t) -> out "hyps" (s_bool p ^ " " ^ s_bool t))

let cmd_hypst c =
  let shift = next_bool c in
  let s = next_z c in
  let points = next_list c next_zpair in
  let vs = next_list c next_zpair in
  let rv = next_list c next_zpair in
  let rp = next_list c next_natpair in
  let v = { vertices = vs; ridge_vertices = rv; ridge_points = rp } in
  (match post_hyps_t shift s points v with
   | None -> out "hypst" "N"
   | Some (p, t) -> out "hypst" (s_bool p ^ " " ^ s_bool t))

let cmd_dual c =
  let shift = next_bool c in
  let s = next_z c in
  let points = next_list c next_zpair in
  let vs = next_list c next_zpair in
  let rv = next_list c next_zpair in
  let rp = next_list c next_natpair in
  let v = { vertices = vs; ridge_vertices = rv; ridge_points = rp } in
  let tols = next_z c in
  let pts = next_list c next_zpair in
  let tt = next_list c (fun c -> let a = read_site c in let b = read_site c in let cc = read_site c in ((a, b), cc)) in
  (match post_dual_hyp shift s tols points pts v tt with
   | None -> out "dual" "N"
   | Some b -> out "dual" (s_bool b))

let cmd_reindex c =
  let vs = next_list c next_zpair in
  let order = next_list c next_nat in
  let es = next_list c (fun c -> let jk = next_natpair c in let cr = next_zpair c in (jk, cr)) in
  out_result "" (reindex vs order es)

let cmd_replicate c =
  let s = next_z c in
  let pts = next_list c next_zpair in
  let pad = padding_of (nat_of_int (List.length pts)) in
  out "padding" (s_z pad);
  out "points" (s_list s_pt (generate_point_array s pts pad))

let () =
  iter_lines (fun line ->
      let c = cursor_of_line line in
      let cmd = next c in
      (try
         (match cmd with
          | "c03" -> cmd_c03 c
          | "post" -> cmd_post c
          | "reindex" -> cmd_reindex c
          | "hyps" -> cmd_hyps c
          | "hypst" -> cmd_hypst c
          | "dual" -> cmd_dual c
          | "replicate" -> cmd_replicate c
          | _ -> out "error" ("unknown command " ^ cmd))
       with Failure m -> out "error" m);
      print_endline "end")
