(* c01s_driver.ml — runs the extracted, proved spec checker spec_c01n (coq/Model/SpecC01.v) on the
   IMPLEMENTATION's plaquette list.
   Input line:  spec <lattice as for lat_driver> <nP> { <n_sides> <n> v.. <n> e.. <n> d.. }*
   Output:      good b | verdict b | g1 b | first N|i | checks b.. | nsides b | item N|i   then "end".
   verdict is spec_c01n itself; first/checks/item only explain a rejection (replay message):
   first = index of the first failing sub-check of spec_checks, item = first reported plaquette (or, for
   sub-check 9, first model face) failing that sub-check. *)
open Model
open Hexio

let read_lattice c : lattice =
  let sc = next_z c in
  let ps = next_list c next_zpair in
  let es = next_list c next_natpair in
  let cr = next_list c next_zpair in
  { scale = sc; pos = ps; edges = es; crossing = cr }

let out k v = print_string k; print_char ' '; print_endline v

let read_plaq c =
  let n = next_nat c in
  let vs = next_list c next_nat in
  let es = next_list c next_nat in
  let ds = next_list c next_bool in
  (n, ((vs, es), ds))

let first_index (f : 'a -> bool) (l : 'a list) : string =
  let rec go i = function [] -> "N" | x :: r -> if f x then go (i + 1) r else string_of_int i in
  go 0 l

let cmd_spec c =
  let l = read_lattice c in
  let pn = next_list c read_plaq in
  let p = List.map snd pn in
  out "good" (s_bool (good_b l));
  out "verdict" (s_bool (spec_c01n l pn));
  out "g1" (s_bool (g1_holds l));
  let ff = spec_c01_first_fail l p in
  out "first" (s_onat ff);
  out "checks" (sp (List.map s_bool (spec_checks l p)));
  out "nsides" (first_index (fun (n, ((_, es), _)) -> int_of_nat n = List.length es) pn);
  let item =
    match ff, all_faces l with
    | Some k, Some fs ->
      (match int_of_nat k with
       | 1 -> first_index t_len_ok p
       | 2 -> first_index (t_walk_ok l) p
       | 3 -> first_index (t_is_face fs) p
       | 4 -> first_index (t_nodup fs) p
       | 5 -> first_index (t_netzero fs) p
       | 6 -> first_index (t_area fs) p
       | 7 -> first_index (t_legit fs) p
       | 8 ->
         let rec go i = function
           | [] -> "N"
           | t :: r -> if List.exists (fun t' -> is_rot dart_eqb (tdarts t) (tdarts t')) r then string_of_int i else go (i + 1) r in
         go 0 p
       | 9 -> first_index (fun f -> (not (face_legit f)) || f_reported p f) fs
       | _ -> "N")
    | _ -> "N" in
  out "item" item

let cmd_model c =
  let l = read_lattice c in
  match model_triples l with
  | None -> out "triples" "ERR"
  | Some ts ->
    out "triples" (s_list (fun ((vs, es), ds) -> sp [ s_list s_nat vs; s_list s_nat es; s_list s_bool ds ]) ts)

let () =
  iter_lines (fun line ->
      let c = cursor_of_line line in
      let cmd = next c in
      (try
         (match cmd with
          | "spec" -> cmd_spec c
          | "model" -> cmd_model c
          | _ -> out "error" ("unknown command " ^ cmd))
       with Failure m -> out "error" m);
      print_endline "end")
