"""C02 — all adjacency tables of a lattice agree with its edges and plaquettes; same values whatever
the order of first access; the query helpers agree with the tables.

S  spec_tables(): every clause of the property restated directly on the implementation's arrays
   (exact integer geometry on the dyadic positions; INVALID = np.iinfo(int).max), plus
   "same values in every access history" over the 24 first-access orders (and a few histories with
   repeats) on a fresh and on an unpickled lattice.
K  extracted Gallina model (Model/Lattice.v tables, Model/Queries.v, Model/Cache.v state machine run on
   the same histories) against the implementation, modulo what the property leaves free (order inside an
   edge-neighbour list, order/width of a vertex->plaquette row)."""
from lib import *  # noqa
import gen, pickle, itertools
from concurrent.futures import ProcessPoolExecutor
from koala.lattice import Lattice, LatticeException
from koala import graph_utils

DRIVERS = ("c02",)
MODEL_TARGETS = ["Model/Lattice.vo", "Model/TableSpec.vo", "Model/Cache.vo", "Model/Queries.vo"]
TARGETS = ["Proofs/TablesFacts.vo", "Proofs/SortFacts.vo", "Proofs/PlaqTablesFacts.vo", "Proofs/CacheFacts.vo", "Proofs/QueriesFacts.vo",
           "Proofs/CycListFacts.vo", "Proofs/CyclicFacts.vo", "Proofs/SweepShapeFacts.vo",
           "Proofs/LatticeFacts.vo", "Proofs/PlaqListOk.vo"]
LEVEL = "proof"
TRUST = [
    "hand-written Gallina models coq/Model/Lattice.v (tables), coq/Model/Cache.v (cached_property state machine) and coq/Model/Queries.v (graph_utils helpers): modelled, not verified; tied to the code by the correspondence run (every table, every query, every access history, fresh and unpickled)",
    "functools.cached_property and pickle mechanics are assumed to behave as the state machine says (exercised on the implementation for all 24 first-access orders and histories with repeats)",
    "float arctan2 ordering of the implementation is compared with the exact comparators; inputs whose smallest angular margin is < 1e-9 (fresh) / < 1e-5 (unpickled: float32 positions) are counted and skipped (genericity clause)",
    "the hypothesis 'no dart lies in two plaquettes' of the plaquette-table theorems is C01's sweep_partition; it is checked on every implementation output by S (key dart-twice)",
]
ASSUMPTIONS = ["lattices of C01's input space: indices in range, no self-loops, generic vertex positions",
               "plaquette-table theorems: no directed edge lies in two plaquettes (C01), plaquette walks are closed walks without a repeated edge"]

MODEL_MAX_V = 300      # the extracted model (unary nat, lists) is quadratic; larger lattices get S only (counted)
OPS = ["plaquettes", "n_plaquettes", "edges.adjacent_plaquettes", "vertices.adjacent_plaquettes"]
ALL_ORDERS = [list(p) for p in itertools.permutations(range(4))]


# ------------------------------------------------------------------ cases
def build_case(c):
    """own families on top of gen.build: extra isolated vertices appended after the last index"""
    if c["family"] == "append_isolated":
        arr, why = build_case(c["base"])
        if arr is None:
            return None, why
        p, e, cr = arr
        rng = np.random.default_rng([c["seed"], len(p)])
        extra = rng.uniform(0.05, 0.95, size=(c["k"], 2))
        return (np.vstack([p.reshape(-1, 2), extra]), e, cr), None
    return gen.try_build(c)


def own_cases(tier):
    """inputs the quantifier names explicitly"""
    out = [
        # the witness of the fixed defect 6a0729e: triangle + isolated vertex 3 (highest index)
        {"family": "raw", "positions": [[0.2, 0.2], [0.8, 0.25], [0.45, 0.8], [0.6, 0.5]], "edges": [[0, 1], [1, 2], [2, 0]],
         "crossing": [[0, 0], [0, 0], [0, 0]]},
        # two isolated highest vertices, an isolated vertex in the middle, a dangling edge
        {"family": "raw", "positions": [[0.1, 0.1], [0.5, 0.15], [0.3, 0.5], [0.7, 0.7], [0.9, 0.3], [0.6, 0.9], [0.15, 0.85]],
         "edges": [[0, 1], [1, 2], [2, 0], [1, 4]], "crossing": [[0, 0]] * 4},
        # no edges at all
        {"family": "raw", "positions": [[0.3, 0.3], [0.6, 0.7], [0.8, 0.2]], "edges": [], "crossing": []},
        # single dangling edge crossing the boundary
        {"family": "raw", "positions": [[0.9, 0.5], [0.1, 0.55], [0.5, 0.1]], "edges": [[0, 1]], "crossing": [[1, 0]]},
    ]
    for n in ([3, 5, 8, 11, 12] if tier == "quick" else [3, 4, 5, 6, 7, 8, 9, 10, 11, 12, 13, 16]):
        b = {"family": "example", "name": "higher_coordination_number_example", "args": [n]}
        out.append({"family": "append_isolated", "base": b, "k": 1 + n % 3, "seed": n})
        out.append({"family": "dual", "base": b})
    for n in [2, 3]:
        b = {"family": "example", "name": "honeycomb_lattice", "args": [n]}
        out.append({"family": "append_isolated", "base": {"family": "cut", "base": b, "cut": [True, False]}, "k": 2, "seed": n})
        out.append({"family": "append_isolated", "base": {"family": "dual", "base": b}, "k": 1, "seed": n})
    return out


# ------------------------------------------------------------------ implementation observation
def inv(x):
    x = int(x)
    return None if x == INVALID else x


def observe(lat, op):
    """first (or later) access of one lazily cached attribute, canonical JSON-able value"""
    if op == 0:
        return [[[int(x) for x in p.vertices], [int(x) for x in p.edges], [int(x) for x in p.directions],
                 [inv(x) for x in p.adjacent_plaquettes], int(p.n_sides)] for p in lat.plaquettes]
    if op == 1:
        return int(lat.n_plaquettes)
    if op == 2:
        a = lat.edges.adjacent_plaquettes
        return [str(a.shape)] + [[inv(x) for x in row] for row in a]
    a = lat.vertices.adjacent_plaquettes
    return [str(a.shape)] + [[inv(x) for x in row] for row in a]


def make_lattice(arr, variant):
    pos, edges, crossing = arr
    lat = Lattice(*layout_variant(pos, edges, crossing)[:3])
    if variant == "unpickled":
        lat = pickle.loads(pickle.dumps(lat))
    return lat


def run_history(arr, variant, ops):
    lat = make_lattice(arr, variant)
    vals = []
    for o in ops:
        try:
            vals.append(observe(lat, o))
        except Exception as e:  # any exception is itself an observable value
            vals.append({"raised": type(e).__name__, "msg": str(e)[:200]})
    return lat, vals


def full_report(lat, have_plaq=True):
    """constructor tables, adjacency matrix and the query helpers (after the cached attributes exist)"""
    r = {}
    r["vectors"] = np.asarray(lat.edges.vectors, dtype=float).reshape(-1, 2)
    r["adj"] = [[int(e) for e in row] for row in lat.vertices.adjacent_edges]
    r["coord"] = [int(x) for x in lat.vertices.coordination_numbers]
    r["edge_nb"] = [[int(e) for e in row] for row in lat.edges.adjacent_edges]
    r["adjm"] = np.asarray(lat.adjacency_matrix)
    r["q_vn"], r["q_cw"], r["q_ev"] = [], [], []
    for v in range(lat.n_vertices):
        vs, es = graph_utils.vertex_neighbours(lat, v)
        r["q_vn"].append(([int(x) for x in vs], [int(x) for x in es]))
        cv, ce = graph_utils.clockwise_about(v, lat)       # also for isolated vertices (empty answers)
        r["q_cw"].append(([int(x) for x in cv], [int(x) for x in ce]))
        r["q_ev"].append(np.asarray(graph_utils.get_edge_vectors(v, es, lat), dtype=float).reshape(-1, 2))
    r["q_cwe"] = [[int(x) for x in graph_utils.clockwise_edges_about(v, lat)] for v in range(lat.n_vertices)]
    r["q_en"] = [[int(x) for x in graph_utils.edge_neighbours(lat, e)] for e in range(lat.n_edges)]
    r["q_ap"] = []
    for i in range(len(lat.plaquettes) if have_plaq else 0):
        a, b = graph_utils.adjacent_plaquettes(lat, i)
        # the helper returns two parallel 1-d sequences (plaquettes, shared edges) that its callers zip; a 0-d result for a
        # plaquette with exactly one neighbour is not "the plaquettes adjacent to a plaquette" as a sequence
        r.setdefault("q_ap_shape_bad", [])
        if np.ndim(a) != 1 or np.ndim(b) != 1 or np.shape(a) != np.shape(b):
            r["q_ap_shape_bad"].append((i, np.shape(a), np.shape(b)))
        r["q_ap"].append(([int(x) for x in np.atleast_1d(a)], [int(x) for x in np.atleast_1d(b)]))
    return r


# ------------------------------------------------------------------ S: the property on the implementation's arrays
def cw_before(a, b):
    """a strictly before b going clockwise from just after 12 o'clock (12 o'clock itself last); exact ints"""
    def h(v):
        return 0 if (v[0] > 0 or (v[0] == 0 and v[1] < 0)) else 1
    ha, hb = h(a), h(b)
    if ha != hb:
        return ha < hb
    return a[0] * b[1] - a[1] * b[0] < 0


def is_rotation(a, b):
    if len(a) != len(b):
        return False
    if not a:
        return True
    return any(a[i:] + a[:i] == b for i in range(len(a)))


def spec_tables(P, S, edges, crossing, vals, R, tolv):
    """P: integer positions (scaled by S).  vals: values of the four cached attributes.  R: full_report.
    Returns list of (key, what)."""
    bad = []
    nV, nE = len(P), len(edges)
    E = [(int(j), int(k)) for j, k in edges]
    C = [(int(a), int(b)) for a, b in crossing]
    evec = [(P[k][0] - P[j][0] + S * C[e][0], P[k][1] - P[j][1] + S * C[e][1]) for e, (j, k) in enumerate(E)]
    inc = [[] for _ in range(nV)]
    for e, (j, k) in enumerate(E):
        inc[j].append(e)
        if k != j:
            inc[k].append(e)

    def out(v, e):
        return evec[e] if E[e][0] == v else (-evec[e][0], -evec[e][1])

    # incident-edge lists: complete, clockwise from just after 12 o'clock
    if len(R["adj"]) != nV:
        bad.append(("adjacent-edges-length", f"vertices.adjacent_edges has {len(R['adj'])} rows for {nV} vertices"))
    for v in range(min(nV, len(R["adj"]))):
        row = R["adj"][v]
        if sorted(row) != inc[v]:
            bad.append(("adjacent-edges-incomplete", f"vertex {v}: adjacent_edges {row} but incident edges are {inc[v]}"))
            continue
        for a, b in zip(row, row[1:]):
            if cw_before(out(v, b), out(v, a)):
                bad.append(("adjacent-edges-order", f"vertex {v}: adjacent_edges {row} is not clockwise from 12 o'clock (edge {b} comes before {a})"))
                break
    # coordination numbers: one per vertex, number of edge ends
    ends = [0] * nV
    for j, k in E:
        ends[j] += 1
        ends[k] += 1
    if len(R["coord"]) != nV:
        bad.append(("coordination-length", f"coordination_numbers has length {len(R['coord'])} for {nV} vertices (isolated highest vertex?)"))
    elif R["coord"] != ends:
        v = [i for i in range(nV) if R["coord"][i] != ends[i]][0]
        bad.append(("coordination-count", f"coordination_numbers[{v}] = {R['coord'][v]} but {ends[v]} edge ends"))
    # vectors
    if R["vectors"].shape != (nE, 2):
        bad.append(("vectors", f"edges.vectors has shape {R['vectors'].shape}"))
    elif nE:
        ex = np.array([[x / S, y / S] for x, y in evec])
        if np.max(np.abs(ex - R["vectors"])) > tolv:
            e = int(np.argmax(np.abs(ex - R["vectors"]).max(axis=1)))
            bad.append(("vectors", f"edges.vectors[{e}] = {R['vectors'][e]} but end - start + crossing = {ex[e]}"))
    # edge neighbours: exactly the other edges sharing a vertex
    if len(R["edge_nb"]) != nE:
        bad.append(("edge-neighbours", f"edges.adjacent_edges has {len(R['edge_nb'])} rows for {nE} edges"))
    else:
        for e in range(nE):
            want = sorted({f for v in E[e] for f in inc[v]} - {e})
            if sorted(R["edge_nb"][e]) != want:
                bad.append(("edge-neighbours", f"edge {e}: adjacent_edges {R['edge_nb'][e]} but edges sharing a vertex are {want}"))
                break
    # adjacency matrix
    A = R["adjm"]
    pairs = {(j, k) for j, k in E} | {(k, j) for j, k in E}
    if A.shape != (nV, nV):
        bad.append(("adjacency-matrix", f"shape {A.shape}"))
    else:
        if not np.array_equal(A, A.T):
            bad.append(("adjacency-matrix", "not symmetric"))
        if int(A.sum()) != len(pairs) or any(not A[j, k] for j, k in pairs):
            bad.append(("adjacency-matrix", "True entries are not exactly the joined pairs"))
    # ----- plaquette tables
    pl, npl, ep, vp = vals
    if any(isinstance(x, dict) for x in vals):
        w = [x for x in vals if isinstance(x, dict)][0]
        bad.append(("access-raises", f"accessing a cached attribute raised {w['raised']}: {w['msg']}"))
        pl, npl, ep, vp = [], 0, [str((nE, 2))] + [[None, None]] * nE, [None] + [[]] * nV
        plq_ok = False
    else:
        plq_ok = True
    n = len(pl)
    if npl != n:
        bad.append(("n-plaquettes", f"n_plaquettes = {npl} but len(plaquettes) = {n}"))
    dart_of = {}
    ok_shape = True
    for i, (vs, es, ds, nb, ns) in enumerate(pl):
        if not (len(vs) == len(es) == len(ds)) or any(d not in (1, -1) for d in ds) or any(not (0 <= e < nE) for e in es):
            bad.append(("plaquette-shape", f"plaquette {i} is malformed"))
            ok_shape = False
            continue
        for e, d in zip(es, ds):
            if (e, d) in dart_of:
                bad.append(("dart-twice", f"directed edge {(e, d)} belongs to plaquettes {dart_of[(e, d)]} and {i}"))
            dart_of[(e, d)] = i
    # an edge's two plaquettes: [forwards, backwards], INVALID where none
    if not plq_ok:
        pass
    elif ep[0] != str((nE, 2)):
        bad.append(("edge-sides", f"edges.adjacent_plaquettes has shape {ep[0]}, expected {(nE, 2)}"))
    else:
        for e in range(nE):
            want = [dart_of.get((e, 1)), dart_of.get((e, -1))]
            if ep[1 + e] != want:
                bad.append(("edge-sides", f"edges.adjacent_plaquettes[{e}] = {ep[1 + e]} but the plaquettes traversing it forwards/backwards are {want}"))
                break
    # a vertex's plaquettes: exactly those that contain it, each once
    if plq_ok and len(vp) - 1 != nV:
        bad.append(("vertex-plaquettes", f"vertices.adjacent_plaquettes has {len(vp) - 1} rows for {nV} vertices"))
    elif ok_shape:
        cont = [[] for _ in range(nV)]
        for i, (vs, es, ds, nb, ns) in enumerate(pl):
            for v in sorted(set(vs)):
                cont[v].append(i)
        for v in range(nV):
            got = [x for x in vp[1 + v] if x is not None]
            if sorted(got) != cont[v]:
                bad.append(("vertex-plaquettes", f"vertices.adjacent_plaquettes[{v}] = {vp[1 + v]} but the plaquettes containing it are {cont[v]}"))
                break
    # a plaquette's neighbours: the plaquettes across its edges, in edge order
    if ok_shape:
        for i, (vs, es, ds, nb, ns) in enumerate(pl):
            want = [dart_of.get((e, -d)) for e, d in zip(es, ds)]
            if nb != want:
                bad.append(("plaquette-neighbours", f"plaquettes[{i}].adjacent_plaquettes = {nb} but across its edges {es} lie {want}"))
                break
    # ----- query helpers against the tables
    for v in range(min(nV, len(R["adj"]))):
        vs, es = R["q_vn"][v]
        if sorted(es) != sorted(R["adj"][v]) or len(vs) != len(es):
            bad.append(("query-vertex-neighbours", f"vertex_neighbours({v}) edges {es} but table row {R['adj'][v]}"))
            break
        if any((E[e][1] if E[e][0] == v else E[e][0]) != w for w, e in zip(vs, es)):
            bad.append(("query-vertex-neighbours", f"vertex_neighbours({v}) = {(vs, es)}: vertex i is not the far end of edge i"))
            break
        cv, ce = R["q_cw"][v]
        if ce != R["q_cwe"][v]:
            bad.append(("query-clockwise", f"clockwise_edges_about({v}) differs from clockwise_about({v})[1]"))
            break
        if not is_rotation(ce[::-1], R["adj"][v]):
            bad.append(("query-clockwise", f"clockwise_about({v}) edges {ce} are not the table row {R['adj'][v]} in reverse cyclic order"))
            break
        if any((E[e][1] if E[e][0] == v else E[e][0]) != w for w, e in zip(cv, ce)):
            bad.append(("query-clockwise", f"clockwise_about({v}): vertex i is not the far end of edge i"))
            break
        if len(es):
            ex = np.array([[out(v, e)[0] / S, out(v, e)[1] / S] for e in es])
            if R["q_ev"][v].shape != ex.shape or np.max(np.abs(ex - R["q_ev"][v])) > tolv:
                bad.append(("query-edge-vectors", f"get_edge_vectors({v}, {es}) = {R['q_ev'][v].tolist()} but outward vectors are {ex.tolist()}"))
                break
    if len(R["edge_nb"]) == nE:
        for e in range(nE):
            if sorted(R["q_en"][e]) != sorted(R["edge_nb"][e]):
                bad.append(("query-edge-neighbours", f"edge_neighbours({e}) = {R['q_en'][e]} but edges.adjacent_edges[{e}] = {R['edge_nb'][e]}"))
                break
    if ok_shape:
        for i, (vs, es, ds, nb, ns) in enumerate(pl):
            want = sorted((x, e) for x, e in zip(nb, es) if x is not None)
            got = sorted(zip(*R["q_ap"][i])) if R["q_ap"][i][0] else []
            if got != want:
                bad.append(("query-adjacent-plaquettes", f"adjacent_plaquettes(lattice, {i}) = {R['q_ap'][i]} but the table says {want}"))
                break
        for (i, sa, sb) in R.get("q_ap_shape_bad", [])[:3]:
            bad.append(("query-adjacent-plaquettes-shape", f"adjacent_plaquettes(lattice, {i}) returned arrays of shapes {sa} and {sb}; two parallel 1-d sequences (plaquette, shared edge) are expected"))
    return bad


def exact_margin(P, edges, crossing, S):
    """the genericity margin of lib.angular_margin, computed from the EXACT outward vectors (an unpickled
    lattice computes its vectors in float32, where x = 1.0 - 3e-17 - 1 becomes an exact 0)"""
    nV = len(P)
    outs = [[] for _ in range(nV)]
    for e, (j, k) in enumerate(edges):
        j, k = int(j), int(k)
        v = (P[k][0] - P[j][0] + S * int(crossing[e][0]), P[k][1] - P[j][1] + S * int(crossing[e][1]))
        n = math.hypot(v[0], v[1])
        if n == 0:
            return 0.0
        outs[j].append((v[0] / n, v[1] / n, v))
        outs[k].append((-v[0] / n, -v[1] / n, (-v[0], -v[1])))
    m = 1.0
    for o in outs:
        for x, y, v in o:
            if v[1] > 0 and v[0] != 0:
                m = min(m, abs(x))
        for (ax, ay, a), (bx, by, b) in itertools.combinations(o, 2):
            if a[0] * b[0] + a[1] * b[1] > 0:
                m = min(m, abs(ax * by - ay * bx))
    return m


def beta_margin(P, edges, crossing, S):
    """distance of the outgoing directions from the branch cut of clockwise_about (the positive x axis):
    smallest |y|/|v| over outward vectors with x > 0 and y != 0"""
    m = 1.0
    for e, (j, k) in enumerate(edges):
        v = (P[k][0] - P[j][0] + S * int(crossing[e][0]), P[k][1] - P[j][1] + S * int(crossing[e][1]))
        if v[1] != 0 and v[0] != 0:
            m = min(m, abs(v[1]) / math.hypot(v[0], v[1]))
    return m


# ------------------------------------------------------------------ model side
def parse_value(c):
    t = c.next()
    if t == "P":
        ps = c.list(lambda: (c.list(c.int), c.list(c.int), c.list(lambda: 1 if c.next() == "1" else -1)))
        nbs = c.list(lambda: c.list(c.onat))
        return ("P", ps, nbs)
    if t == "N":
        return ("N", c.int())
    if t == "E":
        return ("E", c.list(lambda: [c.onat(), c.onat()]))
    if t == "V":
        return ("V", c.list(lambda: c.list(c.onat)))
    return (t,)


def parse_model(d, S):
    if "error" in d:
        return {"error": " ".join(d["error"])}
    m = {"wf": d["wf"][0] == "1", "noloops": d["noloops"][0] == "1"}
    c = Cursor(d["vectors"]); m["vectors"] = c.list(lambda: (c.z(), c.z()))
    c = Cursor(d["adj"]); m["adj"] = c.list(lambda: c.list(c.int))
    c = Cursor(d["coord"]); m["coord"] = c.list(c.int)
    c = Cursor(d["edge_nb"]); m["edge_nb"] = c.list(lambda: c.list(c.int))
    if "adjm" in d:
        c = Cursor(d["adjm"]); m["adjm"] = set(c.list(lambda: (c.int(), c.int())))
    c = Cursor(d["q_vn"]); m["q_vn"] = c.list(lambda: (c.list(c.int), c.list(c.int)))
    c = Cursor(d["q_en"]); m["q_en"] = c.list(lambda: c.list(c.int))
    c = Cursor(d["q_cw"]); m["q_cw"] = c.list(lambda: (c.list(c.int), c.list(c.int)))
    c = Cursor(d["q_ev"]); m["q_ev"] = c.list(lambda: c.list(lambda: (c.z(), c.z())))
    m["pure"] = [parse_value(Cursor(d[f"pure{i}"])) for i in range(4)]
    m["hyp"] = (d["hyp"][0] == "1") if "hyp" in d else None
    m["generic"] = int(d["generic"][0])
    if d["q_ap"][0] == "ERR":
        m["q_ap"] = None
    else:
        c = Cursor(d["q_ap"])
        m["q_ap"] = c.list(lambda: None if c.t[c.i] == "ERR" and c.next() else (c.list(c.int), c.list(c.int)))
    m["hist"] = []
    i = 0
    while f"hist{i}" in d:
        m["hist"].append(d[f"hist{i}"])
        i += 1
    return m


def canon_plaquettes(pl):
    """plaquettes [(vs, es, ds, nb, ...)] -> dict canonical dart cycle -> (index, rotated (vs, es, ds, nb)).
    The property fixes neither the order of the plaquette list nor the start dart of a plaquette (C01: a set of
    cyclic walks), so K compares the tables after renaming plaquette indices along the matching of cycles."""
    out = {}
    for i, p in enumerate(pl):
        vs, es, ds, nb = list(p[0]), list(p[1]), list(p[2]), list(p[3])
        darts = list(zip(es, ds))
        r = darts.index(min(darts)) if darts else 0
        rot = lambda x: x[r:] + x[:r]
        out.setdefault(tuple(rot(darts)), []).append((i, (rot(vs), rot(es), rot(ds), rot(nb))))
    return out


def compare_plaquette_values(mp, vals, nV, nE):
    """model pure values (P, N, E, V) against the implementation's four attribute values, modulo a renaming
    of plaquette indices, the start dart of each plaquette, and order/width of a vertex row"""
    diffs = []
    if any(isinstance(v, dict) for v in vals) or mp[0][0] != "P":
        if not (any(isinstance(v, dict) for v in vals) and mp[0][0] != "P"):
            diffs.append((OPS[0], "one side raised, the other did not"))
        return diffs
    mpl = [(vs, es, ds, nb) for (vs, es, ds), nb in zip(mp[0][1], mp[0][2])]
    cm, ci = canon_plaquettes(mpl), canon_plaquettes(vals[0])
    if set(cm) != set(ci) or any(len(v) != 1 for v in cm.values()) or any(len(v) != 1 for v in ci.values()):
        diffs.append((OPS[0], f"plaquette sets differ: model {len(mpl)} impl {len(vals[0])}"))
        return diffs
    sig = {ci[k][0][0]: cm[k][0][0] for k in ci}           # impl index -> model index
    ren = lambda x: None if x is None else sig.get(x, ("?", x))
    for k in ci:
        (i, (vs, es, ds, nb)), (j, (mvs, mes, mds, mnb)) = ci[k][0], cm[k][0]
        if vs != mvs:
            diffs.append((OPS[0], f"plaquette {i}: vertices differ"))
        if [ren(x) for x in nb] != mnb:
            diffs.append(("plaquette.adjacent_plaquettes", f"impl plaquette {i}: {nb} model plaquette {j}: {mnb}"))
    if vals[1] != mp[1][1]:
        diffs.append((OPS[1], f"model {mp[1][1]} impl {vals[1]}"))
    if vals[2][0] != str((nE, 2)) or [[ren(a), ren(b)] for a, b in vals[2][1:]] != [list(r) for r in mp[2][1]]:
        diffs.append((OPS[2], ""))
    key = lambda x: (0, x) if isinstance(x, int) else (1, str(x))
    if [sorted((ren(x) for x in r if x is not None), key=key) for r in vals[3][1:]] != [sorted(x for x in r if x is not None) for r in mp[3][1]]:
        diffs.append((OPS[3], ""))
    return diffs, sig


def compare_model(m, S, vals, R, tolv, beta_ok):
    """K: list of (section, detail) where model and implementation differ"""
    diffs = []
    nV, nE = len(m["coord"]), len(m["vectors"])
    if m["adj"] != R["adj"]:
        bad = [v for v in range(len(R["adj"])) if v >= len(m["adj"]) or m["adj"][v] != R["adj"][v]]
        diffs.append(("adjacent_edges", f"vertices {bad[:5]}"))
    if m["coord"] != R["coord"]:
        diffs.append(("coordination", f"model {m['coord'][:8]} impl {R['coord'][:8]}"))
    if [sorted(r) for r in m["edge_nb"]] != [sorted(r) for r in R["edge_nb"]]:
        diffs.append(("edge_neighbours", ""))
    ve = np.array([[a / S, b / S] for a, b in m["vectors"]]).reshape(-1, 2)
    if ve.shape != R["vectors"].shape or (ve.size and np.max(np.abs(ve - R["vectors"])) > tolv):
        diffs.append(("vectors", ""))
    if "adjm" in m:
        if m["adjm"] != {(int(i), int(j)) for i, j in zip(*np.nonzero(R["adjm"]))}:
            diffs.append(("adjacency_matrix", ""))
    r = compare_plaquette_values(m["pure"], vals, nV, nE)
    sig = None
    if isinstance(r, tuple):
        r, sig = r
    diffs += r
    if [sorted(zip(vs, es)) for vs, es in m["q_vn"]] != [sorted(zip(vs, es)) for vs, es in R["q_vn"]]:
        diffs.append(("vertex_neighbours", ""))
    if [sorted(r) for r in m["q_en"]] != [sorted(r) for r in R["q_en"]]:
        diffs.append(("query edge_neighbours", ""))
    if beta_ok and [tuple(x) for x in m["q_cw"]] != [tuple(x) for x in R["q_cw"]]:
        bad = [v for v in range(nV) if tuple(m["q_cw"][v]) != tuple(R["q_cw"][v])]
        diffs.append(("clockwise_about", f"vertices {bad[:5]}"))
    for v in range(nV):
        a = np.array([[x / S, y / S] for x, y in m["q_ev"][v]]).reshape(-1, 2)
        if a.shape != R["q_ev"][v].shape or (a.size and np.max(np.abs(a - R["q_ev"][v])) > tolv):
            diffs.append(("get_edge_vectors", f"vertex {v}"))
            break
    if m["q_ap"] is not None and sig is not None and not any(d[0] == OPS[0] for d in diffs):
        inv_sig = {v: k for k, v in sig.items()}
        mq = {i: sorted(zip(*x)) if x and x[0] else [] for i, x in enumerate(m["q_ap"])}
        for i, x in enumerate(R["q_ap"]):
            got = sorted((sig.get(a, ("?", a)), e) for a, e in zip(*x)) if x[0] else []
            if got != mq.get(sig[i]):
                diffs.append(("query adjacent_plaquettes", f"impl plaquette {i}"))
                break
    return diffs


# ------------------------------------------------------------------ evaluation
def histories_for(full, idx, rng_seed):
    """operation histories for one lattice: all 24 first-access orders (+ 2 with repeats) or 2 orders"""
    if full:
        rng = np.random.default_rng([rng_seed, idx, 77])
        extra = [[int(x) for x in rng.integers(0, 4, size=int(rng.integers(5, 10)))] for _ in range(2)]
        return ALL_ORDERS + extra
    return [ALL_ORDERS[0], ALL_ORDERS[1 + (idx * 7) % 23]]


def work(item):
    """one (lattice, variant): run every history on the implementation, S, K.  Pure function of item."""
    arr, variant, hists, m, S, case = item["arr"], item["variant"], item["hists"], item["model"], item["S"], item["case"]
    out = {"violations": [], "kmis": [], "skip": None, "stats": {}}
    tolv = 1e-12 if variant == "fresh" else 2e-6
    lat0, vals0 = run_history(arr, variant, [0, 1, 2, 3])
    pos, edges, crossing = item["arr_v"]      # the arrays this lattice object holds (float32-rounded when unpickled)
    P = scaled_ints(pos, S)
    margin = min(angular_margin(lat0), exact_margin(P, edges, crossing, S))
    if margin < (1e-9 if variant == "fresh" else 1e-5):
        out["skip"] = "nongeneric-angular-margin<%s" % ("1e-9" if variant == "fresh" else "1e-5(float32)")
        return out
    # the four attributes, first accessed in the reference order; then every other history
    ref = {o: v for o, v in zip([0, 1, 2, 3], vals0)}
    n_hist = 0
    for hi, ops in enumerate(hists):
        lat, vals = run_history(arr, variant, ops)
        n_hist += 1
        for o, v in zip(ops, vals):
            if v != ref[o]:
                what = (f"{variant} lattice, access history {[OPS[x] for x in ops]}: {OPS[o]} "
                        + (f"raised {v['raised']}: {v['msg']}" if isinstance(v, dict) else "differs from its value under the order " + str(OPS)))
                out["violations"].append(("access-order", what))
                break
        # model's state machine on the same history: every value is the history-free one
        if m is not None and hi < len(m["hist"]) and any(t != "=" for t in m["hist"][hi]):
            out["kmis"].append(f"model cache run returned a history-dependent value on {ops}")
    have_plaq = not any(isinstance(x, dict) for x in vals0)
    if m is not None and m["hyp"] is False:
        out["kmis"].append(f"{variant}: hypothesis plaq_list_ok of the plaquette-table theorems is false on the model's plaquette list")
    try:
        R = full_report(lat0, have_plaq)
    except Exception as e:      # a table or a query helper raised on a valid lattice
        import traceback
        out["violations"].append(("table-or-query-raises", f"{variant}: {type(e).__name__}: {e} @ {traceback.format_exc().strip().splitlines()[-3].strip()[:120]}"))
        out["stats"] = {"hist": n_hist, "coord": [], "npl": 0, "nV": len(pos), "nE": len(edges), "iso_last": False, "first": {}}
        return out
    for key, what in spec_tables(P, S, edges, crossing, vals0, R, tolv):
        out["violations"].append((key, f"{variant}: {what}"))
    bm = beta_margin(P, edges, crossing, S)
    diffs = compare_model(m, S, vals0, R, tolv, bm >= (1e-9 if variant == "fresh" else 1e-5)) if m is not None else []
    if diffs:
        out["kmis"].append(f"{variant}: {diffs[:4]}")
    pl = vals0[0] if not isinstance(vals0[0], dict) else []
    out["stats"] = {"hist": n_hist, "coord": R["coord"], "npl": len(pl), "nV": len(pos), "nE": len(edges),
                    "iso_last": bool(len(R["coord"]) and R["coord"][-1] == 0 and len(pos) > 0),
                    "first": {"adjacent_edges[0]": R["adj"][0] if R["adj"] else None, "coordination": R["coord"][:8],
                              "edges.adjacent_plaquettes[:3]": vals0[2][1:4] if not isinstance(vals0[2], dict) else None}}
    return out


def work_safe(item):
    """work(); an exception escaping the implementation (constructor, pickling, a table) on a valid lattice is
    reported as a violation with that lattice as the replay instead of aborting the run"""
    try:
        return work(item)
    except Exception as e:
        import traceback
        tb = traceback.format_exc().strip().splitlines()
        site = [l.strip() for l in tb if l.strip().startswith("File")][-1][:160]
        pos, edges, _ = item["arr_v"]
        return {"violations": [("implementation-raises", f"{item['variant']}: {type(e).__name__}: {e} @ {site}")], "kmis": [], "skip": None,
                "stats": {"hist": 0, "coord": [], "npl": 0, "nV": len(pos), "nE": len(edges), "iso_last": False, "first": {}}}


def prep(args):
    """one case -> its (fresh, unpickled) work items and driver lines.  Pure function of args (run in a pool)."""
    ci, c, full_sel, seed = args
    out = {"skips": [], "violations": [], "items": [], "lines": []}
    arr, why = build_case(c)
    if arr is None:
        out["skips"].append("generator-could-not-build-base")
        return out
    pos, edges, crossing = arr
    if len(edges) and np.any(edges[:, 0] == edges[:, 1]):
        out["skips"].append("malformed-self-loop(not in C01's input space)")
        return out
    full = (full_sel and len(pos) <= 100) or full_sel == "force" or c["family"] in ("raw", "append_isolated")
    for variant in ("fresh", "unpickled"):
        if variant == "unpickled":
            try:
                l2 = make_lattice(arr, "unpickled")
            except Exception as e:
                if len(edges) == 0:
                    # __getstate__ took np.min of the empty crossing array (fixed in /repo d5da286): no unpickled
                    # lattice exists.  Pickling is C09's property; counted here.
                    out["skips"].append("unpicklable-lattice-without-edges(C09)")
                    continue
                out["violations"].append(("unpickle-raises", f"pickle round trip raised {type(e).__name__}: {e}"))
                continue
            arr_v = (np.asarray(l2.vertices.positions, dtype=float), np.asarray(l2.edges.indices, dtype=int).reshape(-1, 2),
                     np.asarray(l2.edges.crossing, dtype=int).reshape(-1, 2))
        else:
            arr_v = arr
        hists = histories_for(full, ci, seed)
        line, S = ser_lattice_arrays(*arr_v)
        want_adjm = "1" if len(pos) <= 40 else "0"
        # the model's own cache run (history independence is a theorem; this only re-checks the extracted [run]) on small lattices
        mh = hists if len(pos) <= 60 else []
        out["lines"].append("c02 " + line + f" {want_adjm} {len(mh)} " + " ".join(f"{len(h)} " + " ".join(map(str, h)) for h in mh))
        out["items"].append({"arr": arr, "variant": variant, "hists": hists, "S": S, "case": c, "full": full, "arr_v": arr_v,
                             "want_model": len(pos) <= MODEL_MAX_V})
    return out


def pool_map(f, xs, chunksize=8):
    jobs = int(os.environ.get("VERIF_JOBS", "8"))
    if len(xs) >= 32 and jobs > 1:
        with ProcessPoolExecutor(jobs) as ex:
            return list(ex.map(f, xs, chunksize=chunksize))
    return [f(x) for x in xs]


XCHECK_MAX_V = 40


def coq_crosscheck(ctx, items):
    """Extraction cross-check (DESIGN 1.3): for a small random sample of the lattices sent to the c02 driver, every line
    the driver printed (tables, query helpers, the four history-free attribute values, plaq_list_ok, the cache state
    machine's run on each history) is re-derived INSIDE Coq by vm_compute on the same lattice literal and must coincide.
    items: evaluate()'s work items with it["model"] = parse_model(driver answer).  Records the number of goals."""
    import xcheck as X
    small = [it for it in items if it["model"] is not None and "error" not in it["model"] and len(it["arr_v"][0]) <= XCHECK_MAX_V]
    rng = np.random.default_rng([ctx.seed, 2, 99])
    k = min(len(small), 8 if ctx.tier == "quick" else 80)
    pick = [small[i] for i in sorted(rng.choice(len(small), size=k, replace=False))] if k else []
    rows = lambda t: X.lst(X.natlist, t)
    orows = lambda t: X.lst(lambda r: X.lst(X.onat, r), t)
    nlpair = X.pair(X.natlist, X.natlist)
    opn = ["GetPlaquettes", "GetNPlaquettes", "GetEdgeAdj", "GetVertexAdj"]

    def value(v):
        """the projection [pv] (below) of a Cache.value, as parse_value() read it from the driver"""
        if v[0] == "P":
            return ("(PV_P " + X.lst(lambda p: f"({X.natlist(p[0])}, {X.natlist(p[1])}, {X.lst(lambda d: X.boolean(d == 1), p[2])})", v[1])
                    + " " + orows(v[2]) + ")")
        if v[0] == "N":
            return f"(PV_N {X.nat(v[1])})"
        if v[0] == "E":
            return "(PV_E " + X.lst(X.pair(X.onat, X.onat), v[1]) + ")"
        if v[0] == "V":
            return "(PV_V " + orows(v[1]) + ")"
        return {"RAISE": "PV_Raise", "ATTRERROR": "PV_AttrError"}[v[0]]

    body = [
        # the driver prints a plaquette as (vertices, edges, directions): same projection here
        "Inductive pvalue := PV_P (ps : list (list nat * list nat * list bool)) (nbs : list (list (option nat))) | PV_N (n : nat)",
        "  | PV_E (t : list ep_row) | PV_V (t : vtable) | PV_Raise | PV_AttrError.",
        "Definition pv (v : value) : pvalue := match v with",
        "  | VPlaq (ps, nbs) => PV_P (map (fun p => (p_verts p, p_edges p, p_dirs p)) ps) nbs | VNat n => PV_N n",
        "  | VEdge t => PV_E t | VVert t => PV_V t | VRaise => PV_Raise | VAttrError => PV_AttrError end.",
        "Definition plist (L : lattice) : option (list plaquette) :=",
        "  match pure_value L GetPlaquettes with VPlaq (ps, _) => Some ps | _ => None end.",
    ]
    for i, it in enumerate(pick):
        m, S = it["model"], it["S"]
        pos, edges, crossing = it["arr_v"]
        L = f"L{i}"
        body.append(f"Definition {L} : lattice := {X.lattice(pos, edges, crossing, S)}.")
        g = lambda lhs, rhs: body.append(X.goal(lhs, rhs))
        g(f"(wf_lattice {L}, no_self_loops {L}, generic_count {L})", f"({X.boolean(m['wf'])}, {X.boolean(m['noloops'])}, {X.nat(m['generic'])})")
        g(f"vectors {L}", X.lst(X.zpair, m["vectors"]))
        g(f"adj_table {L}", rows(m["adj"]))
        g(f"coordination {L}", X.natlist(m["coord"]))
        g(f"map (edge_neighbours {L}) (seq 0 (nE {L}))", rows(m["edge_nb"]))
        if "adjm" in m:
            g(f"filter (fun ij => adjacency_true {L} (fst ij) (snd ij)) (list_prod (seq 0 (nV {L})) (seq 0 (nV {L})))",
              X.lst(X.natpair, sorted(m["adjm"])))
        g(f"all_vertex_neighbours {L}", X.lst(nlpair, m["q_vn"]))
        g(f"all_q_edge_neighbours {L}", rows(m["q_en"]))
        g(f"all_clockwise_about {L}", X.lst(nlpair, m["q_cw"]))
        g(f"all_edge_vectors {L}", X.lst(lambda r: X.lst(X.zpair, r), m["q_ev"]))
        g(f"let cp := compute_plaquettes {L} in map (fun o => pv (pure_value_of cp o)) [{'; '.join(opn)}]", X.lst(value, m["pure"]))
        if m["pure"][0][0] == "P":
            g(f"option_map (plaq_list_ok {L}) (plist {L})", f"Some {X.boolean(m['hyp'])}")
            g(f"option_map (all_q_adjacent_plaquettes {L}) (plist {L})", "Some " + X.lst(X.option(nlpair, "(list nat * list nat)"), m["q_ap"]))
        else:
            g(f"plist {L}", "None")
        for h, toks in zip(it["hists"], m["hist"]):
            if all(t == "=" for t in toks) and len(toks) == len(h):      # "=": the driver found the run's value equal to the pure one
                ops = "[" + "; ".join(opn[o] for o in h) + "]"
                g(f"snd (run {L} cinit {ops})", f"let cp := compute_plaquettes {L} in map (pure_value_of cp) {ops}")
    ctx.res.extra["extraction_crosscheck_goals_vm_compute"] = X.compile_goals("c02", "Model.Lattice Model.TableSpec Model.Cache Model.Queries", body, "c02")
    ctx.res.extra["extraction_crosscheck_lattices"] = len(pick)
    ctx.res.extra["extraction_crosscheck_wall_s"] = X.LAST_WALL


def evaluate(ctx, cases, label, n_full=60, force_full=False):
    res = ctx.res
    items, lines = [], []
    stride = max(1, len(cases) // max(1, n_full))
    for c, pr in zip(cases, pool_map(prep, [(ci, c, "force" if force_full else (ci % stride == 0), ctx.seed) for ci, c in enumerate(cases)])):
        for w in pr["skips"]:
            res.skip(w)
        for key_, what in pr["violations"]:
            res.count(c["family"])
            res.violation(key_, what, c)
        items += pr["items"]
        lines += pr["lines"]
    sel = [i for i, it in enumerate(items) if it["want_model"]]
    outs = run_driver_parallel(ctx.exe["c02"], [lines[i] for i in sel])
    for it in items:
        it["model"] = None
    for i, o in zip(sel, outs):
        it = items[i]
        it["model"] = parse_model(o, it["S"])
        if "error" in it["model"]:
            raise RuntimeError(f"driver error {it['model']['error']} on {it['case']}")
    results = pool_map(work_safe, items)
    cd = res.extra.setdefault("coordination_number_histogram", {})
    for it, r in zip(items, results):
        c = it["case"]
        fam = c["family"] + ("/" + c["base"]["family"] if "base" in c else "") + ":" + it["variant"]
        if r["skip"]:
            res.skip(r["skip"])
            continue
        st = r["stats"]
        key = digest([it["arr_v"][0].tolist(), it["arr_v"][1].tolist(), it["arr_v"][2].tolist()]) if st["npl"] >= 1 else None
        res.count(fam, key)
        if it["model"] is not None:
            res.traces += 1
        else:
            res.extra["lattices_S_only_(V>%d)" % MODEL_MAX_V] = res.extra.get("lattices_S_only_(V>%d)" % MODEL_MAX_V, 0) + 1
        for k in st["coord"]:
            cd[str(k)] = cd.get(str(k), 0) + 1
        for name, cond in (("lattices_with_isolated_highest_vertex", st["iso_last"]), ("lattices_with_isolated_vertex", 0 in st["coord"]),
                           ("lattices_with_dangling_edge", 1 in st["coord"]), ("lattices_all_24_orders", it["full"]),
                           ("lattices_without_plaquettes", st["npl"] == 0)):
            res.extra[name] = res.extra.get(name, 0) + int(bool(cond))
        res.extra["histories_run_on_impl"] = res.extra.get("histories_run_on_impl", 0) + st["hist"]
        mm = it["model"]
        if mm is not None:
            res.extra["model_plaquette_lists_satisfying_plaq_list_ok"] = res.extra.get("model_plaquette_lists_satisfying_plaq_list_ok", 0) + int(mm["hyp"] is True)
            res.extra["vertices_total(model run)"] = res.extra.get("vertices_total(model run)", 0) + st["nV"]
            res.extra["vertices_satisfying_generic_at"] = res.extra.get("vertices_satisfying_generic_at", 0) + mm["generic"]
        for key_, what in r["violations"]:
            res.violation(key_, what, c)
        for what in r["kmis"]:
            ctx.k_mismatch(f"{label}: {what}", c)
        if st["npl"] >= 2:
            res.sample({"case": c, "variant": it["variant"], "V": st["nV"], "E": st["nE"], "plaquettes": st["npl"],
                        "histories": st["hist"], **st["first"]})
    if label.startswith("K("):
        coq_crosscheck(ctx, items)      # extraction cross-check: a sample of the driver's answers re-derived inside Coq


def all_cases(tier, seed, exhaustive=True):
    return own_cases(tier) + gen.lattice_cases(tier, seed, exhaustive=exhaustive)


def run(ctx):
    ctx.res.rule = ("C01's lattice families (Voronoi 2..N seeds, cuts/strips, edge-deleted and vertex-isolated subgraphs incl. isolated highest index, duals, tilings, "
                    "example graphs, exhaustive edge subsets of small bases) + explicit isolated-highest-vertex / coordination 0..12 inputs; each as a fresh and as an "
                    "unpickled lattice; all 24 first-access orders + 2 histories with repeats on ~60 (thorough: ~200) spread lattices with V <= 100 and all explicit inputs, 2 orders on the rest; "
                    "non-trivial = distinct lattice (hash of arrays) with >= 1 plaquette")
    evaluate(ctx, all_cases(ctx.tier, ctx.seed), "K(tables, queries, cache)", n_full=60 if ctx.tier == "quick" else 200)


def search(ctx):
    """counterexample search after a proof / correspondence broke: thorough generators, other seed, all 24 orders more often"""
    cases = all_cases("thorough", ctx.seed + 1, exhaustive=(ctx.tier != "quick"))
    evaluate(ctx, cases[:500] if ctx.tier == "quick" else cases, "search", n_full=200)


def replay(ctx, payload):
    evaluate(ctx, [payload["case"]], "replay", force_full=True)
