"""C20 — phase-diagram sampling lies on the coupling simplex; parallel map equals serial.

S (spec on the implementation): every returned triple has non-negative components summing to 1 (4 ulp), every
  triangulation has exactly one node per sampling point, node i being the image of sampling point i (plain
  scheme: the skew; symmetric scheme: six images congruent to the skewed point list);
  compute_phase_diagram for several n_jobs with skewed per-point cost (so that chunks complete out of order —
  observed through a log written by the workers and recorded), scalar and vector valued, with and without
  shared extra arguments, compared exactly with the serial evaluation.
K (model vs implementation): sampling points against the model's exact rationals; chunk boundaries of the model
  (fed with the ceil sequence of the float carry) against mpire's own chunking of the same array; the model's
  parallel map run on the completion order that was observed; the END-TO-END model of compute_phase_diagram
  (Model/PhaseDiagram.v) on index-coded values against the layout of the implementation's returned array (vector- and
  matrix-valued functions); the point lists handed to Triangulation against the model's exact plot transforms.
X (extraction cross-check): a sample of the answers of every driver command is re-derived inside Coq by vm_compute."""
from lib import *  # noqa
import argforms as AF
import contextlib, io, math, signal, tempfile, time
from koala import phase_diagrams as pd
import mpire.utils as mpu

DRIVERS = ("c20",)
MODEL_TARGETS = ["Model/Sampling.vo", "Model/ParMap.vo", "Model/PhaseDiagram.vo"]
TARGETS = ["Proofs/SamplingFacts.vo", "Proofs/ParMapFacts.vo", "Proofs/SamplingCount.vo", "Proofs/PhaseDiagramFacts.vo"]
LEVEL = "proof"
TRUST = [
    "hand-written Gallina models coq/Model/Sampling.v (linspace, product grid, the two filters, centre point, z = 1 - x - y over Q) and coq/Model/ParMap.v (mpire 2.10.2 map on a numpy array: chunking, index tags, sort by index, concatenate; koala's computation wrapper; transpose) and coq/Model/PhaseDiagram.v (compute_phase_diagram end to end for scalar/vector/matrix-valued functions: chunk size as coded, pool.map, concatenate, .T reversing all axes; skew, reflection and the three rotations of the plot transforms over Q with the second coordinate in units of sin(pi/3)): modelled, not verified; tied to the code by the correspondence run",
    "extraction + ocaml/c20_driver.ml: a sample of the answers of every driver command (sp, nd, chq, ch, pm, kp, kv, km) is re-derived inside Coq by vm_compute on every run (harness/xcheck.py)",
    "mpire.WorkerPool (processes, queues, scheduling): Section variable with the contract 'the result of every task is delivered exactly once, in any order'; exercised for the listed n_jobs, not proved",
    "mpire's float carry arithmetic for chunk sizes is outside the model (arbitrary ceil sequence in the theorems); the harness recomputes the sequence with the same float expressions and compares the chunks with mpire's",
    "matplotlib.tri.Triangulation / Qhull (node arrays), numpy linspace and float rounding: outside the model; sums are 1 only up to rounding (S tolerance 4 ulp, K tolerance 2 ulp of 1 on each coordinate)",
]
ASSUMPTIONS = ["samples >= 2; n_jobs >= 1; the function is deterministic and returns a float or a fixed-length float vector",
               "K on the sampling points is modulo what the property constrains: every returned point must be one of the model's points (all of which are proved to lie on the simplex); list identity is recorded, not required"]

ULP1 = float(np.spacing(1.0))
LOG_PATH = None          # inherited by the forked workers


class CaseTimeout(Exception):
    pass


class limit:
    """wall-clock limit for one implementation call.  The alarm keeps firing every 50 ms once the limit is
    reached (an exception raised inside a numpy try/except can be swallowed or re-raised as another type), and
    [fired] tells the caller that whatever exception came out was caused by the limit."""
    def __init__(self, seconds):
        self.s = seconds
        self.fired = False

    def _alarm(self, signum, frame):
        self.fired = True
        raise CaseTimeout()

    def __enter__(self):
        self.old = signal.signal(signal.SIGALRM, self._alarm)
        signal.setitimer(signal.ITIMER_REAL, self.s, 0.05)
        return self

    def __exit__(self, *a):
        signal.setitimer(signal.ITIMER_REAL, 0)
        signal.signal(signal.SIGALRM, self.old)


@contextlib.contextmanager
def quiet():
    with open(os.devnull, "w") as dn, contextlib.redirect_stdout(dn), contextlib.redirect_stderr(dn):
        yield


# ------------------------------------------------------------------ argument forms (argforms.py)
# compute_phase_diagram(sampling_points, ...): the (n, 3) float array of sampling points in C order, Fortran order (what the
# sampling functions themselves return: np.array([xs, ys, zs]).T), as a non-contiguous view, read-only.  `samples`: Python int vs
# numpy integer.  Form chosen from the case (replayable); the serial reference and the model get the values.
AF_POINTS = ["float64+C", "float64+F", "float64+strided", "float64+readonly", "float64+F+readonly"]
AF_SAMPLES = ["int", "np.int64", "np.int32", "np.int16", "np.uint8", "np.intp"]
AF_EXCLUDED = {
    ("compute_phase_diagram.sampling_points", "list of lists / list of arrays"): "no docstring; the usage comment passes the array returned by get_*_sampling_points.  mpire hands a numpy array to the worker "
        "chunk-wise (computation(extra_args, Js) gets a chunk) but unpacks the elements of a list as arguments: TypeError 'computation() takes 2 positional arguments but 4 were given' "
        "-- arguable, reported to the lead, kept out of the generator",
    ("compute_phase_diagram.sampling_points", "float32"): "the function values then are computed from rounded coordinates (not the same numbers)",
    ("compute_phase_diagram.n_jobs", "numpy integer"): "passed through to mpire.WorkerPool, which needs a Python int (np.int64: TypeError inside mpire; np.uint8: koala's own -(-n // (4*n_jobs)) overflows)",
}


def arg_forms(res, arg, value, *key):
    for (a, f), why in AF_EXCLUDED.items():
        AF.exclude(res, a, f, why)
    if arg == "samples":
        return AF.choose_scalar(res, "get_*_sampling_points.samples", value, AF_SAMPLES, *key)
    return AF.choose(res, "compute_phase_diagram.sampling_points", value, AF_POINTS, *key, base=np.float64)


def drv(ctx, lines):
    """run the c20 driver; every (line, answer) is remembered for the in-Coq re-evaluation (coq_crosscheck)"""
    outs = run_driver_parallel(ctx.exe["c20"], lines)
    if not hasattr(ctx, "xsent"):
        ctx.xsent = []
    ctx.xsent += list(zip(lines, outs))
    return outs


# ------------------------------------------------------------------ sampling points
def parse_triples(toks):
    cur = Cursor(toks)
    return cur.list(lambda: tuple(Fraction(cur.z(), cur.z()) for _ in range(3)))


def spec_triples(scheme, s, tp):
    bad = []
    tp = np.asarray(tp, dtype=float)
    if tp.ndim != 2 or tp.shape[1] != 3 or len(tp) == 0:
        return [(f"sampling:{scheme}:shape", f"samples={s}: triple array of shape {tp.shape}")]
    if tp.min() < 0:
        i = int(np.argmin(tp.min(axis=1)))
        bad.append((f"sampling:{scheme}:negative-component", f"samples={s}: sampling point {i} = {tp[i].tolist()} has a negative component"))
    err = np.abs(tp.sum(axis=1) - 1)
    if err.max() > 4 * ULP1:
        i = int(np.argmax(err))
        bad.append((f"sampling:{scheme}:sum-not-1", f"samples={s}: sampling point {i} = {tp[i].tolist()} sums to {tp[i].sum()!r}"))
    return bad


def dist_matrix(P):
    return np.linalg.norm(P[:, None, :] - P[None, :, :], axis=-1)


def spec_triangulations(scheme, s, tp, tris):
    """one node per sampling point, node i = image of sampling point i"""
    bad = []
    n = len(tp)
    pts = np.asarray(tp)[:, :2]
    theta = np.pi / 3
    skew = np.array([[1, np.cos(theta)], [0, np.sin(theta)]])
    sk = pts @ skew.T
    if scheme == "plain":
        tris = [tris]
    elif len(tris) != 6:
        bad.append((f"sampling:{scheme}:triangulation-count", f"samples={s}: {len(tris)} triangulations, expected 6"))
    D0 = None
    for a, t in enumerate(tris):
        if len(t.x) != n or len(t.y) != n:
            bad.append((f"sampling:{scheme}:node-count", f"samples={s}: triangulation {a} has {len(t.x)} nodes for {n} sampling points"))
            continue
        if int(np.max(t.triangles)) >= n:
            bad.append((f"sampling:{scheme}:node-count", f"samples={s}: triangulation {a} refers to node {int(np.max(t.triangles))} >= {n}"))
        N = np.array([t.x, t.y]).T
        if scheme == "plain" or a == 0:
            if not np.allclose(N, sk, rtol=0, atol=1e-12):
                i = int(np.argmax(np.abs(N - sk).max(axis=1)))
                bad.append((f"sampling:{scheme}:node-not-at-point", f"samples={s}: node {i} of triangulation {a} at {N[i].tolist()} is not the image {sk[i].tolist()} of sampling point {i}"))
        else:
            if D0 is None:
                D0 = dist_matrix(sk)
            if not np.allclose(dist_matrix(N), D0, rtol=0, atol=1e-9):
                bad.append((f"sampling:{scheme}:not-congruent", f"samples={s}: triangulation {a} is not a congruent image of the sampling points (node i <-> point i)"))
    return bad


def match_points(tp, model):
    """K modulo what the property constrains: every returned triple is (within 2 ulp of 1 per coordinate) one of
    the model's triples.  Returns (index of first unmatched or None, identical list?, max error in ulp(1))."""
    M = np.array([[float(c) for c in t] for t in model])
    tp = np.asarray(tp, dtype=float)
    maxerr = 0.0
    for i, p in enumerate(tp):
        d = np.abs(M - p).max(axis=1)
        j = int(np.argmin(d))
        # exact comparison against the rationals of the nearest candidate
        e = max(abs(Fraction(float(a)) - b) for a, b in zip(p, model[j]))
        if e > 2 * Fraction(ULP1):
            return i, False, float(e / Fraction(ULP1))
        maxerr = max(maxerr, float(e / Fraction(ULP1)))
    identical = len(tp) == len(model) and all(
        max(abs(Fraction(float(a)) - b) for a, b in zip(p, m)) <= 2 * Fraction(ULP1) for p, m in zip(tp, model))
    return None, identical, maxerr


SIN60 = float(np.sin(np.pi / 3))


def parse_nodes(o):
    """answer of 'nd s' -> {"plain": [nodes], "sym": [six node lists]}, nodes as (Fraction X, Fraction Y) with Y in units of sin(pi/3)"""
    pair = lambda cur: (Fraction(cur.z(), cur.z()), Fraction(cur.z(), cur.z()))
    c1, c2 = Cursor(o["plain_nodes"]), Cursor(o["sym_nodes"])
    return {"plain": [c1.list(lambda: pair(c1))], "sym": c2.list(lambda: c2.list(lambda: pair(c2)))}


def compare_nodes(ctx, scheme, s, tp, tris, mlists, identical, case):
    """K for the plot transforms, modulo what the property constrains: image 0 (the skew of the returned points) node by
    node; the other five images up to congruence (same distance matrix).  Only when the returned point list is the
    model's (otherwise there is no node-to-node correspondence) and the node counts agree (S reports those)."""
    ex = ctx.res.extra
    tl = [tris] if scheme == "plain" else list(tris)
    if not identical or len(tl) != len(mlists) or any(len(t.x) != len(m) for t, m in zip(tl, mlists)):
        ex["node_lists_not_compared_with_model"] = ex.get("node_lists_not_compared_with_model", 0) + 1
        return
    D0 = None
    for a, (t, m) in enumerate(zip(tl, mlists)):
        M = np.array([[float(x), float(y) * SIN60] for x, y in m])
        N = np.array([t.x, t.y]).T
        same = bool(np.allclose(N, M, rtol=0, atol=1e-12))
        ex["node_lists_identical_to_model"] = ex.get("node_lists_identical_to_model", 0) + int(same)
        if same:
            ctx.res.traces += 1
            continue
        if a == 0:
            i = int(np.argmax(np.abs(N - M).max(axis=1)))
            ctx.k_mismatch(f"{scheme} scheme, samples={s}: node {i} of triangulation 0 at {N[i].tolist()}, the model's skew gives {M[i].tolist()}", case)
        elif not np.allclose(dist_matrix(N), dist_matrix(M), rtol=0, atol=1e-9):
            ctx.k_mismatch(f"{scheme} scheme, samples={s}: triangulation {a} is not congruent to the model's transformed point list", case)
        else:
            ex["node_lists_congruent_but_not_identical"] = ex.get("node_lists_congruent_but_not_identical", 0) + 1
            ctx.res.traces += 1


def evaluate_sampling(ctx, sizes):
    res = ctx.res
    outs = drv(ctx, [f"sp {s}" for s in sizes])
    nouts = drv(ctx, [f"nd {s}" for s in sizes])
    ex = res.extra
    ident = ex.setdefault("sampling_lists_identical_to_model", 0)
    for s, o, no in zip(sizes, outs, nouts):
        if "error" in o or "error" in no:
            raise RuntimeError(f"c20 driver error {o.get('error')} {no.get('error')} on sp/nd {s}")
        mnodes = parse_nodes(no)
        if o["simplex_ok"] != ["1"]:
            ctx.k_mismatch(f"model self-check: a model point for samples={s} is not on the simplex", {"kind": "sampling", "s": s})
        for scheme, fn, key in (("plain", pd.get_non_symmetric_triangular_sampling_points, "plain"),
                                ("symmetric", pd.get_triangular_sampling_points, "sym")):
            case = {"kind": "sampling", "s": s, "scheme": scheme}
            try:
                with limit(120):
                    tp, tris = fn(samples=arg_forms(res, "samples", s, scheme))
            except Exception as e:
                res.count("sampling/" + scheme)
                res.violation(f"sampling:{scheme}:exception", f"samples={s}: {type(e).__name__}: {e}", case)
                continue
            res.count("sampling/" + scheme, (scheme, s))
            bad = spec_triples(scheme, s, tp) + spec_triangulations(scheme, s, tp, tris)
            for k, w in bad:
                res.violation(k, w, case)
            model = parse_triples(o[key])
            un, identical, maxerr = match_points(tp, model)
            ex["sampling_max_error_ulp"] = max(ex.get("sampling_max_error_ulp", 0.0), maxerr)
            if un is not None:
                ctx.k_mismatch(f"{scheme} scheme, samples={s}: returned point {un} = {np.asarray(tp)[un].tolist()} is not one of the model's sampling points", case)
            else:
                res.traces += 1
                if identical:
                    ex["sampling_lists_identical_to_model"] += 1
                else:
                    ex.setdefault("sampling_lists_not_identical", []).append([scheme, s, len(tp), len(model)])
            # closed forms proved for the model (C20_point_count_*): recorded, not required (the property does not fix the count)
            closed = s * s if scheme == "plain" else (s * s + s + 1) // 3 + 1
            if len(model) != closed:
                ctx.k_mismatch(f"{scheme} scheme, samples={s}: the model has {len(model)} points, the proved closed form gives {closed}", case)
            ex["sampling_counts_equal_to_closed_form"] = ex.get("sampling_counts_equal_to_closed_form", 0) + int(len(tp) == closed)
            # the point lists handed to Triangulation against the model's exact plot transforms (Model/PhaseDiagram.v)
            compare_nodes(ctx, scheme, s, tp, tris, mnodes[key], identical, case)
            pts = [tuple(p) for p in np.asarray(tp).tolist()]
            dup = len(pts) - len(set(pts))
            if dup:
                ex.setdefault("duplicate_sampling_points", {})[f"{scheme}:{s}"] = dup
                if scheme == "symmetric" and o["centre_in_grid"] != ["1"]:
                    ex.setdefault("duplicates_not_predicted_by_model", []).append([scheme, s])
            if s in (2, 5, 10):
                res.sample({"scheme": scheme, "samples": s, "points": len(tp), "first": np.asarray(tp)[0].tolist(), "last": np.asarray(tp)[-1].tolist(),
                            "nodes": [len(t.x) for t in (tris if scheme == "symmetric" else [tris])]}, cap=6)


# ------------------------------------------------------------------ chunking
def float_ceils(n, n_splits, chunk_size=None):
    """utils.py:101-124 with the same float expressions: the successive math.ceil(current_chunk_size)"""
    if chunk_size is None:
        chunk_size = n / n_splits
    cur = chunk_size
    done, out = 0, []
    while True:
        c = math.ceil(cur)
        take = min(max(1, c), n - done)
        if take <= 0:
            return out
        out.append(c)
        cur = (cur + chunk_size) - math.ceil(cur)
        done += take


class SpyPool(pd.WorkerPool):
    """records the keyword arguments koala passes to WorkerPool.map (public mpire API boundary), so that the
    chunking the harness recomputes is the one that was requested"""
    last_kw = None

    def map(self, func, iterable_of_args, *a, **kw):
        SpyPool.last_kw = dict(kw, _positional=len(a))
        return super().map(func, iterable_of_args, *a, **kw)


def mpire_chunks(arr, n_jobs, with_predicted=False, chunk_size=None, n_splits=None):
    it, n_chunks, _, _ = mpu.apply_numpy_chunking(arr, None, chunk_size, n_splits, n_jobs)
    chunks = [c[0] for c in it]
    return (chunks, int(n_chunks)) if with_predicted else chunks


def evaluate_chunking(ctx, pairs):
    res = ctx.res
    lines, exp = [], []
    for n, j in pairs:
        arr = np.arange(n * 3, dtype=float).reshape(n, 3)
        ch = mpire_chunks(arr, j)
        sizes = [len(c) for c in ch]
        ok = (sum(sizes) == n and (n == 0 or np.array_equal(np.concatenate(ch), arr)) and all(sz >= 1 for sz in sizes))
        res.count("chunking", (n, j) if n > 4 * j else None)
        if not ok:
            res.violation("mpire:chunks-do-not-concatenate", f"mpire chunking of {n} points for n_jobs={j} does not concatenate to the input (sizes {sizes[:10]})", {"kind": "chunk", "n": n, "n_jobs": j})
        ceils = float_ceils(n, 4 * j)
        lines.append("ch %d %d %s" % (n, len(ceils), " ".join(hx(c) for c in ceils)))
        lines.append("chq %d %s" % (n, hx(4 * j)))
        exp.append(sizes)
    outs = drv(ctx, lines)
    differ = 0
    for (n, j), sizes, of, oq in zip(pairs, exp, outs[0::2], outs[1::2]):
        mf = [int(x) for x in of["sizes"][1:]]
        mq = [int(x) for x in oq["sizes"][1:]]
        if mf != sizes:
            ctx.k_mismatch(f"chunk sizes for {n} points, n_jobs={j}: model {mf[:12]} mpire {sizes[:12]}", {"kind": "chunk", "n": n, "n_jobs": j})
        else:
            res.traces += 1
        if sum(mq) != n:
            ctx.k_mismatch(f"exact-carry chunk sizes for {n} points do not sum to n", {"kind": "chunk", "n": n, "n_jobs": j})
        if mq != sizes:
            differ += 1
    res.extra["chunkings_compared"] = res.extra.get("chunkings_compared", 0) + len(pairs)
    res.extra["chunkings_where_exact_rational_carry_differs_from_float_carry"] = res.extra.get("chunkings_where_exact_rational_carry_differs_from_float_carry", 0) + differ


# ------------------------------------------------------------------ compute_phase_diagram
def _h(J):
    return int.from_bytes(hashlib.sha1(np.asarray(J, dtype=float).tobytes()).digest()[:4], "big")


def _cost(J, scale):
    h = _h(J)
    if LOG_PATH is not None:
        time.sleep(scale * (h % 8) / 8.0)
        fd = os.open(LOG_PATH, os.O_WRONLY | os.O_APPEND | os.O_CREAT)
        os.write(fd, ("%d %d %d\n" % (os.getpid(), time.monotonic_ns(), h)).encode())
        os.close(fd)


def f_scalar(J):
    _cost(J, 0.004)
    return float(J[0] * 3.0 + J[1] * J[1] - 0.25 * J[2])


def f_scalar_x(J, a=1.0, table=None):
    _cost(J, 0.004)
    return float(a * J[0] + table[1] * J[1] - J[2])


def f_vector(J):
    _cost(J, 0.004)
    return np.array([J[0], J[1] - J[2], J[0] * J[1], 7.0])


def f_vector_x(J, a=1.0, table=None):
    _cost(J, 0.004)
    return np.array([a * J[0], table[0] + J[1], J[2] * table[2]])


def f_scalar_kw(J, **params):
    """takes its shared extra arguments through a catch-all (a wrapper that forwards **params)"""
    _cost(J, 0.004)
    return float(params["a"] * J[0] + params["table"][1] * J[1] - J[2])


def f_vector_kw(J, scale=2.0, **params):
    _cost(J, 0.004)
    return np.array([scale * params["a"] * J[0], params["table"][0] + J[1], J[2] * params["table"][2]])


def f_mixed(J):
    """an everyday piecewise function: a Python int (0 or 1) at some points, a float elsewhere — the serial list
    comprehension promotes the whole result to float; so must the parallel evaluation, whatever the chunking"""
    _cost(J, 0.004)
    d = J[2] - J[0] - J[1]
    return 0 if d < 0 else (1 if d == 0 else float(d))


def f_mixed_vec(J):
    _cost(J, 0.004)
    return (1, 0, 2) if J[0] <= 0.125 else (float(J[0]), float(J[1]) + 0.5, float(J[2]) * 0.25)


def f_matrix(J):
    """a 2 x 3 matrix per point: the returned array is (n, 2, 3).T = (3, 2, n) — .T reverses ALL axes"""
    _cost(J, 0.004)
    return np.array([[J[0], J[1], J[2]], [J[0] * J[1], 2.0, J[2] - J[0]]])


FUNCS = {"matrix": (f_matrix, {}), "mixed-int-float": (f_mixed, {}), "mixed-int-float-vector": (f_mixed_vec, {}),
         "scalar": (f_scalar, {}), "scalar+args": (f_scalar_x, {"a": 2.5, "table": np.array([0.5, -1.25, 3.0])}),
         "vector": (f_vector, {}), "vector+args": (f_vector_x, {"a": -0.75, "table": np.array([0.5, -1.25, 3.0])}),
         "scalar+kwargs": (f_scalar_kw, {"a": 1.5, "table": np.array([0.25, -2.0, 1.0])}),
         "vector+kwargs": (f_vector_kw, {"a": -0.5, "table": np.array([0.5, -1.25, 3.0])})}


def get_points(scheme, s):
    with quiet():
        tp, _ = (pd.get_triangular_sampling_points if scheme == "symmetric" else pd.get_non_symmetric_triangular_sampling_points)(samples=s)
    return np.asarray(tp)


def evaluate_compute(ctx, cases):
    global LOG_PATH
    res = ctx.res
    ex = res.extra
    ro = ex.setdefault("compute_runs_with_completion_order_different_from_submission_order", 0)
    by_jobs = ex.setdefault("out_of_order_runs_by_n_jobs", {})
    lines, pend = [], []
    vlines, vpend = [], []
    for c in cases:
        fn, extra = FUNCS[c["func"]]
        pts = get_points(c["scheme"], c["s"])
        n = len(pts)
        LOG_PATH = None
        serial = np.array([fn(J, **extra) for J in pts]).T
        fd, path = tempfile.mkstemp(prefix="c20log", dir="/var/tmp")
        os.close(fd)
        LOG_PATH = path
        fam = f"compute/{c['func']}"
        SpyPool.last_kw = None
        orig_pool = pd.WorkerPool
        pd.WorkerPool = SpyPool
        try:
            with limit(300), quiet():
                pts_arg = arg_forms(res, "points", pts, c["func"], c["n_jobs"])
                data = pd.compute_phase_diagram(pts_arg, fn, extra, n_jobs=c["n_jobs"])
        except Exception as e:
            pd.WorkerPool = orig_pool
            LOG_PATH = None
            os.unlink(path)
            res.count(fam)
            if isinstance(e, ValueError) and "Length of iterator has already been set" in str(e):
                res.violation("compute:raises-chunk-count-mismatch",
                              f"compute_phase_diagram over the {n} points of the {c['scheme']} scheme (samples={c['s']}) with n_jobs={c['n_jobs']} raises ValueError: {e} "
                              f"(mpire announces ceil(n / (n / (4*n_jobs))) chunks in float arithmetic but produces one fewer)", c)
                continue
            res.violation("compute:exception", f"compute_phase_diagram({n} points of the {c['scheme']} scheme samples={c['s']}, {c['func']}, n_jobs={c['n_jobs']}) raised {type(e).__name__}: {e}", c)
            continue
        pd.WorkerPool = orig_pool
        LOG_PATH = None
        log = [tuple(int(x) for x in ln.split()) for ln in open(path).read().splitlines() if ln.strip()]
        os.unlink(path)
        data = np.asarray(data)
        res.count(fam, digest(c) if c["n_jobs"] >= 2 else None)
        if not np.array_equal(pts_arg, pts):
            res.violation("compute:modifies-sampling-points", "compute_phase_diagram modified the sampling points passed to it", c)
        if data.shape != serial.shape or not np.array_equal(data, serial):
            what = (f"shape {data.shape} instead of {serial.shape}" if data.shape != serial.shape else
                    f"{int(np.sum(data != serial))} entries differ, first at {np.argwhere(data != serial)[0].tolist()}")
            res.violation("compute:differs-from-serial",
                          f"compute_phase_diagram over the {n} points of the {c['scheme']} scheme (samples={c['s']}), function {c['func']}, n_jobs={c['n_jobs']}: {what}", c)
        # completion order of the chunks as seen by the workers
        kw = SpyPool.last_kw
        if kw is None or kw.get("_positional") or kw.get("iterable_len") is not None:
            res.skip("WorkerPool.map-not-called-with-keyword-chunking:chunk-order-not-examined")
            continue
        cs, ns = kw.get("chunk_size"), kw.get("n_splits")
        chs, predicted = mpire_chunks(pts, c["n_jobs"], with_predicted=True, chunk_size=cs, n_splits=ns)
        sizes = [len(ch) for ch in chs]
        hs = [_h(J) for J in pts]
        if True:
            tdone = {}
            for pid, t, h in log:
                tdone.setdefault(h, []).append(t)
            start, ctimes, ok = 0, [], True
            for sz in sizes:
                ts = []
                for h in hs[start:start + sz]:
                    if h not in tdone or not tdone[h]:
                        ok = False
                        break
                    ts.append(tdone[h].pop(0))
                if not ok:
                    break
                ctimes.append(max(ts))
                start += sz
            if ok and len(log) == n:
                order = sorted(range(len(sizes)), key=lambda i: ctimes[i])
                if order != list(range(len(sizes))):
                    ex["compute_runs_with_completion_order_different_from_submission_order"] += 1
                    by_jobs[str(c["n_jobs"])] = by_jobs.get(str(c["n_jobs"]), 0) + 1
                if cs is not None and ns is None and cs == max(1, -(-n // (4 * c["n_jobs"]))):
                    # the call as it is now: integer chunk size computed by koala; the model computes it itself
                    lines.append("kp %d %s %d %s" % (n, hx(c["n_jobs"]), len(order), " ".join(map(str, order))))
                    pend.append((c, sizes, order, int(cs), predicted))
                    if data.shape == serial.shape and np.array_equal(data, serial) and data.ndim in (2, 3) and data.size <= 20000:
                        # the END-TO-END model (Model/PhaseDiagram.v: chunking, pool in the observed order, concatenate, .T) on
                        # index-coded values: its returned array must have the implementation's layout
                        dims = [str(data.shape[0])] if data.ndim == 2 else [str(data.shape[1]), str(data.shape[0])]
                        vlines.append("%s %d %s %s %d %s" % ("kv" if data.ndim == 2 else "km", n, hx(c["n_jobs"]), " ".join(dims), len(order), " ".join(map(str, order))))
                        vpend.append((c, data, serial))
                else:
                    ceils = float_ceils(n, ns or 4 * c["n_jobs"], cs)
                    lines.append("pm %d %d %d %s %d %s" % (n, predicted, len(ceils), " ".join(hx(x) for x in ceils), len(order), " ".join(map(str, order))))
                    pend.append((c, sizes, order, None, predicted))
            else:
                res.skip("worker-log-incomplete")
                if len(log) != n:
                    ex["worker_log_lengths_unexpected"] = ex.get("worker_log_lengths_unexpected", 0) + 1
        res.sample({"compute": c, "points": n, "chunks": len(sizes), "result_shape": list(data.shape)}, cap=8)
    outs = drv(ctx, lines)
    check_layout(ctx, vlines, vpend)
    for (c, sizes, order, cs, predicted), o in zip(pend, outs):
        if "error" in o:
            raise RuntimeError(f"c20 driver error {o['error']}")
        ms = [int(x) for x in o["sizes"][1:]]
        if cs is not None and o["chunk_size"] != [str(cs)]:
            raise RuntimeError(f"harness and model disagree on koala_chunk_size: {o['chunk_size']} vs {cs}")
        if cs is not None and o["predicted"] != [str(predicted)]:
            ctx.k_mismatch(f"announced number of chunks: model {o['predicted'][0]}, mpire {predicted} (chunk size {cs})", c)
        elif o["raises"] != ["0"]:
            ctx.k_mismatch("the model raises (announced number of chunks differs from the number produced) but the implementation returned", c)
        elif ms != sizes:
            ctx.k_mismatch(f"chunk sizes differ: model {ms[:10]} mpire {sizes[:10]}", c)
        elif o["result"] != o["serial"] or [int(x) for x in o["delivered"][1:]] != order:
            ctx.k_mismatch(f"model parallel map on the observed completion order {order[:10]} does not return the serial order", c)
        else:
            res.traces += 1


def nested(cur, depth):
    return cur.list(lambda: nested(cur, depth - 1)) if depth > 1 else cur.list(cur.int)


def check_layout(ctx, vlines, vpend):
    """K for the returned array: entry [..., i] of the model's array is the code of (point i, component ...); the
    implementation's array must hold, at the same place, that component of the serial value at point i"""
    outs = drv(ctx, vlines)
    for (c, data, serial), ln, o in zip(vpend, vlines, outs):
        if "error" in o:
            raise RuntimeError(f"c20 driver error {o['error']} on {ln[:60]}")
        n = data.shape[-1]
        if o["raises"] != ["0"]:
            ctx.k_mismatch("end-to-end model raises but the implementation returned", c)
            continue
        codes = np.array(nested(Cursor(o["data"]), data.ndim), dtype=np.int64)
        rows = serial.T.reshape(n, -1)              # value of point i, flattened in C order
        D = rows.shape[1]
        if codes.shape != data.shape:
            ctx.k_mismatch(f"end-to-end model returns an array of shape {codes.shape}, the implementation {data.shape}", c)
        elif not np.array_equal(rows[codes // D, codes % D], data):
            ctx.k_mismatch(f"end-to-end model: the layout of the returned array (shape {data.shape}) differs from the implementation's", c)
        elif "evaluated" in o and [int(x) for x in o["evaluated"][1:]] != list(range(n)):
            ctx.k_mismatch("end-to-end model: evaluated points are not 0..n-1", c)
        else:
            ctx.res.traces += 1
            ctx.res.extra["returned_array_layouts_compared_with_model"] = ctx.res.extra.get("returned_array_layouts_compared_with_model", 0) + 1


def evaluate_chunk_count_scan(ctx, confirm):
    """every (scheme, samples, n_jobs) of the property's range: does mpire announce the number of chunks it then
    produces?  (pure functions of mpire, no pool).  The model's error path is compared on every combination; up to
    `confirm` of the disagreeing combinations are run through compute_phase_diagram."""
    res = ctx.res
    combos, lines = [], []
    for s in range(2, 41):
        for scheme in ("plain", "symmetric"):
            n = s * s if scheme == "plain" else len(get_points(scheme, s))
            for j in range(1, 17):
                chs, predicted = mpire_chunks(np.zeros((n, 3)), j, with_predicted=True)
                ceils = float_ceils(n, 4 * j)
                combos.append((scheme, s, n, j, predicted, len(chs)))
                lines.append("pm %d %d %d %s %d %s" % (n, predicted, len(ceils), " ".join(hx(x) for x in ceils), len(chs), " ".join(map(str, range(len(chs))))))
    # the call as it is now (integer chunk size computed by the model itself): chunk sizes and announced number
    # of chunks against mpire's for that chunk size
    klines = ["kp %d %s 0" % (n, hx(j)) for (_, _, n, j, _, _) in combos]
    kouts = drv(ctx, klines)
    for (scheme, s, n, j, _, _), o in zip(combos, kouts):
        cs = int(o["chunk_size"][0])
        chs, pred = mpire_chunks(np.zeros((n, 3)), j, with_predicted=True, chunk_size=cs)
        if [int(x) for x in o["sizes"][1:]] != [len(ch) for ch in chs] or o["predicted"] != [str(pred)] or o["raises"] != ["0"] or pred != len(chs):
            ctx.k_mismatch(f"{scheme} samples={s} n_jobs={j}, chunk_size={cs}: model sizes/announced {o['sizes'][:8]}/{o['predicted']} vs mpire {[len(ch) for ch in chs][:8]}/{pred}", {"kind": "compute", "scheme": scheme, "s": s, "func": "scalar", "n_jobs": j})
        else:
            res.traces += 1
    outs = drv(ctx, lines)
    badc = []
    for (scheme, s, n, j, predicted, actual), o in zip(combos, outs):
        res.count("chunk-count-scan", (scheme, s, j))
        model_raises = o["raises"] == ["1"]
        if model_raises != (predicted != actual):
            ctx.k_mismatch(f"{scheme} samples={s} n_jobs={j}: model error path says raises={model_raises}, mpire announces {predicted} chunks and produces {actual}", {"kind": "compute", "scheme": scheme, "s": s, "func": "scalar", "n_jobs": j})
        else:
            res.traces += 1
        if predicted != actual:
            badc.append({"kind": "compute", "scheme": scheme, "s": s, "func": "scalar", "n_jobs": j})
    res.extra["combinations_scanned_for_chunk_count"] = len(combos)
    res.extra["combinations_where_mpire_default_chunking_announces_a_wrong_chunk_count"] = [[c["scheme"], c["s"], c["n_jobs"]] for c in badc]
    if badc:
        evaluate_compute(ctx, badc[:confirm])


# ------------------------------------------------------------------ extraction cross-check (DESIGN 1.3)
def coq_crosscheck(ctx):
    """A sample of the (line, answer) pairs of EVERY command of the c20 driver is re-derived INSIDE Coq: the line is read
    back into Gallina literals (the driver's grammar) and each answer must be what vm_compute gives for the model function
    the driver evaluates (cases.v, one Goal ... vm_compute. reflexivity. per answer line).  A wrong extraction, a
    miscompiled model.ml or a driver / hexio bug makes coqc fail -> RuntimeError -> broken harness."""
    import xcheck as X
    sent = getattr(ctx, "xsent", [])
    quick = ctx.tier == "quick"
    rng = np.random.default_rng([ctx.seed, 20, 99])
    small = {"sp": lambda t: int(t[1]) <= 9, "nd": lambda t: int(t[1]) <= 6, "chq": lambda t: 2 <= int(t[1]) <= 1500,
             "ch": lambda t: 2 <= int(t[1]) <= 1500, "pm": lambda t: 2 <= int(t[1]) <= 400, "kp": lambda t: 2 <= int(t[1]) <= 400,
             "kv": lambda t: int(t[1]) * int(t[3]) <= 1200, "km": lambda t: int(t[1]) * int(t[3]) * int(t[4]) <= 1200}
    quota = {"sp": 3, "nd": 2, "chq": 4, "ch": 4, "pm": 5, "kp": 6, "kv": 3, "km": 2} if quick else \
            {"sp": 8, "nd": 5, "chq": 30, "ch": 30, "pm": 30, "kp": 40, "kv": 12, "km": 8}
    pools = {k: [] for k in small}
    for line, o in sent:
        t = line.split()
        if t[0] in small and "error" not in o and small[t[0]](t):
            pools[t[0]].append((t, o))
    q = lambda n, d: f"(Qmake ({int(n)})%Z {int(d)}%positive)"
    nl = X.natlist
    ints = lambda toks: [int(x) for x in toks[1:]]
    ident = "(fun x : nat => x)"
    body, n_cases = [], {}
    g = lambda lhs, rhs: body.append(X.goal(lhs, rhs))

    def qlist(toks, width):
        """'<count> { num den }*width ...' -> list of tuples of Q literals"""
        cur = Cursor(toks)
        return cur.list(lambda: tuple(q(cur.z(), cur.z()) for _ in range(width)))

    tup = lambda xs: "(" + ", ".join(xs) + ")"
    for kind in small:
        pool = pools[kind]
        idx = sorted(rng.choice(len(pool), size=min(len(pool), quota[kind]), replace=False).tolist()) if pool else []
        n_cases[kind] = len(idx)
        for k, i in enumerate(idx):
            t, o = pool[i]
            c = Cursor(t[1:])
            if kind == "sp":
                sn = X.nat(c.int())
                g(f"nonsym_triples {sn}", X.lst(tup, qlist(o["plain"], 3)))
                g(f"sym_triples {sn}", X.lst(tup, qlist(o["sym"], 3)))
                g(f"forallb on_simplex (nonsym_triples {sn}) && forallb on_simplex (sym_triples {sn})", X.boolean(o["simplex_ok"] == ["1"]))
                g(f"centre_in_grid {sn}", X.boolean(o["centre_in_grid"] == ["1"]))
            elif kind == "nd":
                sn = X.nat(c.int())
                g(f"nonsym_nodes {sn}", X.lst(tup, qlist(o["plain_nodes"], 2)))
                cur = Cursor(o["sym_nodes"])
                six = cur.list(lambda: cur.list(lambda: tup([q(cur.z(), cur.z()), q(cur.z(), cur.z())])))
                g(f"sym_nodes {sn}", X.lst(lambda l: X.lst(str, l), six))
            elif kind == "chq":
                n, m = c.int(), c.z()
                g(f"map (@length nat) (chunk_tasks (seq 0 {X.nat(n)}) {m}%positive)", nl(ints(o["sizes"])))
            elif kind == "ch":
                n, ceils = c.int(), c.list(c.z)
                g(f"map (@length nat) (chunk_tasks_by (fun i => nth i {X.zlist(ceils)} 1%Z) (seq 0 {X.nat(n)}))", nl(ints(o["sizes"])))
            elif kind == "pm":
                n, predicted, ceils, sched = c.int(), c.int(), c.list(c.z), c.list(c.int)
                CF, PO, XS = f"CFpm{k}", f"POpm{k}", f"(seq 0 {X.nat(n)})"
                body.append(f"Definition {CF} : nat -> Z := fun i => nth i {X.zlist(ceils)} 1%Z.")
                body.append(f"Definition {PO} : (list nat -> list nat) -> list (nat * list nat) -> list (nat * list nat) := fun g tasks => schedule_pool g {nl(sched)} tasks.")
                g(f"map (@length nat) (chunk_tasks_by {CF} {XS})", nl(ints(o["sizes"])))
                g(f"map fst ({PO} (computation {ident}) (tag (chunk_tasks_by {CF} {XS})))", nl(ints(o["delivered"])))
                g(f"parmap_by {ident} {PO} {CF} {XS}", nl(ints(o["result"])))
                g(f"serial {ident} {XS}", nl(ints(o["serial"])))
                g(f"match parmap_checked {ident} {PO} {CF} {X.nat(predicted)} {XS} with None => true | Some _ => false end", X.boolean(o["raises"] == ["1"]))
            elif kind == "kp":
                n, jobs, sched = c.int(), c.z(), c.list(c.int)
                PO, XS, J = f"POkp{k}", f"(seq 0 {X.nat(n)})", f"{jobs}%positive"
                body.append(f"Definition {PO} : (list nat -> list nat) -> list (nat * list nat) -> list (nat * list nat) := fun g tasks => schedule_pool g {nl(sched)} tasks.")
                g(f"koala_chunk_size {X.nat(n)} {J}", X.nat(o["chunk_size"][0]))
                g(f"n_chunks_exact {X.nat(n)} (koala_chunk_size {X.nat(n)} {J})", X.nat(o["predicted"][0]))
                g(f"map (@length nat) (koala_chunks {J} {XS})", nl(ints(o["sizes"])))
                g(f"map fst ({PO} (computation {ident}) (tag (koala_chunks {J} {XS})))", nl(ints(o["delivered"])))
                g(f"parmap {ident} {PO} {J} {XS}", "None" if o["raises"] == ["1"] else "Some " + nl(ints(o["result"])))
            elif kind == "kv":
                n, jobs, d, sched = c.int(), c.z(), c.int(), c.list(c.int)
                PO = f"fun (g : list nat -> list (list nat)) tasks => schedule_pool g {nl(sched)} tasks"
                f = f"(fun i : nat => map (fun j => i * {X.nat(d)} + j)%nat (seq 0 {X.nat(d)}))"
                g(f"evaluated_points {jobs}%positive (seq 0 {X.nat(n)})", nl(ints(o["evaluated"])))
                data = "None" if o["raises"] == ["1"] else "Some " + X.lst(nl, nested(Cursor(o["data"]), 2))
                g(f"cpd_vector {f} ({PO}) {jobs}%positive (seq 0 {X.nat(n)})", data)
            else:
                n, jobs, a, b, sched = c.int(), c.z(), c.int(), c.int(), c.list(c.int)
                PO = f"fun (g : list nat -> list (list (list nat))) tasks => schedule_pool g {nl(sched)} tasks"
                f = f"(fun i : nat => map (fun j => map (fun k => (i * {X.nat(a)} + j) * {X.nat(b)} + k) (seq 0 {X.nat(b)})) (seq 0 {X.nat(a)}))%nat"
                data = "None" if o["raises"] == ["1"] else "Some " + X.lst(lambda pl: X.lst(nl, pl), nested(Cursor(o["data"]), 3))
                g(f"cpd_matrix {f} ({PO}) {jobs}%positive (seq 0 {X.nat(n)})", data)
    goals = X.compile_goals("c20", "Model.Sampling Model.ParMap Model.PhaseDiagram", body, "c20", stdlib="List ZArith QArith Bool Arith")
    ctx.res.extra["extraction_crosscheck"] = {"driver_answers_rederived_in_coq_by_vm_compute": goals, "cases_per_command": n_cases,
                                              "coqc_seconds": X.LAST_WALL}
    ctx.res.traces += goals


# ------------------------------------------------------------------ generators
def compute_cases(tier, seed):
    g = np.random.default_rng([seed, 20])
    jobs = [1, 2, 3, 5, 8, 16] if tier == "quick" else list(range(1, 17))
    cases = []
    for j in jobs:
        for func in FUNCS:
            schemes = [("plain", int(g.integers(4, 9))), ("symmetric", int(g.integers(8, 15)))]
            if tier != "quick":
                schemes += [("plain", int(g.integers(2, 5))), ("symmetric", int(g.integers(2, 8)))]
            else:
                schemes = [schemes[(j + len(func)) % 2]]
            for scheme, s in schemes:
                cases.append({"kind": "compute", "scheme": scheme, "s": s, "func": func, "n_jobs": j})
    # few points, many workers (more chunks requested than points)
    cases.append({"kind": "compute", "scheme": "symmetric", "s": 2, "func": "vector", "n_jobs": 16})
    cases.append({"kind": "compute", "scheme": "plain", "s": 2, "func": "scalar+args", "n_jobs": 5})
    # as many components per point as there are points (a square result: the orientation cannot be guessed from the shape)
    for j in ([1, 3] if tier == "quick" else [1, 2, 3, 4, 7, 16]):
        cases.append({"kind": "compute", "scheme": "plain", "s": 2, "func": "vector", "n_jobs": j})                    # 4 points, 4-vectors
        cases.append({"kind": "compute", "scheme": "symmetric", "s": 2, "func": "vector+args", "n_jobs": j})           # 3 points, 3-vectors
        cases.append({"kind": "compute", "scheme": "symmetric", "s": 2, "func": "mixed-int-float-vector", "n_jobs": j})
        cases.append({"kind": "compute", "scheme": "symmetric", "s": 2, "func": "matrix", "n_jobs": j})                # (3, 2, 3)
    return cases


def chunk_pairs(tier, seed):
    g = np.random.default_rng([seed, 21])
    ns = set()
    for s in range(2, 41):
        ns.add(s * s)
        ns.add(len(get_points("symmetric", s)))
    ns |= {1, 2, 3, 5, 63, 64, 65}          # (mpire itself divides by zero on an empty array: outside the property)
    ns |= {int(x) for x in g.integers(1, 3000, 30 if tier == "quick" else 300)}
    jobs = [1, 2, 3, 5, 8, 16] if tier == "quick" else list(range(1, 17))
    return [(n, j) for n in sorted(ns) for j in jobs]


def run(ctx):
    ctx.res.rule = ("sampling: samples = 2..40, both schemes (every size; non-trivial = each (scheme, samples)); chunking: every point count produced by the two schemes for samples 2..40 "
                    "plus random counts up to 3000, n_jobs in 1..16 (quick: 1,2,3,5,8,16), non-trivial = more points than chunks; compute_phase_diagram: n_jobs x {scalar, vector} x "
                    "{with, without shared arguments} on sampling points of both schemes with per-point sleep chosen by a hash of the point, non-trivial = n_jobs >= 2")
    evaluate_sampling(ctx, list(range(2, 41)))
    evaluate_chunking(ctx, chunk_pairs(ctx.tier, ctx.seed))
    evaluate_compute(ctx, compute_cases(ctx.tier, ctx.seed))
    evaluate_chunk_count_scan(ctx, 3 if ctx.tier == "quick" else 40)
    coq_crosscheck(ctx)


def search(ctx):
    evaluate_sampling(ctx, list(range(2, 61)))
    evaluate_chunking(ctx, chunk_pairs("thorough", ctx.seed + 1))
    evaluate_compute(ctx, compute_cases("thorough" if ctx.tier != "quick" else "quick", ctx.seed + 1))


def replay(ctx, payload):
    c = payload["case"]
    if c["kind"] == "sampling":
        evaluate_sampling(ctx, [c["s"]])
    elif c["kind"] == "chunk":
        evaluate_chunking(ctx, [(c["n"], c["n_jobs"])])
    else:
        evaluate_compute(ctx, [c])
