"""C17 — the de Bruijn-grid generator yields a planar edge-to-edge rhombus tiling.

The generator (cos/sin/la.inv/argsort on irrational data) is not modelled.  Every output lattice of
de_brujin_grid / penrose_tiling is decided EXACTLY by the extracted, proved-sound checker
Model/Tiling2.check_rhombus_tiling (float64 positions enter as exact dyadics).  Exceptions raised by the
generator inside the property's domain are violations."""
from lib import *  # noqa
import traceback
from koala import quasicrystals
from koala.lattice import Lattice

DRIVERS = ("c17",)
MODEL_TARGETS = ["Model/Lattice.vo", "Model/Tiling2.vo"]
TARGETS = ["Proofs/Tiling2Facts.vo"]
LEVEL = "proof"
TRUST = [
    "PARTIAL, checker-level: the generator quasicrystals.de_brujin_grid is NOT modelled; the theorems are soundness theorems of the checker "
    "check_rhombus_tiling (coq/Model/Tiling2.v) which is run (extracted) on every generated output; 'for all offsets' is explored, not proved",
    "the face census inside the checker is the shared model Lattice.find_all_plaquettes (tied to lattice.py by C01's correspondence run); Euler's theorem "
    "(crossing-free + connected => the bounded faces are exactly the E-V+1 plaquettes) is not proved in Coq",
    "star directions (cos, sin)(2 pi b/B) enter as the double-precision libm values (error < 1e-15), exact as dyadic rationals; tolerance 1e-9 on "
    "|l^2/l0^2-1|, on |sin| of the angle to the nearest star direction and on the parallelogram defect of every face",
]
ASSUMPTIONS = ["odd number of bundles in {3,5,7,9}, 5..14 lines, generic offsets (property quantifier)"]

TOL_N, TOL_D = 1, 10 ** 9
DIR_DEN_BITS = 60


def offsets_of(case):
    k = case["offsets"]
    B = case["B"]
    if k == "default":
        return None
    if k == "scalar":
        return float(case["value"])
    if k == "random_offsets":
        np.random.seed(case["np_seed"])
        return quasicrystals.random_offsets(B)
    if k == "generic":
        rng = np.random.default_rng([case["np_seed"], B, 17])
        return rng.uniform(-0.5, 0.5, size=B)
    raise ValueError(k)


def grid_parameters(case):
    """(angles, offsets) exactly as the generator will compute them (same global-RNG draws)"""
    B = case["B"]
    if case["offsets"] == "penrose":
        np.random.seed(case["np_seed"])
        g = np.random.random(5) - 0.5
        g = g - (np.sum(g) - 1) / 5
        g = (g + 0.5) % 1 - 0.5
        r = np.random.random(5)
        return np.arange(5) * (2 * np.pi / 5) + 0 * (r - 0.5) * 2 * np.pi, g
    off = offsets_of(case)
    if off is None:
        off = np.full(B, 0.2)
    elif isinstance(off, float):
        off = np.full(B, off)
    np.random.seed(case["np_seed"] + 1)
    r = np.random.random(B)
    return np.arange(B) * (2 * np.pi / B) + case["disorder"] * (r - 0.5) * 2 * np.pi, np.asarray(off, dtype=float)


def grid_margin(case):
    """genericity of the multigrid: smallest distance (in line spacings) of an intersection point of two
    grid lines from a grid line of a third bundle (0 = three lines through one point = singular grid), and
    the smallest distance of two parallel... (float estimate, used only for the 'generic offsets' clause)"""
    angles, off = grid_parameters(case)
    B, n = case["B"], case["n"]
    normals = np.stack([np.cos(angles + np.pi / 2), np.sin(angles + np.pi / 2)], axis=1)
    grads = np.stack([np.cos(angles), np.sin(angles)], axis=1)
    lo = np.arange(n) - (n - 1) // 2
    m = 1.0
    for b1 in range(B):
        for b2 in range(b1 + 1, B):
            # intersection x with x.n1 = off1 + k1, x.n2 = off2 + k2
            M = np.array([normals[b1], normals[b2]])
            K1, K2 = np.meshgrid(lo + off[b1], lo + off[b2], indexing="ij")
            X = np.linalg.solve(M, np.stack([K1.ravel(), K2.ravel()]))      # 2 x n^2
            for b3 in range(B):
                if b3 in (b1, b2):
                    continue
                d = normals[b3] @ X - off[b3]
                k = np.clip(np.round(d), lo[0], lo[-1])
                m = min(m, float(np.min(np.abs(d - k))))
    return m


def generate(case):
    """returns the lattice; raises what the generator raises"""
    if case["offsets"] == "penrose":
        np.random.seed(case["np_seed"])
        return quasicrystals.penrose_tiling(case["n"])
    off = offsets_of(case)
    np.random.seed(case["np_seed"] + 1)       # angle_disorder draws from the global generator
    return quasicrystals.de_brujin_grid(case["n"], case["B"], off, case["disorder"])


def ser_case(lat, B, use_dirs):
    line, S = ser_lattice(lat)
    D = 1 << DIR_DEN_BITS
    dirs = [(int(Fraction(math.cos(2 * math.pi * b / B)) * D), int(Fraction(math.sin(2 * math.pi * b / B)) * D)) for b in range(B)]
    toks = ["c17", hx(TOL_N), hx(TOL_D), "1" if use_dirs else "0", str(len(dirs))]
    for x, y in dirs:
        toks += [hx(x), hx(y)]
    return " ".join(toks) + " " + line


def rhombus_classes(lat, B):
    """python-side census for B bundles: the direction class (0..B-1) of every edge and the multiset of
    |b1-b2| over the faces (informational + the Penrose clause for B=5)"""
    pos, idx = lat.vertices.positions, lat.edges.indices
    v = pos[idx[:, 1]] - pos[idx[:, 0]]
    ang = np.arctan2(v[:, 1], v[:, 0])
    cls = np.round(ang / (2 * np.pi / B)).astype(int) % B     # direction b or b + B/2 (B odd: antiparallel is distinct modulo pi)
    # modulo pi: edge direction is unoriented; for odd B, angle mod pi determines b uniquely via 2b mod B
    cls = np.round(((ang % np.pi) * 2) / (2 * np.pi / B)).astype(int) % B   # = 2b mod B
    out = {}
    for p in lat.plaquettes:
        c = sorted(set(int(cls[e]) for e in p.edges))
        if len(c) != 2:
            return None
        # angle between the two families
        e1 = [e for e in p.edges if cls[e] == c[0]][0]
        e2 = [e for e in p.edges if cls[e] == c[1]][0]
        a = abs(math.degrees(math.atan2(v[e1][0] * v[e2][1] - v[e1][1] * v[e2][0], v[e1] @ v[e2])))
        a = min(a, 180 - a)
        k = int(round(a))
        out[k] = out.get(k, 0) + 1
    return out


def ser_arrays(pos, edges, crossing, B, use_dirs):
    line, S = ser_lattice_arrays(pos, edges, crossing)
    D = 1 << DIR_DEN_BITS
    dirs = [(int(Fraction(math.cos(2 * math.pi * b / B)) * D), int(Fraction(math.sin(2 * math.pi * b / B)) * D)) for b in range(B)]
    toks = ["c17", hx(TOL_N), hx(TOL_D), "1" if use_dirs else "0", str(len(dirs))]
    for x, y in dirs:
        toks += [hx(x), hx(y)]
    return " ".join(toks) + " " + line


def work(case):
    """everything that touches koala for one case, in a worker process; returns plain data"""
    out = {"margin": grid_margin(case)}
    if out["margin"] < 1e-9:
        if case["offsets"] == "random_offsets":
            out["offsets"] = offsets_of(case).tolist()
        return out
    try:
        lat = generate(case)
    except Exception as e:
        tb = traceback.extract_tb(e.__traceback__)
        where = next((f"{os.path.basename(f.filename)}:{f.lineno}" for f in reversed(tb) if "koala" in f.filename), "?")
        out["exception"] = (type(e).__name__, str(e)[:200], where)
        return out
    out["pos"] = np.array(lat.vertices.positions, dtype=float)
    out["edges"] = np.array(lat.edges.indices, dtype=int).reshape(-1, 2)
    out["crossing"] = np.array(lat.edges.crossing, dtype=int).reshape(-1, 2)
    try:
        out["n_sides"] = [int(p.n_sides) for p in lat.plaquettes]
    except Exception as e:
        out["plaq_exception"] = f"{type(e).__name__}: {e}"
        return out
    if case["disorder"] == 0:
        rc = rhombus_classes(lat, case["B"])
        out["rc"] = rc if rc is not None else "bad"
    return out


def evaluate(ctx, cases, label):
    res, ex = ctx.res, ctx.res.extra
    from concurrent.futures import ProcessPoolExecutor
    if len(cases) > 8:
        with ProcessPoolExecutor(max_workers=8) as pool:
            results = list(pool.map(work, cases, chunksize=4))
    else:
        results = [work(c) for c in cases]
    built, lines = [], []
    for case, w in zip(cases, results):
        fam = f"B={case['B']}/{case['offsets']}/disorder={case['disorder']}"
        margin = w["margin"]
        if margin < 1e-9:
            if case["offsets"] == "random_offsets":
                # random_offsets(B) forces sum(offsets) = 1; on 3 bundles that is a singular (all-triple-point) grid:
                # NOT generic, the property says nothing there (observation outside the property, kept in evidence)
                res.skip("nongeneric:random_offsets-B3-integer-sum" if case["B"] == 3 else "nongeneric:random_offsets-singular-grid")
                ex.setdefault("random_offsets_singular_cases", []).append(
                    {"B": case["B"], "n": case["n"], "np_seed": case["np_seed"], "disorder": case["disorder"], "margin": margin, "offsets": w.get("offsets")})
            else:
                res.skip("nongeneric-offsets(three grid lines within 1e-9 of a common point)")
            continue
        ex["min_grid_margin_evaluated"] = min(ex.get("min_grid_margin_evaluated", 1.0), margin)
        if "exception" in w:
            res.count(fam)
            tname, msg, where = w["exception"]
            res.violation("generator-exception", f"{describe(case)} raised {tname}: {msg} at {where}", case)
            lst = ex.setdefault("exceptions", {}).setdefault(f"{tname}@{where}", [])
            if len(lst) < 8:
                lst.append(describe(case))
            continue
        built.append((case, fam, w))
        lines.append(ser_arrays(w["pos"], w["edges"], w["crossing"], case["B"], case["disorder"] == 0))
    outs = run_driver_parallel(ctx.exe["c17"], lines, jobs=8, timeout=6000)
    for (case, fam, w), o in zip(built, outs):
        if "error" in o:
            raise RuntimeError(f"c17 driver error {o['error']} on {case}")
        nv, ne = len(w["pos"]), len(w["edges"])
        res.count(fam, digest([w["pos"].tolist(), w["edges"].tolist()]))
        res.traces += 1
        b = "V<=100" if nv <= 100 else "V<=300" if nv <= 300 else "V<=1000" if nv <= 1000 else "V>1000"
        ex.setdefault("size_histogram", {}).setdefault(b, 0)
        ex["size_histogram"][b] += 1
        res.sample({"case": case, "V": nv, "E": ne, "F": len(w.get("n_sides", []))})
        if o["ok"][0] != "1":
            failed = [k for k in ("wf", "zero_crossing", "no_self_loops", "distinct", "degrees", "in_square", "connected", "no_crossing",
                                  "lengths", "directions", "faces") if o.get(k, ["1"])[0] != "1"]
            extra = ""
            if "faces" in failed and o.get("sides"):
                sides = o["sides"][1:] if o["sides"][0] != "ERR" else ["ERR"]
                hist = {}
                for s_ in sides:
                    hist[s_] = hist.get(s_, 0) + 1
                extra = f"; V={nv} E={ne} faces by number of sides: {hist} (V-E+F={nv - ne + len(sides)})"
            res.violation("not-a-rhombus-tiling:" + "+".join(failed), f"{describe(case)}: checker rejects the output lattice: failed {failed}{extra}", case)
            continue
        # koala's own plaquettes agree with the census the checker used
        if "plaq_exception" in w:
            res.violation("plaquettes-exception", f"{describe(case)}: accessing plaquettes raised {w['plaq_exception']}", case)
            continue
        ns = w["n_sides"]
        if any(n != 4 for n in ns) or nv - ne + len(ns) != 1:
            res.violation("koala-plaquettes", f"{describe(case)}: koala reports plaquettes with sides {sorted(set(ns))}, V-E+F={nv - ne + len(ns)}", case)
        if case["disorder"] == 0:
            rc = w.get("rc")
            if rc == "bad":
                res.violation("rhombus-directions", f"{describe(case)}: a plaquette does not have exactly two edge directions", case)
            elif rc is not None:
                d = ex.setdefault("rhombus_angles_by_B", {}).setdefault(str(case["B"]), {})
                for k, v in rc.items():
                    d[str(k)] = d.get(str(k), 0) + v
                if case["B"] == 5 and not set(rc) <= {36, 72}:
                    res.violation("penrose-rhombi", f"{describe(case)}: rhombus acute angles {sorted(rc)} (expected only 36 and 72 degrees)", case)


def describe(case):
    if case["offsets"] == "penrose":
        return f"np.random.seed({case['np_seed']}); penrose_tiling({case['n']})"
    off = {"default": "None", "scalar": repr(case.get("value")), "random_offsets": f"random_offsets({case['B']}) after np.random.seed({case['np_seed']})",
           "generic": f"default_rng([{case['np_seed']},{case['B']},17]).uniform(-.5,.5,{case['B']})"}[case["offsets"]]
    return f"de_brujin_grid({case['n']}, {case['B']}, {off}, angle_disorder={case['disorder']})"


def gen_cases(tier, seed, big=False):
    rng = np.random.default_rng([seed, 17])
    cases = []
    if tier == "quick":
        combos = [(B, n) for B in (3, 5, 7) for n in (5, 6, 7, 8)]
        reps, pen_ns, pen_reps = 2, (5, 6, 7, 8), 6
    else:
        # sizes chosen so that the extracted checker (quadratic in E) stays within the thorough budget
        combos = ([(3, n) for n in range(5, 15)] + [(5, n) for n in range(5, 12)] + [(7, n) for n in range(5, 10)] + [(9, n) for n in range(5, 8)])
        reps, pen_ns, pen_reps = 2, tuple(range(5, 12)), 8
    for B, n in combos:
        cases.append({"B": B, "n": n, "offsets": "default", "disorder": 0, "np_seed": 0})
        for _ in range(reps):
            cases.append({"B": B, "n": n, "offsets": "scalar", "value": round(float(rng.uniform(-0.45, 0.45)), 3), "disorder": 0, "np_seed": 0})
            for kind in ("random_offsets", "generic"):
                for dis in (0, 0.02, 0.1):
                    cases.append({"B": B, "n": n, "offsets": kind, "disorder": dis, "np_seed": int(rng.integers(0, 2 ** 31))})
    if tier != "quick":
        # a few large ones (default offsets and one generic vector each)
        for B, n in ((5, 14), (7, 12), (9, 10), (5, 13)):
            cases.append({"B": B, "n": n, "offsets": "default", "disorder": 0, "np_seed": 0})
            cases.append({"B": B, "n": n, "offsets": "generic", "disorder": 0, "np_seed": int(rng.integers(0, 2 ** 31))})
    for n in pen_ns:
        for _ in range(pen_reps):
            cases.append({"B": 5, "n": n, "offsets": "penrose", "disorder": 0, "np_seed": int(rng.integers(0, 2 ** 31))})
    return cases


def corpus_cases():
    """minimised past failures (corpus/C17/*.json), run first"""
    import glob
    out = []
    for f in sorted(glob.glob(os.path.join(VERIF, "corpus", "C17", "*.json"))):
        out.append(json.load(open(f))["case"])
    return out


def run(ctx):
    ctx.res.rule = ("number_of_bundles in {3,5,7} (thorough: 9 too), lines 5..8 (thorough: B=3 5..14, B=5 5..11, B=7 5..9, B=9 5..7 and single large cases (5,14),(5,13),(7,12),(9,10)), offsets default / random scalar / random_offsets / generic uniform vectors, "
                    "angle_disorder 0/0.02/0.1, penrose_tiling(n) under np.random.seed(s); every case is a distinct output lattice (hash of positions+edges) and non-trivial (>= 30 rhombi)")
    evaluate(ctx, corpus_cases() + gen_cases(ctx.tier, ctx.seed), "S")


def search(ctx):
    evaluate(ctx, gen_cases(ctx.tier, ctx.seed + 1), "search")


def replay(ctx, payload):
    evaluate(ctx, [payload["case"]], "replay")
