"""C17 — the de Bruijn-grid generator yields a planar edge-to-edge rhombus tiling.

The generator (cos/sin/la.inv/argsort on irrational data) is modelled only in its algebraic core (Model/DeBruijn.v, K below:
generate_captured / ser_db / ser_gv / compare_dual, extraction cross-check coq_crosscheck).  Every output lattice of
de_brujin_grid / penrose_tiling is decided EXACTLY by the extracted, proved-sound checker
Model/Tiling2.check_rhombus_tiling (float64 positions enter as exact dyadics).  Exceptions raised by the
generator inside the property's domain are violations."""
from lib import *  # noqa
import traceback
from koala import quasicrystals
from koala.lattice import Lattice

DRIVERS = ("c17",)
MODEL_TARGETS = ["Model/Lattice.vo", "Model/Tiling2.vo", "Model/DeBruijn.vo"]
TARGETS = ["Proofs/Tiling2Facts.vo", "Proofs/DeBruijnFacts.vo", "Proofs/RhombusTol.vo"]
LEVEL = "proof"
TRUST = [
    "PARTIAL: the generator quasicrystals.de_brujin_grid is modelled only in its algebraic core (coq/Model/DeBruijn.v: line offsets, intersection by "
    "Cramer's rule, find_pent_index, clipping window, map_to_position; theorems C17_dual_parallelogram / C17_dual_rhombus / C17_generic_cells_exist / "
    "C17_grid_vertex_on_lines over Q with abstract directions); argsort / edge construction / make_dual / clipping / trailing-edge removal are not modelled "
    "here, so the remaining theorems are soundness theorems of the checker check_rhombus_tiling (coq/Model/Tiling2.v) which is run (extracted) on every "
    "generated output; 'for all offsets' is explored, not proved",
    "K of the dual construction reads the generator's intermediate arrays (angles, normals, starting_positions, scaling, dual vertex positions, all_indices, "
    "mask, scale2, all_vertices) from the frame of de_brujin_grid when it returns (sys.settrace in the harness process; /repo untouched); the model is "
    "evaluated exactly on those float values; dual vertices within 1e-9 of a grid line (in line spacings) are skipped; when a local of that name does "
    "not exist the comparison is skipped and counted (dualK:intermediates-not-observable), not reported; that the averaged corner point of a grid face "
    "lies in the face's cell is not proved - every (sampled, thorough: every) face is instead certified by the proved checker quad_steps on the index vectors",
    "the face census inside the checker is the shared model Lattice.find_all_plaquettes (tied to lattice.py by C01's correspondence run); Euler's theorem "
    "(crossing-free + connected => the bounded faces are exactly the E-V+1 plaquettes) is not proved in Coq",
    "star directions (cos, sin)(2 pi b/B) enter as the double-precision libm values (error < 1e-15), exact as dyadic rationals; tolerance 1e-9 on "
    "|l^2/l0^2-1|, on |sin| of the angle to the nearest star direction and on the parallelogram defect of every face",
]
ASSUMPTIONS = ["odd number of bundles in {3,5,7,9}, 5..14 lines, generic offsets (property quantifier)"]

TOL_N, TOL_D = 1, 10 ** 9
DIR_DEN_BITS = 60


def offsets_of(case):
    k = case["offsets"]
    B = case["B"]
    if k == "default":
        return None
    if k == "scalar":
        return float(case["value"])
    if k == "random_offsets":
        np.random.seed(case["np_seed"])
        return quasicrystals.random_offsets(B)
    if k == "generic":
        rng = np.random.default_rng([case["np_seed"], B, 17])
        return rng.uniform(-0.5, 0.5, size=B)
    raise ValueError(k)


def grid_parameters(case):
    """(angles, offsets) exactly as the generator will compute them (same global-RNG draws)"""
    B = case["B"]
    if case["offsets"] == "penrose":
        np.random.seed(case["np_seed"])
        g = np.random.random(5) - 0.5
        g = g - (np.sum(g) - 1) / 5
        g = (g + 0.5) % 1 - 0.5
        r = np.random.random(5)
        return np.arange(5) * (2 * np.pi / 5) + 0 * (r - 0.5) * 2 * np.pi, g
    off = offsets_of(case)
    if off is None:
        off = np.full(B, 0.2)
    elif isinstance(off, float):
        off = np.full(B, off)
    np.random.seed(case["np_seed"] + 1)
    r = np.random.random(B)
    return np.arange(B) * (2 * np.pi / B) + case["disorder"] * (r - 0.5) * 2 * np.pi, np.asarray(off, dtype=float)


def grid_margin(case):
    """genericity of the multigrid: smallest distance (in line spacings) of an intersection point of two
    grid lines from a grid line of a third bundle (0 = three lines through one point = singular grid), and
    the smallest distance of two parallel... (float estimate, used only for the 'generic offsets' clause)"""
    angles, off = grid_parameters(case)
    B, n = case["B"], case["n"]
    normals = np.stack([np.cos(angles + np.pi / 2), np.sin(angles + np.pi / 2)], axis=1)
    grads = np.stack([np.cos(angles), np.sin(angles)], axis=1)
    lo = np.arange(n) - (n - 1) // 2
    m = 1.0
    for b1 in range(B):
        for b2 in range(b1 + 1, B):
            # intersection x with x.n1 = off1 + k1, x.n2 = off2 + k2
            M = np.array([normals[b1], normals[b2]])
            K1, K2 = np.meshgrid(lo + off[b1], lo + off[b2], indexing="ij")
            X = np.linalg.solve(M, np.stack([K1.ravel(), K2.ravel()]))      # 2 x n^2
            for b3 in range(B):
                if b3 in (b1, b2):
                    continue
                d = normals[b3] @ X - off[b3]
                k = np.clip(np.round(d), lo[0], lo[-1])
                m = min(m, float(np.min(np.abs(d - k))))
    return m


def generate(case):
    """returns the lattice; raises what the generator raises"""
    if case["offsets"] == "penrose":
        np.random.seed(case["np_seed"])
        return quasicrystals.penrose_tiling(case["n"])
    off = offsets_of(case)
    np.random.seed(case["np_seed"] + 1)       # angle_disorder draws from the global generator
    return quasicrystals.de_brujin_grid(case["n"], case["B"], off, case["disorder"])


# ------------------------------------------------------------------ K for the dual construction (Model/DeBruijn.v)
# The arrays the generator passes from its grid stage to its dual stage are not return values.  They are read, without
# touching /repo, from the frame of de_brujin_grid when it returns (sys.settrace, 'return' event only).  If a local of
# that name no longer exists (renamed by a refactoring) this part of K is skipped and counted, never reported.
WANT = ("angles", "gradients", "normals", "grid_offsets", "number_of_lines", "scaling", "starting_positions", "all_vertices",
        "dual", "all_indices", "mask", "dual_clipped", "scale2")


def generate_captured(case):
    import sys
    box = {}
    code = quasicrystals.de_brujin_grid.__code__

    def tracer(frame, event, arg):
        if event == "call" and frame.f_code is code:
            frame.f_trace_lines = False

            def local(frame, event, arg):
                if event == "return":
                    box.clear()
                    box.update({n: frame.f_locals[n] for n in WANT if n in frame.f_locals})
                return local
            return local
        return None
    old = sys.gettrace()
    sys.settrace(tracer)
    try:
        lat = generate(case)
    finally:
        sys.settrace(old)
    return lat, box


def plain_capture(box, lat):
    """picklable copy of the captured intermediates (None when something is missing or has an unexpected shape)"""
    try:
        if any(n not in box for n in WANT):
            return None
        B = len(box["angles"])
        d = {"angles": np.array(box["angles"], dtype=float).reshape(B), "gradients": np.array(box["gradients"], dtype=float).reshape(B, 2),
             "normals": np.array(box["normals"], dtype=float).reshape(B, 2), "grid_offsets": np.array(box["grid_offsets"], dtype=float).reshape(B),
             "n": int(box["number_of_lines"]), "scaling": float(box["scaling"]), "scale2": float(box["scale2"]),
             "starts": np.array(box["starting_positions"], dtype=float).reshape(B, 2),
             "all_vertices": np.array(box["all_vertices"], dtype=float).reshape(-1, 2),
             "dual_pos": np.array(box["dual"].vertices.positions, dtype=float).reshape(-1, 2),
             "all_indices": np.array(box["all_indices"], dtype=float).reshape(-1, B),
             "mask": np.array(box["mask"], dtype=bool).reshape(-1),
             "clipped_pos": np.array(box["dual_clipped"].vertices.positions, dtype=float).reshape(-1, 2)}
        if len(d["all_indices"]) != len(d["dual_pos"]) or len(d["mask"]) != len(d["dual_pos"]) or len(d["clipped_pos"]) != lat.n_vertices:
            return None
        d["faces"] = [[int(v) for v in p.vertices] for p in lat.plaquettes]
        return d
    except Exception:
        return None


def qtok(x):
    f = Fraction(float(x))
    return hx(f.numerator) + " " + hx(f.denominator)


def qpairs(arr):
    arr = np.asarray(arr, dtype=float).reshape(-1, 2)
    return [str(len(arr))] + [qtok(x) + " " + qtok(y) for x, y in arr]


def ser_db(cap, quick=False):
    """db line: the generator's own arrays (exact dyadics) -> find_pent_index / window / map_to_position of the model for dual
    vertices: first vertices cap["sel"] of the unclipped dual, then vertices cap["csel"] of the clipped dual (= the tiling's
    vertices), and the certificate of the faces cap["fsel"].  Thorough tier: everything; quick tier: 50 random unclipped
    vertices, 30 random faces and their vertices plus 20 more random tiling vertices (the extracted rational arithmetic
    costs ~6 ms per vertex)."""
    stars = np.stack([np.cos(cap["angles"]), np.sin(cap["angles"])], axis=1)       # map_to_position's own expressions
    nd, nc = len(cap["dual_pos"]), len(cap["clipped_pos"])
    faces = [f for f in cap["faces"] if len(f) == 4]
    rng = np.random.default_rng([nd, nc, 17])
    pick = lambda n, k: list(range(n)) if (not quick or n <= k) else sorted(rng.choice(n, size=k, replace=False).tolist())
    cap["sel"] = pick(nd, 50)
    fsel = [faces[k] for k in pick(len(faces), 30)]
    cap["csel"] = sorted(set(v for f in fsel for v in f) | set(pick(nc, 20)))
    where = {v: k for k, v in enumerate(cap["csel"])}
    pts = np.concatenate([cap["dual_pos"][cap["sel"]].reshape(-1, 2), cap["clipped_pos"][cap["csel"]].reshape(-1, 2)])
    n1 = len(cap["sel"])
    toks = ["db", hx(cap["n"]), qtok(cap["scaling"])] + qpairs(cap["starts"]) + qpairs(cap["normals"]) + qpairs(stars) + qpairs(pts)
    toks.append(str(len(fsel)))
    for f in fsel:
        toks += [str(where[v] + n1) for v in f]
    return " ".join(toks), stars, fsel


def ser_gv(cap, quick=False):
    """gv line: starting positions and grid intersections (all of them; quick tier: 60 random ones) of the model grid"""
    B, n = len(cap["angles"]), cap["n"]
    toks = ["gv", str(n), qtok(cap["scaling"])] + qpairs(cap["gradients"]) + qpairs(cap["normals"])
    toks += [str(B)] + [qtok(x) for x in cap["grid_offsets"]]
    pairs = [(b1, b2) for b1 in range(B) for b2 in range(b1 + 1, B)]
    tot = len(pairs) * n * n
    ks = list(range(tot)) if (not quick or tot <= 60) else sorted(np.random.default_rng([tot, 171]).choice(tot, size=60, replace=False).tolist())
    cap["gsel"] = ks
    toks.append(str(len(ks)))
    for k in ks:                                                            # the code's loop order: b1 < b2, l1, l2
        (b1, b2), l1, l2 = pairs[k // (n * n)], (k % (n * n)) // n, k % n
        toks += [str(b1), str(l1), str(b2), str(l2)]
    return " ".join(toks)


def qval(toks, i):
    return Fraction(unhx(toks[i]), unhx(toks[i + 1]))


def compare_dual(ctx, case, w, cap, o_db, o_gv, stars, faces):
    """model (exact, on the generator's own float arrays) against the generator: index vectors, clipping window, tiling
    positions, the face certificates, grid intersections and starting positions"""
    ex = ctx.res.extra
    st = ex.setdefault("dualK", {"cases": 0, "points_index_compared": 0, "points_near_grid_line_skipped": 0, "positions_compared": 0,
                                 "faces_certified": 0, "faces_skipped_near_grid_line": 0, "grid_vertices_compared": 0})
    B = len(cap["angles"])
    sel, csel = cap["sel"], cap["csel"]
    where = {v: k for k, v in enumerate(csel)}
    n1, n2 = len(sel), len(csel)
    idx = np.array([unhx(t) for t in o_db["idx"]], dtype=object).reshape(n1 + n2, B)
    mar = np.array([float(qval(o_db["mar"], 2 * i)) for i in range(n1 + n2)])
    win = np.array([t == "1" for t in o_db["win"]])
    good = mar >= 1e-9
    bad = []
    # (1) find_pent_index and (2) the mask on the unclipped dual
    for p in range(n1):
        if not good[p]:
            st["points_near_grid_line_skipped"] += 1
            continue
        st["points_index_compared"] += 1
        impl = [int(x) for x in cap["all_indices"][sel[p]]]
        if impl != [int(x) for x in idx[p]]:
            bad.append(f"find_pent_index of dual vertex {sel[p]}: implementation {impl}, model {[int(x) for x in idx[p]]}")
        elif bool(cap["mask"][sel[p]]) != (not win[p]):
            bad.append(f"clipping mask of dual vertex {sel[p]} (index {impl}): implementation removes={bool(cap['mask'][sel[p]])}, model keeps={bool(win[p])}")
    # (3) positions of the final lattice
    pos_model = np.array([[float(qval(o_db["pos"], 4 * i)), float(qval(o_db["pos"], 4 * i + 2))] for i in range(n1, n1 + n2)]).reshape(-1, 2)
    if n2 and n2 == len(cap["clipped_pos"]) and good[n1:].all():
        s2 = 0.9 / (2 * np.max(np.abs(pos_model)))
        if abs(s2 - cap["scale2"]) > 1e-9 * s2:
            bad.append(f"final rescaling: implementation scale2={cap['scale2']!r}, model {s2!r}")
    for q in range(n2):
        if not good[n1 + q]:
            continue
        st["positions_compared"] += 1
        d = np.max(np.abs(pos_model[q] * cap["scale2"] + 0.5 - w["pos"][csel[q]]))
        if not d <= 1e-9:
            bad.append(f"position of tiling vertex {csel[q]}: implementation {w['pos'][csel[q]].tolist()}, model {(pos_model[q] * cap['scale2'] + 0.5).tolist()}")
    # (4) every face is a unit square of the index lattice (proved-sound certificate quad_steps)
    qd = o_db["quad"]
    for k, f in enumerate(faces):
        if not all(good[n1 + where[v]] for v in f):
            st["faces_skipped_near_grid_line"] += 1
            continue
        if qd[4 * k] == "-1":
            bad.append(f"face {f}: index vectors {[[int(x) for x in idx[n1 + where[v]]] for v in f]} are not K, K+-e_i, K+-e_i+-e_j, K+-e_j")
        else:
            st["faces_certified"] += 1
    # (5) grid intersections and starting positions
    pts = o_gv["pts"]
    av = cap["all_vertices"]
    n = cap["n"]
    pairs = [(b1, b2) for b1 in range(B) for b2 in range(b1 + 1, B)]
    if len(av) != len(pairs) * n * n or len(pts) != 5 * len(cap["gsel"]):
        bad.append(f"number of grid intersections: implementation {len(av)}, model {len(pairs) * n * n}")
    else:
        for i, k in enumerate(cap["gsel"]):
            b1, b2 = pairs[k // (n * n)]
            g1, g2 = cap["gradients"][b1], cap["gradients"][b2]
            det = abs(float(g1[0] * g2[1] - g1[1] * g2[0]))
            if pts[5 * i] != "1":
                bad.append(f"grid intersection {k}: singular in the model")
                break
            pm = np.array([float(qval(pts, 5 * i + 1)), float(qval(pts, 5 * i + 3))])
            st["grid_vertices_compared"] += 1
            if not np.max(np.abs(pm - av[k])) <= 1e-9 * max(1.0, float(np.max(np.abs(pm)))) / max(det, 1e-6):
                bad.append(f"grid intersection {k} (bundles {b1},{b2}): implementation {av[k].tolist()}, model {pm.tolist()}")
                break
    sm = np.array([[float(qval(o_gv["starts"], 4 * b)), float(qval(o_gv["starts"], 4 * b + 2))] for b in range(B)])
    if not np.max(np.abs(sm - cap["starts"])) <= 1e-12:
        bad.append(f"starting_positions: implementation {cap['starts'].tolist()}, model {sm.tolist()}")
    st["cases"] += 1
    if bad:
        ctx.k_mismatch(f"dual construction, {describe(case)}: " + "; ".join(bad[:4]) + (f" (+{len(bad) - 4} more)" if len(bad) > 4 else ""), case)
    return not bad


def ser_case(lat, B, use_dirs):
    line, S = ser_lattice(lat)
    D = 1 << DIR_DEN_BITS
    dirs = [(int(Fraction(math.cos(2 * math.pi * b / B)) * D), int(Fraction(math.sin(2 * math.pi * b / B)) * D)) for b in range(B)]
    toks = ["c17", hx(TOL_N), hx(TOL_D), "1" if use_dirs else "0", str(len(dirs))]
    for x, y in dirs:
        toks += [hx(x), hx(y)]
    return " ".join(toks) + " " + line


def rhombus_classes(lat, B):
    """python-side census for B bundles: the direction class (0..B-1) of every edge and the multiset of
    |b1-b2| over the faces (informational + the Penrose clause for B=5)"""
    pos, idx = lat.vertices.positions, lat.edges.indices
    v = pos[idx[:, 1]] - pos[idx[:, 0]]
    ang = np.arctan2(v[:, 1], v[:, 0])
    cls = np.round(ang / (2 * np.pi / B)).astype(int) % B     # direction b or b + B/2 (B odd: antiparallel is distinct modulo pi)
    # modulo pi: edge direction is unoriented; for odd B, angle mod pi determines b uniquely via 2b mod B
    cls = np.round(((ang % np.pi) * 2) / (2 * np.pi / B)).astype(int) % B   # = 2b mod B
    out = {}
    for p in lat.plaquettes:
        c = sorted(set(int(cls[e]) for e in p.edges))
        if len(c) != 2:
            return None
        # angle between the two families
        e1 = [e for e in p.edges if cls[e] == c[0]][0]
        e2 = [e for e in p.edges if cls[e] == c[1]][0]
        a = abs(math.degrees(math.atan2(v[e1][0] * v[e2][1] - v[e1][1] * v[e2][0], v[e1] @ v[e2])))
        a = min(a, 180 - a)
        k = int(round(a))
        out[k] = out.get(k, 0) + 1
    return out


def ser_arrays(pos, edges, crossing, B, use_dirs):
    line, S = ser_lattice_arrays(pos, edges, crossing)
    D = 1 << DIR_DEN_BITS
    dirs = [(int(Fraction(math.cos(2 * math.pi * b / B)) * D), int(Fraction(math.sin(2 * math.pi * b / B)) * D)) for b in range(B)]
    toks = ["c17", hx(TOL_N), hx(TOL_D), "1" if use_dirs else "0", str(len(dirs))]
    for x, y in dirs:
        toks += [hx(x), hx(y)]
    return " ".join(toks) + " " + line


def work(case):
    """everything that touches koala for one case, in a worker process; returns plain data"""
    out = {"margin": grid_margin(case)}
    if out["margin"] < 1e-9:
        if case["offsets"] == "random_offsets":
            out["offsets"] = offsets_of(case).tolist()
        return out
    try:
        lat, box = generate_captured(case)
    except Exception as e:
        tb = traceback.extract_tb(e.__traceback__)
        where = next((f"{os.path.basename(f.filename)}:{f.lineno}" for f in reversed(tb) if "koala" in f.filename), "?")
        out["exception"] = (type(e).__name__, str(e)[:200], where)
        return out
    out["pos"] = np.array(lat.vertices.positions, dtype=float)
    out["edges"] = np.array(lat.edges.indices, dtype=int).reshape(-1, 2)
    out["crossing"] = np.array(lat.edges.crossing, dtype=int).reshape(-1, 2)
    try:
        out["n_sides"] = [int(p.n_sides) for p in lat.plaquettes]
    except Exception as e:
        out["plaq_exception"] = f"{type(e).__name__}: {e}"
        return out
    if case["disorder"] == 0:
        rc = rhombus_classes(lat, case["B"])
        out["rc"] = rc if rc is not None else "bad"
    out["cap"] = plain_capture(box, lat)
    return out


def evaluate(ctx, cases, label):
    res, ex = ctx.res, ctx.res.extra
    from concurrent.futures import ProcessPoolExecutor
    if len(cases) > 8:
        with ProcessPoolExecutor(max_workers=8) as pool:
            results = list(pool.map(work, cases, chunksize=4))
    else:
        results = [work(c) for c in cases]
    built, lines = [], []
    for case, w in zip(cases, results):
        fam = f"B={case['B']}/{case['offsets']}/disorder={case['disorder']}"
        margin = w["margin"]
        if margin < 1e-9:
            if case["offsets"] == "random_offsets":
                # random_offsets(B) forces sum(offsets) = 1; on 3 bundles that is a singular (all-triple-point) grid:
                # NOT generic, the property says nothing there (observation outside the property, kept in evidence)
                res.skip("nongeneric:random_offsets-B3-integer-sum" if case["B"] == 3 else "nongeneric:random_offsets-singular-grid")
                ex.setdefault("random_offsets_singular_cases", []).append(
                    {"B": case["B"], "n": case["n"], "np_seed": case["np_seed"], "disorder": case["disorder"], "margin": margin, "offsets": w.get("offsets")})
            else:
                res.skip("nongeneric-offsets(three grid lines within 1e-9 of a common point)")
            continue
        ex["min_grid_margin_evaluated"] = min(ex.get("min_grid_margin_evaluated", 1.0), margin)
        if "exception" in w:
            res.count(fam)
            tname, msg, where = w["exception"]
            res.violation("generator-exception", f"{describe(case)} raised {tname}: {msg} at {where}", case)
            lst = ex.setdefault("exceptions", {}).setdefault(f"{tname}@{where}", [])
            if len(lst) < 8:
                lst.append(describe(case))
            continue
        built.append((case, fam, w))
        lines.append(ser_arrays(w["pos"], w["edges"], w["crossing"], case["B"], case["disorder"] == 0))
    outs = run_driver_parallel(ctx.exe["c17"], lines, jobs=8, timeout=6000)
    db_sent = dual_phase(ctx, built)
    if label == "S":
        coq_crosscheck(ctx, list(zip(lines, outs)), db_sent)
    for (case, fam, w), o in zip(built, outs):
        if "error" in o:
            raise RuntimeError(f"c17 driver error {o['error']} on {case}")
        nv, ne = len(w["pos"]), len(w["edges"])
        res.count(fam, digest([w["pos"].tolist(), w["edges"].tolist()]))
        res.traces += 1
        b = "V<=100" if nv <= 100 else "V<=300" if nv <= 300 else "V<=1000" if nv <= 1000 else "V>1000"
        ex.setdefault("size_histogram", {}).setdefault(b, 0)
        ex["size_histogram"][b] += 1
        res.sample({"case": case, "V": nv, "E": ne, "F": len(w.get("n_sides", []))})
        if o["ok"][0] != "1":
            failed = [k for k in ("wf", "zero_crossing", "no_self_loops", "distinct", "degrees", "in_square", "connected", "no_crossing",
                                  "lengths", "directions", "faces") if o.get(k, ["1"])[0] != "1"]
            extra = ""
            if "faces" in failed and o.get("sides"):
                sides = o["sides"][1:] if o["sides"][0] != "ERR" else ["ERR"]
                hist = {}
                for s_ in sides:
                    hist[s_] = hist.get(s_, 0) + 1
                extra = f"; V={nv} E={ne} faces by number of sides: {hist} (V-E+F={nv - ne + len(sides)})"
            res.violation("not-a-rhombus-tiling:" + "+".join(failed), f"{describe(case)}: checker rejects the output lattice: failed {failed}{extra}", case)
            continue
        # koala's own plaquettes agree with the census the checker used
        if "plaq_exception" in w:
            res.violation("plaquettes-exception", f"{describe(case)}: accessing plaquettes raised {w['plaq_exception']}", case)
            continue
        ns = w["n_sides"]
        if any(n != 4 for n in ns) or nv - ne + len(ns) != 1:
            res.violation("koala-plaquettes", f"{describe(case)}: koala reports plaquettes with sides {sorted(set(ns))}, V-E+F={nv - ne + len(ns)}", case)
        if case["disorder"] == 0:
            rc = w.get("rc")
            if rc == "bad":
                res.violation("rhombus-directions", f"{describe(case)}: a plaquette does not have exactly two edge directions", case)
            elif rc is not None:
                d = ex.setdefault("rhombus_angles_by_B", {}).setdefault(str(case["B"]), {})
                for k, v in rc.items():
                    d[str(k)] = d.get(str(k), 0) + v
                if case["B"] == 5 and not set(rc) <= {36, 72}:
                    res.violation("penrose-rhombi", f"{describe(case)}: rhombus acute angles {sorted(rc)} (expected only 36 and 72 degrees)", case)


def dual_phase(ctx, built):
    """K of the dual construction for every generated case whose intermediates could be read; returns (line, answer) pairs"""
    res = ctx.res
    jobs = []
    for case, fam, w in built:
        cap = w.get("cap")
        if cap is None:
            res.skip("dualK:intermediates-not-observable")
            continue
        line, stars, faces = ser_db(cap, ctx.tier == "quick")
        jobs.append((case, w, cap, line, ser_gv(cap, ctx.tier == "quick"), stars, faces))
    lines = [x for j in jobs for x in (j[3], j[4])]
    outs = run_driver_parallel(ctx.exe["c17"], lines, jobs=8, timeout=6000)
    for k, j in enumerate(jobs):
        o_db, o_gv = outs[2 * k], outs[2 * k + 1]
        if "error" in o_db or "error" in o_gv:
            raise RuntimeError(f"c17 driver error {o_db.get('error') or o_gv.get('error')} on the dual construction of {j[0]}")
        compare_dual(ctx, j[0], j[1], j[2], o_db, o_gv, j[5], j[6])
    return list(zip(lines, outs))


# ------------------------------------------------------------------ extraction cross-check (DESIGN 1.3)
def coq_crosscheck(ctx, s_sent, db_sent):
    """A sample of the c17 driver's answers is re-derived INSIDE Coq (vm_compute in a generated cases.v): the verdict of
    check_rhombus_tiling on the smallest output lattices (and on every rejected one that is small enough), and, for the dual
    construction, db_eval (index vector, margin, window flag, position) of sampled dual vertices, quad_steps of sampled faces
    and sampled grid intersections / all starting positions."""
    import xcheck as X
    quick = ctx.tier == "quick"
    rng = np.random.default_rng([ctx.seed, 17, 99])
    body = []
    g = lambda lhs, rhs: body.append(X.goal(lhs, rhs))
    q = lambda fr: f"(Qmake {X.z(fr.numerator)} {int(fr.denominator)}%positive)"
    qp = lambda ab: f"({q(ab[0])}, {q(ab[1])})"
    n_cases = {"check_rhombus_tiling": 0, "db_eval": 0, "quad_steps": 0, "grid_points": 0, "grid_starts": 0}
    # --- the checker's verdicts
    pool = []
    for line, o in s_sent:
        if "error" in o:
            continue
        t = line.split()
        c = Cursor(t[1:])
        tn, td, use = c.z(), c.z(), c.next() == "1"
        dirs = c.list(lambda: (c.z(), c.z()))
        S, P, E, Cr = X.read_lattice(c)
        if not c.done():
            raise RuntimeError("extraction cross-check: could not read back the whole c17 line")
        pool.append((len(P), o["ok"][0] == "1", tn, td, use, dirs, S, P, E, Cr))
    pool.sort(key=lambda r: r[0])
    chosen = pool[:(3 if quick else 12)] + [r for r in pool[(3 if quick else 12):] if not r[1] and r[0] <= 150][:3]
    for nv, ok, tn, td, use, dirs, S, P, E, Cr in chosen:
        g(f"check_rhombus_tiling {X.z(tn)} {X.z(td)} {X.boolean(use)} {X.lst(X.zpair, dirs)} {X.lattice_ints(S, P, E, Cr)}", X.boolean(ok))
        n_cases["check_rhombus_tiling"] += 1
    # --- the dual construction
    dbs = [(l, o) for l, o in db_sent if l.startswith("db ") and "error" not in o]
    gvs = [(l, o) for l, o in db_sent if l.startswith("gv ") and "error" not in o]
    rq = lambda c: Fraction(c.z(), c.z())
    rqp = lambda c: (rq(c), rq(c))
    for i in (sorted(rng.choice(len(dbs), size=min(len(dbs), 2 if quick else 8), replace=False).tolist()) if dbs else []):
        line, o = dbs[i]
        c = Cursor(line.split()[1:])
        n, sc = c.z(), rq(c)
        starts, normals, stars, pts = (c.list(lambda: rqp(c)) for _ in range(4))
        faces = c.list(lambda: [c.int(), c.int(), c.int(), c.int()])
        if not c.done():
            raise RuntimeError("extraction cross-check: could not read back the whole db line")
        B = len(starts)
        idx = [[unhx(x) for x in o["idx"][B * p:B * p + B]] for p in range(len(pts))]
        args = f"{X.z(n)} {q(sc)} {X.lst(qp, starts)} {X.lst(qp, normals)} {X.lst(qp, stars)}"
        for p in sorted(rng.choice(len(pts), size=min(len(pts), 8 if quick else 25), replace=False).tolist()):
            mar = qval(o["mar"], 2 * p)
            pos = (qval(o["pos"], 4 * p), qval(o["pos"], 4 * p + 2))
            g(f"db_eval_red {args} {qp(pts[p])}", f"({X.zlist(idx[p])}, {q(mar)}, {X.boolean(o['win'][p] == '1')}, {qp(pos)})")
            n_cases["db_eval"] += 1
        for k in (sorted(rng.choice(len(faces), size=min(len(faces), 8 if quick else 25), replace=False).tolist()) if faces else []):
            a = o["quad"][4 * k:4 * k + 4]
            rhs = "None" if a[0] == "-1" else f"Some ({X.nat(int(a[0]))}, {X.z(unhx(a[1]))}, ({X.nat(int(a[2]))}, {X.z(unhx(a[3]))}))"
            g(f"quad_steps {X.nat(B)} " + " ".join(X.zlist(idx[v]) for v in faces[k]), rhs)
            n_cases["quad_steps"] += 1
    for i in (sorted(rng.choice(len(gvs), size=min(len(gvs), 1 if quick else 4), replace=False).tolist()) if gvs else []):
        line, o = gvs[i]
        c = Cursor(line.split()[1:])
        n, sc = c.int(), rq(c)
        grads, normals = c.list(lambda: rqp(c)), c.list(lambda: rqp(c))
        offs = c.list(lambda: rq(c))
        req = c.list(lambda: (c.int(), c.int(), c.int(), c.int()))
        if not c.done():
            raise RuntimeError("extraction cross-check: could not read back the whole gv line")
        grid = f"(mkGrid {X.lst(qp, grads)} {X.lst(qp, normals)} {X.lst(q, offs)} {X.nat(n)} {q(sc)})"
        B = len(grads)
        if len(o["pts"]) != 5 * len(req):
            raise RuntimeError("extraction cross-check: unexpected number of grid intersections in the gv answer")
        for k in sorted(rng.choice(len(req), size=min(len(req), 6), replace=False).tolist()):
            t = o["pts"][5 * k:5 * k + 5]
            b1, l1, b2, l2 = req[k]
            g(f"grid_point_red {grid} {X.nat(b1)} {X.nat(l1)} {X.nat(b2)} {X.nat(l2)}",
              "None" if t[0] != "1" else f"Some {qp((qval(t, 1), qval(t, 3)))}")
            n_cases["grid_points"] += 1
        g(f"grid_starts_red {grid}", X.lst(qp, [(qval(o["starts"], 4 * b), qval(o["starts"], 4 * b + 2)) for b in range(B)]))
        n_cases["grid_starts"] += 1
    ex = ctx.res.extra
    ex["extraction_crosscheck_goals_vm_compute"] = X.compile_goals("c17", "Model.Lattice Model.Tiling2 Model.DeBruijn", body, "c17",
                                                                   stdlib="List ZArith Bool QArith")
    ex["extraction_crosscheck_cases"] = n_cases
    ex["extraction_crosscheck_wall_s"] = X.LAST_WALL


def describe(case):
    if case["offsets"] == "penrose":
        return f"np.random.seed({case['np_seed']}); penrose_tiling({case['n']})"
    off = {"default": "None", "scalar": repr(case.get("value")), "random_offsets": f"random_offsets({case['B']}) after np.random.seed({case['np_seed']})",
           "generic": f"default_rng([{case['np_seed']},{case['B']},17]).uniform(-.5,.5,{case['B']})"}[case["offsets"]]
    return f"de_brujin_grid({case['n']}, {case['B']}, {off}, angle_disorder={case['disorder']})"


def gen_cases(tier, seed, big=False):
    rng = np.random.default_rng([seed, 17])
    cases = []
    if tier == "quick":
        combos = [(B, n) for B in (3, 5, 7) for n in (5, 6, 7, 8)]
        reps, pen_ns, pen_reps = 2, (5, 6, 7, 8), 6
    else:
        # sizes chosen so that the extracted checker (quadratic in E) stays within the thorough budget
        combos = ([(3, n) for n in range(5, 15)] + [(5, n) for n in range(5, 12)] + [(7, n) for n in range(5, 10)] + [(9, n) for n in range(5, 8)])
        reps, pen_ns, pen_reps = 2, tuple(range(5, 12)), 8
    for B, n in combos:
        cases.append({"B": B, "n": n, "offsets": "default", "disorder": 0, "np_seed": 0})
        for _ in range(reps):
            cases.append({"B": B, "n": n, "offsets": "scalar", "value": round(float(rng.uniform(-0.45, 0.45)), 3), "disorder": 0, "np_seed": 0})
            for kind in ("random_offsets", "generic"):
                for dis in (0, 0.02, 0.1):
                    cases.append({"B": B, "n": n, "offsets": kind, "disorder": dis, "np_seed": int(rng.integers(0, 2 ** 31))})
    if tier != "quick":
        # a few large ones (default offsets and one generic vector each)
        for B, n in ((5, 14), (7, 12), (9, 10), (5, 13)):
            cases.append({"B": B, "n": n, "offsets": "default", "disorder": 0, "np_seed": 0})
            cases.append({"B": B, "n": n, "offsets": "generic", "disorder": 0, "np_seed": int(rng.integers(0, 2 ** 31))})
    for n in pen_ns:
        for _ in range(pen_reps):
            cases.append({"B": 5, "n": n, "offsets": "penrose", "disorder": 0, "np_seed": int(rng.integers(0, 2 ** 31))})
    return cases


def corpus_cases():
    """minimised past failures (corpus/C17/*.json), run first"""
    import glob
    out = []
    for f in sorted(glob.glob(os.path.join(VERIF, "corpus", "C17", "*.json"))):
        out.append(json.load(open(f))["case"])
    return out


def run(ctx):
    ctx.res.rule = ("number_of_bundles in {3,5,7} (thorough: 9 too), lines 5..8 (thorough: B=3 5..14, B=5 5..11, B=7 5..9, B=9 5..7 and single large cases (5,14),(5,13),(7,12),(9,10)), offsets default / random scalar / random_offsets / generic uniform vectors, "
                    "angle_disorder 0/0.02/0.1, penrose_tiling(n) under np.random.seed(s); every case is a distinct output lattice (hash of positions+edges) and non-trivial (>= 30 rhombi)")
    evaluate(ctx, corpus_cases() + gen_cases(ctx.tier, ctx.seed), "S")


def search(ctx):
    evaluate(ctx, gen_cases(ctx.tier, ctx.seed + 1), "search")


def replay(ctx, payload):
    evaluate(ctx, [payload["case"]], "replay")
