"""C16 — (a) extraction cross-check: a sample of the c16 driver's answers re-derived INSIDE Coq by vm_compute
(harness/xcheck.py pattern);  (b) correspondence runs (K) for the glue modelled in coq/Model/PlotGlue.v:
colour-scheme resolution (str scheme, color= keyword incl. numpy's fixed-width truncation), the default arguments,
what the color= keyword does to the artists, and plot_dual = plot_edges o make_dual."""
from lib import *  # noqa
import xcheck as X
import time
import sys

# ---------------------------------------------------------------- recording
XCAP = 400          # lines remembered per command (short ones only)
XLEN = 9000         # characters


def record(ctx, lines, outs):
    rec = getattr(ctx, "xrec", None)
    if rec is None:
        return
    for ln, o in zip(lines, outs):
        cmd = ln.split(" ", 1)[0]
        if len(ln) <= XLEN and "error" not in o:
            b = rec.setdefault(cmd, [])
            if len(b) < XCAP:
                b.append((ln, o))


# ---------------------------------------------------------------- Gallina literals
def qlit(n, d):
    return f"(Qmake {X.z(n)} {int(d)}%positive)"


def qfr(fr):
    return qlit(fr.numerator, fr.denominator)


def ptlit(p):
    return f"({qfr(p[0])}, {qfr(p[1])})"


def seglit(s):
    return f"({ptlit(s[0])}, {ptlit(s[1])})"


def in_q(c):
    n = c.z()
    d = c.z()
    return (n, d)


def in_qlit(c):
    n, d = in_q(c)
    return qlit(n, d)


def in_ptlit(c):
    a = in_qlit(c)
    b = in_qlit(c)
    return f"({a}, {b})"


def in_seglit(c):
    a = in_ptlit(c)
    b = in_ptlit(c)
    return f"({a}, {b})"


def in_plat(c):
    sc = c.z()
    ps = c.list(lambda: (c.z(), c.z()))
    es = c.list(lambda: (c.int(), c.int()))
    cr = c.list(lambda: (c.z(), c.z()))
    if len(ps) > 60 or len(es) > 90:
        raise OverflowError
    P = X.lst(lambda xy: f"(Qred {qlit(xy[0], sc)}, Qred {qlit(xy[1], sc)})", ps)
    return f"(mkPlat {P} {X.lst(X.natpair, es)} {X.lst(X.zpair, cr)})"


def in_lattice(c):
    sc = c.z()
    ps = c.list(lambda: (c.z(), c.z()))
    es = c.list(lambda: (c.int(), c.int()))
    cr = c.list(lambda: (c.z(), c.z()))
    if len(ps) > 40 or len(es) > 60:
        raise OverflowError
    return X.lattice_ints(sc, ps, es, cr)


def in_subset(c):
    t = c.next()
    if t == "S":
        o = []
        for _ in range(3):
            v = c.next()
            o.append("None" if v == "N" else f"(Some {X.z(unhx(v))})")
        return "(SSlice " + " ".join(o) + ")"
    if t == "M":
        return "(SMask " + X.lst(X.boolean, c.list(lambda: c.next() == "1")) + ")"
    return "(SIdx " + X.zlist(c.list(c.z)) + ")"


def in_labels(c):
    t = c.next()
    if t == "s":
        return f"(LScalar {X.z(c.z())})"
    return "(LList " + X.zlist(c.list(c.z)) + ")"


def in_scheme(c):
    return X.zlist(range(c.int()))


def in_ustr(c):
    return X.zlist(c.list(c.z))


def in_sarg(c):
    t = c.next()
    if t == "S":
        return f"(SchemeStr {in_ustr(c)})"
    return "(SchemeList " + X.lst(lambda s: s, c.list(lambda: in_ustr(c))) + ")"


def in_kw(c):
    t = c.next()
    return "None" if t == "N" else f"(Some {in_ustr(c)})"


def in_plaqs(c):
    def one():
        v0 = c.int()
        es = c.list(lambda: (c.int(), c.next() == "1"))
        return f"(mkPlaq {X.nat(v0)} {X.lst(X.pair(X.nat, X.boolean), es)})"
    return X.lst(lambda s: s, c.list(one))


def o_q(c):
    n = c.z()
    d = c.z()
    return qlit(n, d)


def o_pt(c):
    a = o_q(c)
    b = o_q(c)
    return f"({a}, {b})"


def o_seg(c):
    a = o_pt(c)
    b = o_pt(c)
    return f"({a}, {b})"


def o_ustr(c):
    return X.zlist(c.list(c.z))


def o_list(c, f):
    return X.lst(lambda s: s, c.list(lambda: f(c)))


def res_rhs(o, ok):
    r = o["res"][0]
    return f"Ok {ok()}" if r == "ok" else f"Error {r}"


PRELUDE = [
    "Definition npt (p : point) : point := (Qred (fst p), Qred (snd p)).",
    "Definition nseg (s : seg) : seg := (npt (fst s), npt (snd s)).",
    "Definition rmap {A B : Type} (f : A -> B) (r : result A) : result B := match r with Ok a => Ok (f a) | Error e => Error e end.",
    "Definition nverts {C : Type} := rmap (map (fun pc : point * C => (npt (fst pc), snd pc))).",
    "Definition nedges := rmap (map (fun x : seg * (Z * Z) => (nseg (fst x), snd x, (let a := arrow_of (fst x) (snd (snd x)) in (npt (fst a), npt (snd a)))))).",
    "Definition nedgesc (kw : option ustr) := rmap (map (fun x : seg * (ustr * Z) => (nseg (fst x), (fst (snd x), final_colour kw (fst (snd x)), snd (snd x))))).",
    "Definition nplaqs {C : Type} := rmap (map (fun pc : list polygon * C => (map (map npt) (fst pc), snd pc))).",
    "Definition niv (o : option (Q * Q)) := option_map (fun iv : Q * Q => (Qred (fst iv), Qred (snd iv))) o.",
    "Fixpoint pairs_max (l : list (Q * Q)) (acc : Q) : Q := match l with [] => acc | a :: r => pairs_max r (fold_left (fun m b => Qmax m (overlap_len a b)) r acc) end.",
    "Definition somes {A : Type} (l : list (option A)) : list A := flat_map (fun o => match o with Some a => [a] | None => [] end) l.",
    "Definition espec (segs : list seg) := (Qred (fold_left (fun acc s => (acc + clip_len s)%Q) segs (Qmake 0 1)), Qred (pairs_max (somes (map clip_interval segs)) (Qmake 0 1)), map niv (map clip_interval segs)).",
    "Fixpoint maxov (l : list polygon) (acc : Q) : Q := match l with [] => acc | a :: r => maxov r (fold_left (fun m b => Qmax m (Qabs (overlap_area2_in_cell a b))) r acc) end.",
    "Definition pspec (polys : list polygon) := match polys with [] => None | p0 :: _ =>",
    "  let clipped := map (fun p => Qabs (clipped_area2 p)) polys in",
    "  Some (Qred (Qabs (area2 p0)), Qred (fold_left Qplus clipped (Qmake 0 1)), convexb p0,",
    "        Qred (if convexb p0 then maxov polys (Qmake 0 1) else Qmake 0 1), map Qred clipped) end.",
    "Definition ndual (r : dual_plot (list (seg * (Z * Z)))) := match r with DPDrawn x => DPDrawn (rmap (map (fun y : seg * (Z * Z) => (nseg (fst y), snd y))) x) | DPStuck => DPStuck | DPDuplicate => DPDuplicate end.",
]


# ---------------------------------------------------------------- goals, one per recorded (line, answer)
def goal_of(cmd, ln, o):
    c = Cursor(ln.split()[1:])
    g = []
    if cmd == "args":
        N = X.nat(c.int()); s = in_subset(c); l = in_labels(c); sch = in_scheme(c)
        r = o["idx"][0]
        g.append(X.goal(f"subset_indices {N} {s}", ("Ok " + X.natlist([int(t) for t in o["idx"][2:]])) if r == "ok" else f"Error {r}"))
        g.append(X.goal(f"colours {N} {s} {l} {sch}", res_rhs(o, lambda: X.zlist([unhx(t) for t in o["col"][1:]]))))
    elif cmd == "verts":
        L = in_plat(c); s = in_subset(c); l = in_labels(c); sch = in_scheme(c)
        g.append(X.goal(f"nverts (plot_vertices {L} {s} {l} {sch})",
                        res_rhs(o, lambda: (lambda k: o_list(k, lambda k: f"({o_pt(k)}, {X.z(k.z())})"))(Cursor(o["pts"])))))
    elif cmd == "edges":
        L = in_plat(c); s = in_subset(c); l = in_labels(c); sch = in_scheme(c); d = in_labels(c)

        def one(k):
            sg = o_seg(k); col = X.z(k.z()); di = X.z(k.z()); a = o_pt(k); v = o_pt(k)
            return f"({sg}, ({col}, {di}), ({a}, {v}))"
        g.append(X.goal(f"nedges (plot_edges {L} {s} {l} {sch} {d})", res_rhs(o, lambda: o_list(Cursor(o["drawn"]), one))))
    elif cmd in ("plaqs", "plaqsc", "pdef"):
        L = in_plat(c); pls = in_plaqs(c)
        if cmd == "plaqs":
            s = in_subset(c); l = in_labels(c); sch = in_scheme(c)
            lhs = f"nplaqs (plot_plaquettes {L} {pls} {s} {l} {sch})"
            ocol = lambda k: X.z(k.z())
        elif cmd == "plaqsc":
            s = in_subset(c); l = in_labels(c); sa = in_sarg(c); kw = in_kw(c)
            lhs = f"nplaqs (plot_plaquettes_c {L} {pls} {s} {l} {sa} {kw})"
            ocol = o_ustr
        else:
            lhs = f"nplaqs (plot_plaquettes_default {L} {pls})"
            ocol = o_ustr

        def ok():
            out = []
            for i in range(int(o["np"][0])):
                k = Cursor(o[f"p{i}"])
                col = ocol(k)
                polys = o_list(k, lambda k: o_list(k, o_pt))
                out.append(f"({polys}, {col})")
            return "[" + "; ".join(out) + "]"
        g.append(X.goal(lhs, res_rhs(o, ok)))
    elif cmd == "espec":
        groups = c.list(lambda: X.lst(lambda s: s, c.list(lambda: in_seglit(c))))
        for i, segs in enumerate(groups[:6]):
            k = Cursor(o[f"g{i}"])
            tot = o_q(k); ov = o_q(k)
            ivs = o_list(k, lambda k: "None" if k.next() == "0" else f"(Some ({o_q(k)}, {o_q(k)}))")
            g.append(X.goal(f"espec {segs}", f"({tot}, {ov}, {ivs})"))
    elif cmd == "pspec":
        groups = c.list(lambda: X.lst(lambda s: s, c.list(lambda: X.lst(lambda s: s, c.list(lambda: in_ptlit(c))))))
        for i, polys in enumerate(groups[:4]):
            if o[f"g{i}"][0] == "empty":
                g.append(X.goal(f"pspec {polys}", "None"))
                continue
            k = Cursor(o[f"g{i}"])
            a0 = o_q(k); tot = o_q(k); cvx = X.boolean(k.next() == "1"); ov = o_q(k); cl = o_list(k, o_q)
            g.append(X.goal(f"pspec {polys}", f"Some ({a0}, {tot}, {cvx}, {ov}, {cl})"))
    elif cmd == "lint":
        tol = in_qlit(c)
        pairs = c.list(lambda: f"({in_seglit(c)}, {in_seglit(c)})")[:12]
        k = Cursor(o["li"])
        ans = k.list(lambda: f"({X.boolean(k.next() == '1')}, {X.boolean(k.next() == '1')})")[:12]
        g.append(X.goal(f"map (fun ab : seg * seg => (line_intersection {tol} (fst ab) (snd ab), segments_meet_exact (fst ab) (snd ab))) " + X.lst(lambda s: s, pairs),
                        X.lst(lambda s: s, ans)))
    elif cmd == "cres":
        sa = in_sarg(c); kw = in_kw(c)
        g.append(X.goal(f"resolve_scheme {sa} {kw}", res_rhs(o, lambda: o_list(Cursor(o["sch"]), o_ustr))))
    elif cmd == "argsc":
        N = X.nat(c.int()); s = in_subset(c); l = in_labels(c); sa = in_sarg(c); kw = in_kw(c)
        g.append(X.goal(f"process_plot_args_c {N} {s} {l} {sa} {kw}",
                        res_rhs(o, lambda: "(" + X.natlist([int(t) for t in o["idx"][1:]]) + ", " + o_list(Cursor(o["col"]), o_ustr) + ")")))
    elif cmd in ("vertsc", "vdef"):
        L = in_plat(c)
        lhs = f"plot_vertices_default {L}" if cmd == "vdef" else f"plot_vertices_c {L} {in_subset(c)} {in_labels(c)} {in_sarg(c)} {in_kw(c)}"
        g.append(X.goal(f"nverts ({lhs})", res_rhs(o, lambda: o_list(Cursor(o["pts"]), lambda k: f"({o_pt(k)}, {o_ustr(k)})"))))
    elif cmd in ("edgesc", "edef"):
        L = in_plat(c)
        if cmd == "edef":
            lhs, kw = f"plot_edges_default {L}", "None"
        else:
            s = in_subset(c); l = in_labels(c); sa = in_sarg(c); kw = in_kw(c); d = in_labels(c)
            lhs = f"plot_edges_c {L} {s} {l} {sa} {kw} {d}"
        one = lambda k: f"({o_seg(k)}, ({o_ustr(k)}, {o_ustr(k)}, {X.z(k.z())}))"
        g.append(X.goal(f"nedgesc {kw} ({lhs})", res_rhs(o, lambda: o_list(Cursor(o["drawn"]), one))))
    elif cmd == "dual":
        L = in_lattice(c); s = in_subset(c); l = in_labels(c); sch = in_scheme(c); d = in_labels(c)
        r = o["res"][0]
        one = lambda k: f"({o_seg(k)}, ({X.z(k.z())}, {X.z(k.z())}))"
        rhs = {"STUCK": "DPStuck", "DUPLICATE": "DPDuplicate"}.get(r) or ("DPDrawn (" + res_rhs(o, lambda: o_list(Cursor(o["drawn"]), one)) + ")")
        g.append(X.goal(f"ndual (plot_dual {L} {s} {l} {sch} {d})", rhs))
    return g


def crosscheck(ctx):
    """a random sample of the recorded driver answers of every command, re-derived by vm_compute"""
    rec = getattr(ctx, "xrec", None) or {}
    quick = ctx.tier == "quick"
    rng = np.random.default_rng([ctx.seed, 16, 99])
    per = {"args": 24, "argsc": 16, "cres": 16, "lint": 6, "espec": 5, "pspec": 5, "dual": 2}
    body, n_cases = list(PRELUDE), {}
    for cmd in sorted(rec):
        items = sorted(rec[cmd], key=lambda lo: len(lo[0]))
        if cmd == "dual":       # the plaquette sweep inside Coq on 2^53-scaled coordinates is slow: small lattices only
            items = [it for it in items if len(it[0]) <= 2500]
        want = per.get(cmd, 4) * (1 if quick else 6)
        # the shorter half first (small lattices evaluate fast inside Coq), a random choice among them
        pool = items[:max(want, len(items) // 2)]
        pick = sorted(rng.choice(len(pool), size=min(want, len(pool)), replace=False).tolist()) if pool else []
        for i in pick:
            ln, o = pool[i]
            try:
                gs = goal_of(cmd, ln, o)
            except OverflowError:
                continue
            body += gs
            n_cases[cmd] = n_cases.get(cmd, 0) + 1
    res = ctx.res
    res.extra["extraction_crosscheck_goals_vm_compute"] = X.compile_goals(
        "c16", "Model.Lattice Model.Dual Model.Clip Model.Plot Model.PlotGlue", body, "c16", stdlib="List ZArith Bool QArith Qminmax Qabs")
    res.extra["extraction_crosscheck_cases"] = n_cases
    res.extra["extraction_crosscheck_wall_s"] = X.LAST_WALL


# ================================================================ K for the glue (Model/PlotGlue.v)
LONG_POOL = ["#E7414E", "#5BB03E", "#4B64AC", "black", "r", "g", "b", "k", "orange", "tab:purple", "#00aa88", "lightgrey", "y",
             "mediumaquamarine", "tab:orange", "#123", "C0", "darkslategray"]


def ustr_tok(s):
    return str(len(s)) + "".join(" " + hx(ord(ch)) for ch in s)


def sarg_tok(sa):
    if isinstance(sa, str):
        return "S " + ustr_tok(sa)
    return "L %d" % len(sa) + "".join(" " + ustr_tok(x) for x in sa)


def kw_tok(kw):
    return "N" if kw is None else "K " + ustr_tok(kw)


def rd_ustr(c):
    return "".join(chr(v) for v in c.list(c.z))


def gen_sarg(rng, allow_empty=True):
    r = int(rng.integers(0, 8))
    if r == 0:
        return str(LONG_POOL[int(rng.integers(0, len(LONG_POOL)))])
    if r == 1 and allow_empty:
        return []
    K = int(rng.integers(1, 6))
    return [LONG_POOL[int(i)] for i in rng.permutation(len(LONG_POOL))[:K]]


def gen_kw(rng):
    return None if rng.uniform() < 0.35 else str(LONG_POOL[int(rng.integers(0, len(LONG_POOL)))])


def py_sarg(sa, rng=None):
    if isinstance(sa, str):
        return sa
    return list(sa)


def gen_c_args(rng, N):
    """subset / labels (valid for the scheme's length, sometimes not) / scheme argument / color keyword"""
    import c16
    sa = gen_sarg(rng)
    K = 1 if isinstance(sa, str) else len(sa)
    sd = c16.gen_subset(rng, N)
    r = int(rng.integers(0, 5))
    if r == 0 or K == 0:
        ld = {"kind": "scalar", "z": 0}
    elif r == 1:
        ld = {"kind": "scalar", "z": int(rng.integers(-K, K))}
    else:
        ld = {"kind": "list", "l": [int(x) for x in rng.integers(0, K, size=N)], "asarray": bool(rng.integers(0, 2))}
        if rng.uniform() < 0.1 and N:
            ld["l"][int(rng.integers(0, N))] = int(rng.choice([K, -K - 1]))
    return {"N": N, "subset": sd, "labels": ld, "sarg": sa, "kw": gen_kw(rng)}


def c_tokens(ca):
    import c16
    return c16.tok_subset(ca["subset"]) + " " + c16.tok_labels(ca["labels"]) + " " + sarg_tok(ca["sarg"]) + " " + kw_tok(ca["kw"])


def c_kwargs(ca):
    import c16
    kw = dict(labels=c16.py_labels(ca["labels"]), color_scheme=py_sarg(ca["sarg"]), subset=c16.py_subset(ca["subset"]))
    if ca["kw"] is not None:
        kw["color"] = ca["kw"]
    return kw


def valid_colour(s):
    from matplotlib.colors import is_color_like
    return bool(is_color_like(s))


# ---------------------------------------------------------------- function level: _process_plot_args
def evaluate_colour_args(ctx, n_cases, seed):
    import c16
    from matplotlib.figure import Figure
    from koala.lattice import Lattice
    from koala import plotting as kp
    res = ctx.res
    rng = np.random.default_rng([seed, 16, 7])
    ax = Figure().add_subplot()
    cases, lines = [], []
    for _ in range(n_cases):
        N = int(rng.integers(1, 8))
        ca = gen_c_args(rng, N)
        cases.append(ca)
        lines.append("argsc %d %s" % (N, c_tokens(ca)))
        lines.append("cres %s %s" % (sarg_tok(ca["sarg"]), kw_tok(ca["kw"])))
    outs = c16.drv(ctx, lines)
    for k, ca in enumerate(cases):
        check_colour_args_case(ctx, ca, outs[2 * k], outs[2 * k + 1], ax)


def check_colour_args_case(ctx, ca, o, oc, ax=None):
    import c16
    from matplotlib.figure import Figure
    from koala.lattice import Lattice
    from koala import plotting as kp
    res = ctx.res
    if ax is None:
        ax = Figure().add_subplot()
    N = ca["N"]
    case = dict(ca, kind="cargs")
    pos = (np.arange(2 * N).reshape(N, 2) + 0.5) / (2 * N + 1)
    lat = Lattice(pos, np.zeros((0, 2), dtype=int), np.zeros((0, 2), dtype=int))
    kwargs = {} if ca["kw"] is None else {"color": ca["kw"]}
    for oo in (o, oc):
        if "error" in oo:
            raise RuntimeError(f"driver error {oo['error']}")
    try:
        _, colors, scheme, subset, _, _ = kp._process_plot_args(lat, ax, c16.py_labels(ca["labels"]), py_sarg(ca["sarg"]),
                                                                 c16.py_subset(ca["subset"]), N, kwargs)
        got = ("ok", [int(i) for i in subset], [str(x) for x in colors], [str(x) for x in scheme])
    except (IndexError, ValueError) as e:
        got = (type(e).__name__,)
    res.traces += 1
    fam = "glue/_process_plot_args/" + ("str-scheme" if isinstance(ca["sarg"], str) else "list-scheme") + ("/color-kw" if ca["kw"] is not None else "")
    res.count(fam, digest(case) if ca["kw"] is not None or isinstance(ca["sarg"], str) else None)
    if o["res"][0] != got[0]:
        ctx.k_mismatch(f"_process_plot_args: implementation {got[0]}, model process_plot_args_c {o['res'][0]}", case)
        return
    if got[0] != "ok":
        return
    midx = [int(t) for t in o["idx"][1:]]
    c = Cursor(o["col"])
    mcol = c.list(lambda: rd_ustr(c))
    if midx != got[1] or mcol != got[2]:
        ctx.k_mismatch(f"_process_plot_args: model indices {midx[:6]} colours {mcol[:6]}, implementation {got[1][:6]} {got[2][:6]}", case)
    if oc["res"][0] != "ok":
        ctx.k_mismatch(f"resolve_scheme: model {oc['res'][0]} but _process_plot_args returned", case)
        return
    c = Cursor(oc["sch"])
    msch = c.list(lambda: rd_ustr(c))
    if msch != got[3] and not (msch == [] and len(got[3]) == 0):
        ctx.k_mismatch(f"resolve_scheme: model scheme {msch}, implementation's color_scheme {got[3]}", case)
    # the color= keyword is outside the property's quantifier (labels x colour schemes); the numpy truncation of the
    # keyword's colour (theorem C16_color_kw_refuted; plot_edges(lat, color='lightgrey') raises ValueError) is counted here
    # and reported to the lead as a finding, not raised as a violation of C16
    if ca["kw"] is not None and got[3] and got[3][0] != ca["kw"]:
        res.extra["color_kw_truncated_by_numpy(finding reported, not a C16 violation)"] = \
            res.extra.get("color_kw_truncated_by_numpy(finding reported, not a C16 violation)", 0) + 1


# ---------------------------------------------------------------- artist level
def edge_skip_set(c16, pos, edges, crossing, sel):
    """edges whose visibility decision (any of the nine images) is within TOL of a threshold — as in c16.check_edges"""
    skip = set()
    if not sel:
        return skip
    ev = pos[edges[sel]].astype(float)
    ev[:, 0, :] -= crossing[sel]
    for e, mm in zip(sel, np.min(np.abs(ev - np.round(ev)).reshape(len(sel), -1), axis=1)):
        if mm < c16.TOL:
            skip.add(e)
    for d in c16.gen_nine():
        _, mar = c16.vis_margin(ev + np.array(d, dtype=float))
        for e, mm in zip(sel, mar):
            if mm < c16.TOL:
                skip.add(e)
    return skip


def compare_edges(ctx, c16, what, case, pos, edges, crossing, idx, segs, cols, mdrawn, exact, final_of):
    """multiset of (segment, colour): artists vs model's drawn list (pieces of near-degenerate edges removed on both sides)"""
    sel = sorted(set(idx))
    skip = set() if exact else edge_skip_set(c16, pos, edges, crossing, sel)
    fl = {}
    for e in skip:
        a, b = c16.exact_unwrapped_edge(pos, edges, crossing, e)
        fl[e] = (np.array([float(a[0]), float(a[1])]), np.array([float(b[0]), float(b[1])]))

    def keep(s):
        return not any(c16.match_translate(s, *fl[e]) is not None for e in skip)
    I = [(list(np.asarray(s).ravel()), cols[k]) for k, s in enumerate(segs) if keep(np.asarray(s))]
    M = []
    for sg, col in mdrawn:
        ms = np.array([[float(p[0]), float(p[1])] for p in sg])
        if keep(ms):
            M.append((list(ms.ravel()), final_of(col)))
    close = lambda a, b: a[1] == b[1] and np.max(np.abs(np.asarray(a[0]) - np.asarray(b[0]))) <= c16.TOL
    if not c16.match_multisets(I, M, close):
        onlyI = [a for a in I if not any(close(a, b) for b in M)][:2]
        onlyM = [b for b in M if not any(close(a, b) for a in I)][:2]
        ctx.k_mismatch(f"{what}: drawn pieces differ: implementation {len(I)} pieces, model {len(M)}; only in implementation {onlyI}; only in model {onlyM}", case)
    return len(skip)


def expect_exc(ctx, what, r, want, case):
    """the implementation must have raised `want`"""
    if "exc" not in r:
        ctx.k_mismatch(f"{what}: model {want}, implementation draws", case)
    elif r["exc"] != want:
        ctx.k_mismatch(f"{what}: implementation raised {r['exc']} ({r['msg']}), model {want}", case)


def s_colour_clause(ctx, c16, what, case, cols, ca, default=None):
    """S, independent of the model: every artist colour is the color= keyword's (edges, plaquettes), else one of the scheme's
    entries — THE entry for a str scheme or for the defaults (label 0)"""
    if default is not None:
        allowed = {c16.rgba(default)}
    elif ca["kw"] is not None:
        allowed = {c16.rgba(ca["kw"])}
    elif isinstance(ca["sarg"], str):
        allowed = {c16.rgba(ca["sarg"])}
    else:
        allowed = {c16.rgba(x) for x in ca["sarg"]}
    bad = [c for c in cols if tuple(c) not in allowed]
    if bad:
        ctx.res.violation("glue:colour", f"{what}: drawn in {bad[0]}, which is neither the color= keyword nor an entry of the colour scheme (allowed: {sorted(allowed)[:4]})", case)


def glue_vertices(ctx, c16, lc, ca, case, default=False):
    from koala import plotting as kp
    what = "plot_vertices[defaults]" if default else f"plot_vertices[scheme={ca['sarg']!r}, color={ca['kw']!r}]"
    r = c16.call_impl(kp.plot_vertices, lc.lat, **({} if default else c_kwargs(ca)))
    o = c16.drv(ctx, [("vdef " + lc.ser) if default else ("vertsc " + lc.ser + " " + c_tokens(ca))])[0]
    if "error" in o:
        raise RuntimeError(f"driver error {o['error']}")
    ctx.res.traces += 1
    if o["res"][0] != "ok":
        return expect_exc(ctx, what, r, o["res"][0], case)
    if "exc" in r:
        return ctx.k_mismatch(f"{what}: implementation raised {r['exc']} ({r['msg']}), model draws", case)
    got = c16.read_vertices(r["ax"], len(lc.pos))
    c = Cursor(o["pts"])
    mp = c.list(lambda: (c16.rd_pt(c), rd_ustr(c)))
    off, fc = got if got is not None else ([], [])
    if len(off):
        s_colour_clause(ctx, c16, what, case, fc, ca, default=("black" if default else None))
    vclose = lambda a, b: a[1] == b[1] and np.max(np.abs(np.asarray(a[0]) - np.asarray(b[0]))) <= c16.TOL
    if got is None or not c16.match_multisets([(off[k], fc[k]) for k in range(len(off))], [((float(p[0]), float(p[1])), c16.rgba(col)) for p, col in mp], vclose):
        ctx.k_mismatch(f"{what}: model draws {len(mp)} vertices {[(float(p[0]), float(p[1]), col) for p, col in mp][:3]}, implementation {len(off)}", case)


def glue_edges(ctx, c16, lc, ca, case, default=False):
    from koala import plotting as kp
    what = "plot_edges[defaults]" if default else f"plot_edges[scheme={ca['sarg']!r}, color={ca['kw']!r}]"
    r = c16.call_impl(kp.plot_edges, lc.lat, **({} if default else c_kwargs(ca)))
    o = c16.drv(ctx, [("edef " + lc.ser) if default else ("edgesc " + lc.ser + " " + c_tokens(ca) + " s 1")])[0]
    if "error" in o:
        raise RuntimeError(f"driver error {o['error']}")
    ctx.res.traces += 1
    if o["res"][0] != "ok":
        return expect_exc(ctx, what, r, o["res"][0], case)
    c = Cursor(o["drawn"])
    md = c.list(lambda: ([c16.rd_pt(c), c16.rd_pt(c)], rd_ustr(c), rd_ustr(c), c.z()))
    handed_bad = sorted({d[1] for d in md if not valid_colour(d[1])})
    if handed_bad:
        # the colours of the scheme are handed to LineCollection(colors=...) before color= overrides them: matplotlib rejects them
        ctx.res.extra["plot_edges_raises_on_truncated_color_kw"] = ctx.res.extra.get("plot_edges_raises_on_truncated_color_kw", 0) + 1
        return expect_exc(ctx, what + f" (handed colour {handed_bad[0]!r} is not a colour)", r, "ValueError", case)
    if "exc" in r:
        return ctx.k_mismatch(f"{what}: implementation raised {r['exc']} ({r['msg']}), model draws", case)
    got = c16.read_edges(r["ax"])
    if got is None:
        return ctx.k_mismatch(f"{what}: no LineCollection", case)
    segs, cols, _ = got
    if len(segs):
        s_colour_clause(ctx, c16, what, case, cols, ca, default=("#E7414E" if default else None))
    idx = list(range(len(lc.edges))) if default else c16.ref_indices(ca["subset"], len(lc.edges))
    compare_edges(ctx, c16, what, case, lc.pos, lc.edges, lc.crossing, idx or [], segs, cols, [(d[0], d[2]) for d in md], lc.exact, c16.rgba)


def glue_plaquettes(ctx, c16, lc, ca, case, default=False):
    from koala import plotting as kp
    pls = lc.plaqs
    what = "plot_plaquettes[defaults]" if default else f"plot_plaquettes[scheme={ca['sarg']!r}, color={ca['kw']!r}]"
    ptok = str(len(pls)) + "".join(" %d %d" % (p["v0"], len(p["edges"])) + "".join(" %d %d" % (e, 1 if d == 1 else 0) for e, d in zip(p["edges"], p["dirs"])) for p in pls)
    r = c16.call_impl(kp.plot_plaquettes, lc.lat, **({} if default else c_kwargs(ca)))
    o = c16.drv(ctx, [("pdef " + lc.ser + " " + ptok) if default else ("plaqsc " + lc.ser + " " + ptok + " " + c_tokens(ca))])[0]
    if "error" in o:
        raise RuntimeError(f"driver error {o['error']}")
    ctx.res.traces += 1
    if o["res"][0] != "ok":
        return expect_exc(ctx, what, r, o["res"][0], case)
    if "exc" in r:
        return ctx.k_mismatch(f"{what}: implementation raised {r['exc']} ({r['msg']}), model draws", case)
    got = c16.read_plaquettes(r["ret"])
    idx = list(range(len(pls))) if default else c16.ref_indices(ca["subset"], len(pls))
    nm = int(o["np"][0])
    if idx is None or nm != len(got) or nm != len(idx):
        return ctx.k_mismatch(f"{what}: model {nm} plaquettes, implementation {len(got)}", case)
    s_colour_clause(ctx, c16, what, case, [fc for _, fcs in got for fc in fcs], ca, default=("#E7414E" if default else None))
    for k, (i, (polys, fcs)) in enumerate(zip(idx, got)):
        c = Cursor(o[f"p{k}"])
        col = rd_ustr(c)
        mpolys = c.list(lambda: c.list(lambda: c16.rd_pt(c)))
        if any(fc != c16.rgba(col) for fc in fcs):
            ctx.k_mismatch(f"{what}: plaquette {i}: model colour {col!r}, implementation {fcs[:1]}", case)
            break
        if not lc.exact:
            exf = np.array([[float(x), float(y)] for x, y in c16.exact_polygon(lc, pls[i])])
            if c16.pad_margin(exf) < c16.TOL or np.min(np.abs(exf - np.round(exf))) < c16.TOL:
                continue
        mpf = [(np.array([[float(x), float(y)] for x, y in mp]), 0) for mp in mpolys]
        if not c16.match_multisets([(ip, 0) for ip in polys], mpf, lambda a, b: c16.poly_close(a[0], b[0])):
            ctx.k_mismatch(f"{what}: plaquette {i}: model draws {len(mpolys)} polygons, implementation {len(polys)}, or coordinates differ", case)
            break


def glue_dual(ctx, c16, lc, case, rng):
    """plot_dual: (S + K on the dual's own arrays) through c16.check_edges with the plotting call replaced, and K of the
    model plot_dual (exact dual of the primal lattice, Model/Dual.v) against the artists"""
    from koala import plotting as kp
    from koala.graph_utils import make_dual
    res = ctx.res
    try:
        D = make_dual(lc.lat)
        derr = None
    except Exception as e:       # LatticeException (plaquettes) or the duplicate-edge guard
        D, derr = None, ("DUPLICATE" if "Dual is not currently designed" in str(e) else "STUCK")
    if D is None:
        r = c16.call_impl(lambda lat, **kw: _catch_any(kp.plot_dual, lat, **kw), lc.lat)
        o = c16.drv(ctx, ["dual " + lc.ser + " S N N N s 0 1 s 1"])[0]
        if "error" in o:
            raise RuntimeError(f"driver error {o['error']}")
        res.traces += 1
        if o["res"][0] != derr or r.get("ret") != "raised":
            ctx.k_mismatch(f"plot_dual: make_dual raised ({derr}); model {o['res'][0]}; plot_dual {'raised' if r.get('ret') == 'raised' else 'returned'}", case)
        res.count("glue/plot_dual/" + derr.lower(), None)
        return
    n = D.n_edges
    pa = c16.gen_plot_args(rng, n)
    dirs = [int(x) for x in rng.choice([-1, 1], size=n)] if (n <= 40 and rng.uniform() < 0.3) else None
    dpos = np.asarray(D.vertices.positions, dtype=float)
    # --- S and K on the dual's own (float) arrays: the artists of plot_dual(primal) must be those of the dual lattice
    lc2 = c16.LatCase()
    lc2.lat, lc2.pos, lc2.edges, lc2.crossing = D, dpos, np.asarray(D.edges.indices), np.asarray(D.edges.crossing).astype(int)
    ok2 = n > 0 and np.min(dpos) >= 0 and np.max(dpos) < 1
    if ok2:
        lc2.ser, lc2.S = ser_lattice_arrays(lc2.pos, lc2.edges, lc2.crossing)
        lc2.skipped_edges, lc2.skipped_plaqs, lc2.img_hist, lc2.poly_hist, lc2.exact, lc2.plaqs = set(), set(), {}, {}, False, None
        sub_case = dict(case, glue="dual", args_dual=pa, dirs_dual=dirs)
        c16.check_edges(ctx, lc2, pa, dirs, sub_case, fn=lambda lat, **kw: kp.plot_dual(lc.lat, **kw), fname="plot_dual")
        for k, v in lc2.img_hist.items():
            h = res.extra.setdefault("plot_dual_images_per_edge", {})
            h[k] = h.get(k, 0) + v
    else:
        res.skip("plot_dual: dual position outside [0,1) (x % 1 == 1.0 in floats) or no dual edge")
    # --- K: model plot_dual on the exact primal lattice
    idx = c16.ref_indices(pa["subset"], n)
    ld = {"kind": "scalar", "z": pa["scalar"]} if pa["form"] == "scalar" else {"kind": "list", "l": pa["full"], "asarray": pa["asarray"]}
    kw = dict(labels=c16.py_labels(ld), color_scheme=list(pa["scheme"]), subset=c16.py_subset(pa["subset"]))
    r = c16.call_impl(lambda lat, **k2: kp.plot_dual(lat, **k2), lc.lat, **kw)
    o = c16.drv(ctx, ["dual " + lc.ser + " " + c16.tok_subset(pa["subset"]) + " " + c16.tok_labels(ld) + " " + str(len(pa["scheme"])) + " s 1"])[0]
    if "error" in o:
        raise RuntimeError(f"driver error {o['error']}")
    res.traces += 1
    periodic = bool(np.any(lc2.crossing != 0))
    res.count("glue/plot_dual/" + ("periodic" if periodic else "open"), digest([case["lattice"], pa["subset"]]) if periodic else None)
    if o["res"][0] in ("STUCK", "DUPLICATE"):
        return ctx.k_mismatch(f"plot_dual: model {o['res'][0]}, implementation's make_dual returned", case)
    c = Cursor(o["dpos"])
    mpos = np.array([[float(x), float(y)] for x, y in c.list(lambda: c16.rd_pt(c))]).reshape(-1, 2)
    c = Cursor(o["ded"])
    med = c.list(lambda: (c.int(), c.int()))
    c = Cursor(o["dcr"])
    mcr = c.list(lambda: (c.z(), c.z()))
    if mpos.shape != dpos.shape or (len(dpos) and np.max(np.abs(mpos - dpos)) > c16.TOL) or med != [tuple(int(x) for x in e) for e in lc2.edges] \
            or mcr != [tuple(int(x) for x in e) for e in lc2.crossing]:
        # the dual itself is C13's property (centre on a cell line: x % 1 flips; rounding ties); not compared here
        return res.skip("plot_dual: model dual and implementation dual differ (centre within 1e-9 of a cell line / rounding tie; C13)")
    if o["res"][0] != "ok":
        return expect_exc(ctx, "plot_dual", r, o["res"][0], case)
    if "exc" in r:
        return ctx.k_mismatch(f"plot_dual: implementation raised {r['exc']} ({r['msg']}), model draws", case)
    got = c16.read_edges(r["ax"])
    if got is None:
        return ctx.k_mismatch("plot_dual: no LineCollection", case)
    segs, cols, _ = got
    c = Cursor(o["drawn"])
    md = c.list(lambda: ([c16.rd_pt(c), c16.rd_pt(c)], c.z(), c.z()))
    compare_edges(ctx, c16, "plot_dual(exact dual)", dict(case, glue="dual", args_dual=pa), dpos, lc2.edges, lc2.crossing, idx or [], segs, cols,
                  [(d[0], d[1]) for d in md], False, lambda col: c16.rgba(pa["scheme"][col]))


def _catch_any(fn, lat, **kw):
    try:
        fn(lat, **kw)
    except Exception:
        return "raised"
    return "returned"


GLUE_KINDS = ("vertices", "edges", "plaquettes", "defaults", "dual")


def glue_checks(ctx, lc, case):
    """one of the glue correspondence checks per lattice case (chosen by the case's seed)"""
    import c16
    rng = np.random.default_rng([case["seed"], 16, 5])
    kind = case.get("glue_kind") or GLUE_KINDS[int(rng.integers(0, len(GLUE_KINDS)))]
    if kind == "dual" and "glue_kind" not in case:
        # budget: plot_dual (make_dual several times, plaquettes of the dual) on the smaller lattices, a bounded number per run
        left = getattr(ctx, "glue_dual_left", None)
        if left is None:
            left = 14 if ctx.tier == "quick" else 300
        if left <= 0 or len(lc.edges) > (90 if ctx.tier == "quick" else 400) or not lc.plaqs or lc.exact:
            kind = "edges"
        else:
            ctx.glue_dual_left = left - 1
    res = ctx.res
    gcase = dict(case, glue_kind=kind)
    t0 = time.time()
    try:
        _glue_dispatch(ctx, c16, lc, case, gcase, kind, rng)
    finally:
        h = res.extra.setdefault("glue_wall_s", {})
        h[kind] = round(h.get(kind, 0) + time.time() - t0, 2)


def _glue_dispatch(ctx, c16, lc, case, gcase, kind, rng):
    res = ctx.res
    if kind == "vertices":
        ca = case.get("glue_args") or gen_c_args(rng, len(lc.pos))
        glue_vertices(ctx, c16, lc, ca, dict(gcase, glue_args=ca))
    elif kind == "edges" and len(lc.edges):
        ca = case.get("glue_args") or gen_c_args(rng, len(lc.edges))
        glue_edges(ctx, c16, lc, ca, dict(gcase, glue_args=ca))
    elif kind == "plaquettes" and lc.plaqs:
        ca = case.get("glue_args") or gen_c_args(rng, len(lc.plaqs))
        glue_plaquettes(ctx, c16, lc, ca, dict(gcase, glue_args=ca))
    elif kind == "defaults":
        glue_vertices(ctx, c16, lc, None, gcase, default=True)
        if len(lc.edges):
            glue_edges(ctx, c16, lc, None, gcase, default=True)
        if lc.plaqs:
            glue_plaquettes(ctx, c16, lc, None, gcase, default=True)
    elif kind == "dual" and lc.plaqs and len(lc.edges) and not lc.exact:
        # (a lattice without plaquettes is outside make_dual's input space: C13)
        glue_dual(ctx, c16, lc, gcase, rng)
    else:
        return
    if kind != "dual":
        ca = gcase.get("glue_args") or case.get("glue_args")
        res.count("glue/" + kind + ("/color-kw" if (kind != "defaults" and ca and ca["kw"] is not None) else ""),
                  digest([case["lattice"], kind, ca]) if kind != "defaults" else None)
