"""./check <Cxx> --tier quick|thorough [--replay file]

Decision rule (DESIGN section 0): rebuild model/proofs/extraction from the current tree,
run the property's spec checker S on implementation outputs and the correspondence K
model-vs-implementation, then
  * S rejects an implementation output            -> VIOLATION with that input
  * a proof / the translator / K no longer checks -> search for a failing input; report it
    if found, else VIOLATION ... no-failing-input-found (replay names what broke)
  * a violation listed in known_findings.txt      -> KNOWN-FINDING line, exit 0."""
import argparse, importlib, json, os, sys, time, traceback

HERE = os.path.dirname(os.path.abspath(__file__))
sys.path.insert(0, HERE)
import build
from lib import *  # noqa

GENERIC_TRUST = [
    "Coq 8.16.1 kernel (coqc; vm_compute used, native_compute not used)",
    "extraction with ExtrOcamlBasic only (Extract Inductive bool/option/unit/list/prod/sumbool => OCaml's, Extract Inlined Constant andb/orb/negb/fst/snd); nat, positive, Z stay inductive",
    "OCaml 4.13.1 compiler, ocaml/hexio.ml and the property's *_driver.ml",
    "Python harness (generators, exact float->dyadic serialisation, canonicalisation, implementation runners)",
]


class Ctx:
    def __init__(self, prop, tier, seed, st):
        self.prop, self.tier, self.seed, self.st = prop, tier, seed, st
        self.res = Result(prop, tier, seed)
        self.kmis = []          # correspondence mismatches (case, diffs)
        self.exe = st["drivers"]

    def k_mismatch(self, what, case):
        self.kmis.append({"what": what, "case": case})


def write_replay(prop, name, payload):
    d = os.path.join(os.environ.get("VERIF_REPLAY_DIR", os.path.join(VERIF, "replays")), prop)
    os.makedirs(d, exist_ok=True)
    path = os.path.join(d, name + ".json")
    with open(path, "w") as f:
        json.dump(jsonable(payload), f, indent=1, default=str)
    return path


def main():
    ap = argparse.ArgumentParser()
    ap.add_argument("prop")
    ap.add_argument("--tier", default=os.environ.get("VERIF_TIER", "quick"))
    ap.add_argument("--replay", default=None)
    a = ap.parse_args()
    prop, tier = a.prop.upper(), a.tier
    seed = int(os.environ.get("VERIF_SEED", "20260926"))
    t0 = time.time()
    mod = importlib.import_module(prop.lower())
    st = build.prepare(prop, drivers=getattr(mod, "DRIVERS", ()), targets=getattr(mod, "TARGETS", None),
                       model_targets=getattr(mod, "MODEL_TARGETS", None),
                       translators=getattr(mod, "TRANSLATORS", ()))
    ctx = Ctx(prop, tier, seed, st)
    res = ctx.res
    broken = []   # proof-side breakage (theorem / translator / extraction)
    if st["make_error"]:
        e = st["make_error"]
        broken.append(f"{e['stage']} failed at {e.get('file')}:{e.get('line')}: {e['msg'][-600:]}")
    pr = st.get("props")
    if pr is not None:
        if not pr["ok"]:
            broken.append(f"property theorem {pr.get('failing_theorem')} in Props/{prop}.v no longer checks: {str(pr['error'])[-600:]}")
        else:
            if pr["non_whitelisted_axioms"]:
                broken.append(f"non-whitelisted axioms: {pr['non_whitelisted_axioms']}")
    if st["gate"]:
        broken.append("grep gate: " + "; ".join(st["gate"][:5]))

    harness_error = None
    drivers_ok = all(d in st["drivers"] for d in getattr(mod, "DRIVERS", ()))
    if drivers_ok:
        try:
            if a.replay:
                mod.replay(ctx, json.load(open(a.replay)))
            else:
                mod.run(ctx)
                if (broken or ctx.kmis) and not res.violations and hasattr(mod, "search"):
                    mod.search(ctx)
        except Exception:
            harness_error = traceback.format_exc()
            broken.append("harness error: " + harness_error[-1500:])
    else:
        broken.append("extracted model could not be built; S/K not run")

    known = [k for k in load_known_findings() if k["property"] == prop]
    new, listed = [], []
    for v in res.violations:
        hit = [k for k in known if k["key"] == v["key"]]
        (listed if hit else new).append(v)
    lines = []
    seen_known = set()
    for v in listed:
        if v["key"] not in seen_known:
            seen_known.add(v["key"])
            lines.append(f"KNOWN-FINDING: property={prop} {v['key']}: {v['what']}")
    exit_code = 0
    by_key = {}
    for v in new:
        by_key.setdefault(v["key"], []).append(v)
    for key, vs in by_key.items():
        path = write_replay(prop, "violation_" + digest([key, vs[0]["case"]]),
                            {"property": prop, "key": key, "what": vs[0]["what"], "case": vs[0]["case"],
                             "count": len(vs), "seed": seed, "tier": tier})
        lines.append(f"VIOLATION property={prop} replay={path}")
        exit_code = 1
    if not new and (broken or ctx.kmis):
        payload = {"property": prop, "broken_obligations": broken,
                   "correspondence_mismatches": ctx.kmis[:10], "n_mismatches": len(ctx.kmis),
                   "note": "no input violating the property was found by the search; the property is no longer shown to hold",
                   "seed": seed, "tier": tier}
        path = write_replay(prop, "unproved_" + digest(payload), payload)
        lines.append(f"VIOLATION property={prop} replay={path} no-failing-input-found")
        exit_code = 1

    # ---- evidence
    names = pr["theorems"] if pr else []
    discharged = pr.get("discharged", []) if pr else []
    axioms = sorted({a for axs in (pr["assumptions"].values() if pr else []) for a in axs})
    level = getattr(mod, "LEVEL", "proof")
    cov = {
        "obligations": len(names), "discharged": len(discharged) if not st["make_error"] else 0,
        "checker_cmd": pr["checker_cmd"] if pr else "make -C coq (failed)",
        "trusted_base": GENERIC_TRUST + getattr(mod, "TRUST", []) + [f"axioms reported by Print Assumptions: {axioms or 'none (closed under the global context)'}"],
        "theorems": names,
        "print_assumptions": pr["assumptions"] if pr else {},
        "traces_validated_against_impl": res.traces,
        "evaluations": res.evaluations, "distinct_nontrivial": len(res.nontrivial_keys),
        "rule": res.rule, "samples": jsonable(res.samples) or [{"theorems": names[:3]}],
        "families": res.hist, "skipped": res.skipped,
        "correspondence_mismatches": len(ctx.kmis),
        "broken_obligations": broken,
        "known_findings_hit": sorted(seen_known),
    }
    if cov["obligations"] < 1 or cov["discharged"] < 1:
        # the schema's proof-level keys need >= 1; when the proof side is broken this run is a violation anyway and
        # the evidence falls back to the exploration-style counts (evaluations / distinct_nontrivial)
        cov["obligations_attempted"] = cov.pop("obligations")
        cov["discharged_now"] = cov.pop("discharged")
    cov.update(jsonable(res.extra))
    ev = {"property_id": prop, "tier": tier if tier in ("quick", "thorough") else "quick", "seed": seed,
          "level": level, "coverage": cov, "assumptions": getattr(mod, "ASSUMPTIONS", []),
          "wall_s": round(time.time() - t0, 1), "violations": len(new) + (1 if (not new and (broken or ctx.kmis)) else 0)}
    evdir = os.environ.get("VERIF_EVIDENCE_DIR", os.path.join(VERIF, "evidence"))   # diverted only by tools/try_seed.sh
    os.makedirs(evdir, exist_ok=True)
    with open(os.path.join(evdir, f"{prop}.json"), "w") as f:
        json.dump(ev, f, indent=1, default=str)
    for ln in lines:
        print(ln)
    print(f"{prop} {tier}: theorems {len(discharged)}/{len(names)}, evaluations {res.evaluations}, "
          f"nontrivial {len(res.nontrivial_keys)}, K-validated {res.traces}, K-mismatches {len(ctx.kmis)}, "
          f"violations {len(new)}, known {len(seen_known)}, skipped {res.skipped}, {ev['wall_s']}s")
    if broken:
        print("BROKEN:", *broken, sep="\n  ")
    sys.exit(exit_code)


if __name__ == "__main__":
    main()
