"""C06 — the flux-sector solver reaches every target sector up to the parity obstruction.

S  on the implementation (restated independently here): result is an int8 array of +-1 of length n_edges; with
   D = #{p : flux(guess)_p != target_p} computed with the harness' own flux formula: D even -> flux(result) == target,
   D odd -> exactly one plaquette differs; no exception; arguments (lattice tables, target, guess) unchanged (fingerprints);
   the same for the deprecated pair find_flux_sector / fluxes_from_bonds; make_amorphous: proper 3-edge-colouring,
   ansatz realised (exactly on periodic, up to one plaquette on open lattices), same seed => identical outputs.
K  extracted model fs_solve (Model/FluxSolver.v) fed with the implementation's own pairing and paths (captured from its calls of
   path_between_plaquettes, a public function) reproduces the returned bonds exactly; the proved contract checkers fs_wf,
   fs_pairing_ok, fs_path_ok (hypotheses of C06_solver_contract) are evaluated on the implementation's tables / captured values;
   the generated ground_state_ansatz and sign table are compared with the Python functions on n = 3..400."""
from lib import *  # noqa
import gen
import argforms as AF
from koala.lattice import Lattice, LatticeException
import koala.flux_finder.flux_finder as ffm
from koala.flux_finder import pathfinding as pf
from koala import example_graphs as eg

DRIVERS = ("c06",)
TRANSLATORS = ("ansatz",)
MODEL_TARGETS = ["Model/AStar.vo", "Model/FluxSolver.vo", "Gen/AnsatzGen.vo"]
TARGETS = ["Proofs/AStarFacts.vo", "Proofs/AStarOptimal.vo", "Proofs/AStarBudget.vo", "Proofs/ChainFlipFacts.vo", "Proofs/FluxSolverFacts.vo", "Proofs/AnsatzFacts.vo", "Proofs/GreedyPairingFacts.vo"]
LEVEL = "proof"
TRUST = [
    "hand-written Gallina model coq/Model/FluxSolver.v of flux_finder.py (fluxes_from_ujk, fluxes_from_bonds, _flip_adjacent_fluxes, _flip_isolated_fluxes, "
    "ujk_from_fluxes / find_flux_sector incl. both self-checks): modelled, not verified; tied by the correspondence run (bonds reproduced exactly)",
    "the greedy pairing is modelled as coded with its two implementation-defined choices (set.pop order, float min) as oracles constrained only to return a member, and PROVED to meet the pairing contract for every such pair (C06_solver_contract_greedy); "
    "the A* search stays an oracle whose contract (valid simple plaquette chain between the pair) is a hypothesis (discharged for the A* model by C06_astar_oracle_contract), evaluated by the proved boolean checker on the paths captured from the implementation on every solver call",
    "well-formedness fs_wf of (plaquettes, edges.adjacent_plaquettes) is a hypothesis (C01/C02's conclusion), evaluated on every lattice",
    "translator translate/ansatz.py (Python int //, %, ** -> Z.div, Z.modulo, Z.pow): trusted, validated on n = 3..400 against the Python function on every run",
    "make_amorphous: Voronoi construction (Qhull), SAT colouring (glucose) and numpy RNG are outside the model; only the outputs are checked (S)",
    "non-mutation of arguments and the int8 dtype are observed on the implementation (fingerprints), not proved (the model is functional)",
]
ASSUMPTIONS = ["plaquette-adjacency graph connected (property quantifier); target and guess in {-1,+1}"]


# ------------------------------------------------------------------ independent restatements
def own_flux(lat, u, conv):
    out = np.zeros(lat.n_plaquettes, dtype=int)
    sign_real = [1, -1, -1, 1]
    for i, p in enumerate(lat.plaquettes):
        x = 1
        for e, d in zip(p.edges, p.directions):
            x *= (-int(u[e]) * int(d)) if conv == 0 else (int(u[e]) * int(d))
        out[i] = x if conv == 0 else sign_real[len(p.edges) % 4] * x
    return out


def plaq_components(lat):
    n = lat.n_plaquettes
    parent = list(range(n))

    def find(x):
        while parent[x] != x:
            parent[x] = parent[parent[x]]
            x = parent[x]
        return x
    for a, b in lat.edges.adjacent_plaquettes:
        if a != INVALID and b != INVALID:
            parent[find(int(a))] = find(int(b))
    return len({find(x) for x in range(n)})


def fingerprint(lat, target, guess):
    h = hashlib.sha1()
    for a in (lat.vertices.positions, lat.edges.indices, lat.edges.crossing, lat.edges.adjacent_plaquettes):
        a = np.asarray(a)
        h.update(str(a.dtype).encode() + str(a.shape).encode() + a.tobytes())
    for p in lat.plaquettes:
        h.update(np.asarray(p.edges).tobytes() + np.asarray(p.directions).tobytes() + np.asarray(p.center).tobytes())
    for a in (target, guess):
        if a is None:
            h.update(b"None")
        else:
            h.update(str(a.dtype).encode() + str(a.shape).encode() + a.tobytes())
    return h.hexdigest()


# ------------------------------------------------------------------ cases
def c06_lattice_cases(tier, seed):
    rng = np.random.default_rng([seed, 6])
    cases = []
    tilings = [("honeycomb_lattice", [2]), ("honeycomb_lattice", [3]), ("square_lattice", [2, 2]), ("square_lattice", [3, 4]),
               ("hex_square_oct_lattice", [2]), ("tri_non_lattice", [2]), ("honeycomb_lattice", [6]), ("square_lattice", [2, 5])]
    if tier != "quick":
        tilings += [("honeycomb_lattice", [10]), ("square_lattice", [9, 9]), ("hex_square_oct_lattice", [4]), ("tri_non_lattice", [4]),
                    ("honeycomb_lattice", [4]), ("square_lattice", [4, 7]), ("hex_square_oct_lattice", [3]), ("tri_non_lattice", [3])]
    for name, args in tilings:
        cases.append({"family": "example", "name": name, "args": args})
    nv = 20 if tier == "quick" else 120
    nmax = 200 if tier == "quick" else 400
    for i in range(nv):
        style = gen.POINT_STYLES[i % 4]
        n = int(rng.integers(9, 12)) if i % 3 == 0 else int(rng.integers(12, 60)) if i % 3 == 1 else int(rng.integers(60, nmax + 1))
        cases.append({"family": "voronoi", "style": style, "n": n, "seed": int(rng.integers(0, 2**31)), "shift": bool(i % 2)})
    bases = list(cases)
    for i, b in enumerate(bases):
        cut = [[True, True], [True, False], [False, True]][i % 3]
        cases.append({"family": "cut", "base": b, "cut": cut})
    for name in ["two_triangles", "tri_square_pent", "tutte_graph", "bridge_graph"]:
        cases.append({"family": "example", "name": name})
    # large open / strip cuts with dense targets: many greedy paths, several of them through the same bond
    # (a bond on three paths must be flipped three times = once; batching slips only show there)
    for i in range(6 if tier == "quick" else 30):
        b = {"family": "voronoi", "style": gen.POINT_STYLES[i % 4], "n": int(rng.integers(150, 260)),
             "seed": int(rng.integers(0, 2**31)), "shift": bool(i % 2)}
        cases.append({"family": "cut", "base": b, "cut": [[True, True], [True, False], [False, True]][i % 3], "dense": True})
    return cases


def targets_for(lat, rng, tier, exhaustive_max, dense=False):
    """list of (target or None, guess or None)"""
    F, E = lat.n_plaquettes, lat.n_edges
    out = [(None, None)]                       # default arguments
    def rnd_guess():
        return (1 - 2 * rng.integers(0, 2, size=E)).astype(np.int8)
    if F <= exhaustive_max:
        g = rnd_guess()
        for mask in range(1 << F):
            t = np.array([1 - 2 * ((mask >> i) & 1) for i in range(F)], dtype=np.int8)
            out.append((t, None if mask % 2 else g))
    else:
        k = (6 if tier == "quick" else 24) if not dense else 12
        for j in range(k):
            dens = [0.03, 0.1, 0.5, 0.9, 0.97, 0.5][j % 6] if not dense else [0.5, 0.4, 0.6][j % 3]
            t = np.where(rng.uniform(size=F) < dens, -1, 1).astype(np.int8 if j % 2 == 0 else np.int64)
            out.append((t, rnd_guess() if j % 3 else None))
    return out


# ------------------------------------------------------------------ argument forms (argforms.py)
# target sector / initial guess: +-1 arrays whose dtype and memory layout are not part of their value (the solver's result, int8
# bonds, must be the same).  The harness' own flux formula and the model always receive the plain values.
TG_FORMS = ["int8", "int16", "int32", "int64", "float64", "float32", "int8+readonly", "int64+readonly", "float64+readonly",
            "int8+strided", "int64+strided", "float64+strided"]
TG_EXCLUDED = {"target/guess:list": "type hints say np.ndarray; a list guess raises TypeError in ujk[p.edges] (a list target happens to work via list.copy() and broadcasting)",
               "target/guess:tuple": "type hints say np.ndarray; tuple has no .copy() (AttributeError)"}


def arg_forms(res, conv, target, guess):
    """(target, guess) as handed to the solver; None (default argument) stays None.  Form chosen from the values."""
    out = []
    for name, a, other in (("target_flux_sector", target, guess), ("initial_guess", guess, target)):
        if a is None:
            AF.note(res, name, "None(default)")
            out.append(None)
            continue
        form = AF.pick(TG_FORMS, name, conv, np.asarray(a, dtype=np.int64), None if other is None else np.asarray(other, dtype=np.int64))
        AF.note(res, name, form)
        out.append(AF.as_form(a, form, base=np.int64))
    for k, why in TG_EXCLUDED.items():
        AF.exclude(res, "ujk_from_fluxes/find_flux_sector", k, why)
    return out


# ------------------------------------------------------------------ one solver call
SOLVERS = {0: ("ujk_from_fluxes", "fluxes_from_ujk"), 1: ("find_flux_sector", "fluxes_from_bonds")}


def call_solver(lat, conv, target, guess):
    """returns (result or exception, captured path calls)"""
    calls = []
    orig = ffm.path_between_plaquettes

    def wrapper(l, a, b, *args, **kw):
        r = orig(l, a, b, *args, **kw)
        calls.append((int(a), int(b), [int(x) for x in r[0]], [int(x) for x in r[1]], kw.get("maxits")))
        return r
    ffm.path_between_plaquettes = wrapper
    try:
        f = getattr(ffm, SOLVERS[conv][0])
        # how an argument is passed (by position or by keyword) is not part of its value: alternate deterministically
        kwnames = {0: ("target_flux_sector", "initial_ujk_guess"), 1: ("target_flux_sector", "initial_bond_guess")}[conv]
        style = (0 if target is None else int(np.asarray(target).astype(int).sum()) + len(np.asarray(target))) % 3
        try:
            if style == 0:
                return f(lat, target, guess), calls
            if style == 1:
                return f(lat, **{kwnames[0]: target, kwnames[1]: guess}), calls
            return f(lat, target, **{kwnames[1]: guess}), calls
        except Exception as e:
            return e, calls
    finally:
        ffm.path_between_plaquettes = orig


def ser_solve(lat, conv, target, guess, calls):
    toks = ["solve", str(conv), str(lat.n_plaquettes)]
    for p in lat.plaquettes:
        toks.append(str(len(p.edges)))
        for e, d in zip(p.edges, p.directions):
            toks += [str(int(e)), hx(int(d))]
    toks.append(str(lat.n_edges))
    for a, b in lat.edges.adjacent_plaquettes:
        toks += ["N" if a == INVALID else str(int(a)), "N" if b == INVALID else str(int(b))]
    toks.append(str(len(target)))
    toks += [hx(int(x)) for x in target]
    toks.append(str(len(guess)))
    toks += [hx(int(x)) for x in guess]
    toks.append(str(len(calls)))
    for a, b, _, _, _ in calls:
        toks += [str(a), str(b)]
    toks.append(str(len(calls)))
    for a, b, ns, es, _ in calls:
        toks += [str(a), str(b), str(len(ns))] + [str(x) for x in ns] + [str(len(es))] + [str(x) for x in es]
    return " ".join(toks)


def own_wf(lat):
    """Python restatement of fs_wf: every plaquette contains edge e exactly as often as e lists it as a side"""
    cnt = {}
    for q, p in enumerate(lat.plaquettes):
        if not np.all((np.asarray(p.directions) == 1) | (np.asarray(p.directions) == -1)):
            return False
        for e in p.edges:
            if not (0 <= int(e) < lat.n_edges):
                return False
            cnt[(int(e), q)] = cnt.get((int(e), q), 0) + 1
    sides = {}
    for e, (a, b) in enumerate(lat.edges.adjacent_plaquettes):
        for x in (a, b):
            if x != INVALID:
                if not (0 <= int(x) < lat.n_plaquettes):
                    return False
                sides[(e, int(x))] = sides.get((e, int(x)), 0) + 1
    return cnt == sides


def check_wf(ctx, case, lat, label):
    """hypothesis fs_wf of the solver contract, on the implementation's tables (once per lattice)"""
    res = ctx.res
    if not own_wf(lat):
        ctx.k_mismatch(f"{label}: the (plaquettes, adjacent_plaquettes) tables are not well-formed (an edge is not listed on a plaquette as often as the plaquette is a side of it)", {"lattice": case})
        return False
    st = res.extra.setdefault("fs_wf_checked", {"extracted_checker": 0, "python_restatement_only_large": 0})
    if lat.n_plaquettes * lat.n_edges > 150000:      # the extracted checker is O(F*E) on unary nat
        st["python_restatement_only_large"] += 1
        return True
    toks = ["wf", str(lat.n_plaquettes)]
    for p in lat.plaquettes:
        toks.append(str(len(p.edges)))
        for e, d in zip(p.edges, p.directions):
            toks += [str(int(e)), hx(int(d))]
    toks.append(str(lat.n_edges))
    for a, b in lat.edges.adjacent_plaquettes:
        toks += ["N" if a == INVALID else str(int(a)), "N" if b == INVALID else str(int(b))]
    o = run_driver(ctx.exe["c06"], [" ".join(toks)])[0]
    if "error" in o:
        raise RuntimeError(f"c06 driver wf: {' '.join(o['error'])}")
    st["extracted_checker"] += 1
    if getattr(ctx, "xc06", None) is not None and lat.n_vertices <= XCHECK_MAX_V:
        ctx.xc06["wf"].append((lat, o))
    if o["wf"][0] != "1":
        ctx.k_mismatch(f"{label}: fs_wf rejects the implementation's (plaquettes, adjacent_plaquettes) tables", {"lattice": case})
        return False
    return True


def eval_lattice(ctx, case, lat, combos, label):
    res = ctx.res
    lines, metas = [], []
    if not check_wf(ctx, case, lat, label):
        return
    stats = res.extra.setdefault("defect_histogram", {})
    for conv in (0, 1):
        sname = SOLVERS[conv][0]
        for (target, guess) in combos:
            rcase = {"lattice": case, "conv": conv, "target": None if target is None else target.tolist(),
                     "guess": None if guess is None else guess.tolist(),
                     "target_dtype": None if target is None else str(target.dtype)}
            t_eff = np.full(lat.n_plaquettes, -1 if conv == 0 else 1, dtype=np.int8) if target is None else target
            g_eff = np.ones(lat.n_edges, dtype=np.int8) if guess is None else guess
            f0 = own_flux(lat, g_eff, conv)
            D = int(np.count_nonzero(f0 != t_eff))
            fam = f"{case['family']}/{sname}"
            res.count(fam, nontrivial_key=(digest(case), conv, digest([t_eff.tolist(), g_eff.tolist()])) if D >= 2 else None)
            b = "0" if D == 0 else "1" if D == 1 else "2-3" if D <= 3 else "4-10" if D <= 10 else ">10"
            stats[b] = stats.get(b, 0) + 1
            t_arg, g_arg = arg_forms(res, conv, target, guess)
            fp0 = fingerprint(lat, t_arg, g_arg)
            r, calls = call_solver(lat, conv, t_arg, g_arg)
            fp1 = fingerprint(lat, t_arg, g_arg)
            if isinstance(r, Exception):
                res.violation(f"{sname}-raised", f"{sname} raised {type(r).__name__}: {r} (F={lat.n_plaquettes}, plaquettes to change D={D})", rcase)
                continue
            if fp0 != fp1:
                what = "target" if (t_arg is not None and not np.array_equal(t_arg, target)) else "initial guess" if (g_arg is not None and not np.array_equal(g_arg, guess)) else "lattice"
                res.violation(f"{sname}-mutates-argument", f"{sname} modified its {what} argument", rcase)
            bad = []
            if not isinstance(r, np.ndarray) or r.shape != (lat.n_edges,):
                bad.append((f"{sname}-shape", f"result is not an array of shape ({lat.n_edges},): {type(r).__name__} {getattr(r, 'shape', None)}"))
            else:
                if r.dtype != np.int8:
                    bad.append((f"{sname}-dtype", f"result dtype {r.dtype}, expected int8"))
                if not np.all((r == 1) | (r == -1)):
                    bad.append((f"{sname}-values", "result contains values other than +-1"))
                else:
                    f1 = own_flux(lat, r, conv)
                    mism = int(np.count_nonzero(f1 != t_eff))
                    if D % 2 == 0 and mism != 0:
                        bad.append((f"{sname}-target-not-reached", f"{D} plaquettes had to change (even) but the returned bonds miss the target on {mism} plaquette(s)"))
                    if D % 2 == 1 and mism != 1:
                        bad.append((f"{sname}-parity", f"{D} plaquettes had to change (odd): the result must differ from the target on exactly one plaquette, differs on {mism}"))
                    fi = getattr(ffm, SOLVERS[conv][1])(lat, r)
                    if not np.array_equal(np.asarray(fi), f1):
                        bad.append((f"{SOLVERS[conv][1]}-formula", "implementation's flux function disagrees with the product formula on the returned bonds"))
            for key, what in bad:
                res.violation(key, what, rcase)
            if bad:
                continue
            for (a, b_, ns, es, mx) in calls:
                if mx != lat.n_edges:
                    ctx.k_mismatch(f"{label}: path_between_plaquettes called with maxits={mx}, model assumes n_edges={lat.n_edges}", rcase)
            lines.append(ser_solve(lat, conv, t_eff, g_eff, calls))
            metas.append((rcase, r, calls, D))
    outs = run_driver_parallel(ctx.exe["c06"], lines)
    for (rcase, r, calls, D), o in zip(metas, outs):
        if "error" in o:
            raise RuntimeError(f"c06 driver: {' '.join(o['error'])}")
        res.traces += 1
        if getattr(ctx, "xc06", None) is not None and lat.n_vertices <= XCHECK_MAX_V:
            ctx.xc06["solve"].append((lat, rcase, calls, o))
        if o["pairing_ok"][0] != "1":
            ctx.k_mismatch(f"{label}: captured pairing {[(c[0], c[1]) for c in calls]} is not a perfect matching of the defects {o['defects'][1:]} minus the last when odd (fs_pairing_ok)", rcase)
        if any(x != "1" for x in o["paths_ok"][1:]):
            ctx.k_mismatch(f"{label}: a captured plaquette path does not meet the C11 contract (fs_path_ok)", rcase)
        if o["res"][0] != "OK":
            ctx.k_mismatch(f"{label}: model result {o['res'][0]}, implementation returned bonds", rcase)
            continue
        c = Cursor(o["res"][1:])
        mb = c.list(c.z)
        if mb != [int(x) for x in r]:
            nd = sum(1 for x, y in zip(mb, r) if x != int(y))
            ctx.k_mismatch(f"{label}: model bonds differ from the implementation's on {nd} edges", rcase)
        res.sample({"case": rcase["lattice"], "solver": SOLVERS[rcase["conv"]][0], "F": len(o["flux0"]) - 1, "plaquettes_to_change": D,
                    "pairs": [(c_[0], c_[1]) for c_ in calls][:6]})
    # greedy-pairing replay (see check_greedy)
    check_greedy(ctx, label, lat, [(rcase, [int(x) for x in o["defects"][1:]], [(c_[0], c_[1]) for c_ in calls])
                                   for (rcase, r, calls, D), o in zip(metas, outs) if "defects" in o])


# ================================================================== BEGIN greedy-pairing replay (K for C06_solver_contract_greedy)
GREEDY_MAX_F = 1200      # the extracted set operations are O(d^2 * F) on unary nat; beyond this F the replay is skipped and counted


def check_greedy(ctx, label, lat, items):
    """K(greedy): the model greedy_pairing (Model/FluxSolver.v, proved to meet fs_pairing_ok for EVERY admissible oracle pair) run with
    oracles that replay the implementation's own choices (set.pop -> the captured `cur`, float min -> the captured `closest`)
    must return exactly the pairs the implementation produced, in order, and must end normally.
    items: (rcase, defects (the model's argument of the pairing), captured pairs)."""
    st = ctx.res.extra.setdefault("greedy_replay", {"runs_compared": 0, "pairs_compared": 0, "max_defects": 0, "skipped_F_too_large": 0})
    if lat.n_plaquettes > GREEDY_MAX_F:
        st["skipped_F_too_large"] += len(items)
        return
    lines = []
    for _, defects, pairs in items:
        toks = ["greedy", str(len(defects))] + [str(d) for d in defects] + [str(len(pairs))]
        for a, b in pairs:
            toks += [str(a), str(b)]
        lines.append(" ".join(toks))
    outs = run_driver_parallel(ctx.exe["c06"], lines)
    for (rcase, defects, pairs), o in zip(items, outs):
        if "error" in o:
            raise RuntimeError(f"c06 driver greedy: {' '.join(o['error'])}")
        st["runs_compared"] += 1
        st["pairs_compared"] += len(pairs)
        if getattr(ctx, "xc06", None) is not None and lat.n_vertices <= XCHECK_MAX_V:
            ctx.xc06["greedy"].append((defects, pairs, o))
        st["max_defects"] = max(st["max_defects"], len(defects))
        if o["greedy"][0] != "PAIRS":
            ctx.k_mismatch(f"{label}: model greedy pairing replaying the implementation's choices ends with {o['greedy'][0]} on defects {defects}", rcase)
            continue
        flat = [int(x) for x in o["greedy"][2:]]
        mp = [(flat[2 * i], flat[2 * i + 1]) for i in range(len(flat) // 2)]
        if o["greedy_ok"][0] != "1":
            ctx.k_mismatch(f"{label}: model greedy pairing {mp} fails fs_pairing_ok on {defects} (contradicts greedy_pairing_ok: defects not duplicate-free?)", rcase)
        if mp != [(int(a), int(b)) for a, b in pairs]:
            ctx.k_mismatch(f"{label}: the implementation's pairs {pairs} are not a run of the greedy-pairing model on defects {defects}: "
                           f"replaying its own pop/min choices the model yields {mp}", rcase)
# ================================================================== END greedy-pairing replay


# ------------------------------------------------------------------ extraction cross-check (DESIGN 1.3)
XCHECK_MAX_V = 40


def coq_crosscheck(ctx):
    """A small random sample of the c06 driver's answers collected in ctx.xc06 during the K phase (commands solve, wf, greedy on
    lattices with V <= 40, and the whole ansatz table) is re-derived INSIDE Coq by vm_compute on the same literals (the
    implementation's plaquettes / adjacent_plaquettes table, target, guess, captured pairs and paths) and must coincide."""
    import xcheck as X
    xc, ctx.xc06 = ctx.xc06, None
    quick = ctx.tier == "quick"
    rng = np.random.default_rng([ctx.seed, 6, 99])

    def pick(xs, k):
        return [xs[i] for i in sorted(rng.choice(len(xs), size=min(len(xs), k), replace=False).tolist())] if xs else []
    ep_lit = lambda lat: X.lst(X.pair(X.onat, X.onat), [(None if a == INVALID else int(a), None if b == INVALID else int(b))
                                                          for a, b in lat.edges.adjacent_plaquettes])
    plaqs_lit = lambda lat: X.lst(lambda p: X.lst(X.pair(X.nat, X.z), [(int(e), int(d)) for e, d in zip(p.edges, p.directions)]), lat.plaquettes)
    nl, bl = X.natlist, lambda toks: X.lst(lambda t: X.boolean(t == "1"), toks)
    body = [
        # the driver's path oracle: List.assoc_opt (a, b) among the captured paths
        "Definition xpath (paths : list ((nat * nat) * (list nat * list nat))) (a b : nat) : option (list nat * list nat) :=",
        "  option_map snd (find (fun r => (fst (fst r) =? a)%nat && (snd (fst r) =? b)%nat) paths).",
    ]
    g = lambda lhs, rhs: body.append(X.goal(lhs, rhs))
    lats = {}

    def lat_defs(lat):
        if id(lat) not in lats:
            n = lats[id(lat)] = len(lats)
            body.append(f"Definition P{n} : list fs_plaq := {plaqs_lit(lat)}.")
            body.append(f"Definition EP{n} : list (option nat * option nat) := {ep_lit(lat)}.")
        return lats[id(lat)]
    for lat, o in pick(xc["wf"], 4 if quick else 30):
        n = lat_defs(lat)
        g(f"fs_wf P{n} EP{n}", X.boolean(o["wf"][0] == "1"))
    # half of the solver calls from those with at least two captured paths (the path oracle and fs_neg_set are exercised)
    k = 10 if quick else 90
    rich = pick([x for x in xc["solve"] if len(x[2]) >= 2], k // 2)
    for lat, rcase, calls, o in rich + pick([x for x in xc["solve"] if len(x[2]) < 2], k - len(rich)):
        n = lat_defs(lat)
        conv = rcase["conv"]
        t_eff = np.full(lat.n_plaquettes, -1 if conv == 0 else 1, dtype=int) if rcase["target"] is None else np.asarray(rcase["target"], dtype=int)
        g_eff = np.ones(lat.n_edges, dtype=int) if rcase["guess"] is None else np.asarray(rcase["guess"], dtype=int)
        flux = f"({'fs_fluxes_ujk' if conv == 0 else 'fs_fluxes_bonds'} P{n})"
        T, G = X.zlist(t_eff), X.zlist(g_eff)
        pairs = X.lst(X.natpair, [(c[0], c[1]) for c in calls])
        paths = X.lst(lambda c: f"(({X.nat(c[0])}, {X.nat(c[1])}), ({nl(c[2])}, {nl(c[3])}))", calls)
        defects = [int(x) for x in o["defects"][1:]]
        g(f"{flux} {G}", X.zlist([unhx(x) for x in o["flux0"][1:]]))
        g(f"fs_where_neg (snd (fs_flip_adjacent EP{n} 0%nat {G} (fs_map2 Z.div {T} ({flux} {G}))))", nl(defects))
        g(f"fs_pairing_ok {nl(defects)} {pairs}", X.boolean(o["pairing_ok"][0] == "1"))
        g(f"map (fun ab => fs_path_ok EP{n} (fst ab) (snd ab) (xpath {paths} (fst ab) (snd ab))) {pairs}", bl(o["paths_ok"][1:]))
        want = {"LEFTOVER": "FS_LeftoverError", "MISMATCH": "FS_MismatchError", "PATHERR": "FS_PathError"}.get(o["res"][0])
        if want is None:
            c = Cursor(o["res"][1:])
            want = "FS_Ok " + X.zlist(c.list(c.z))
        g(f"fs_solve {flux} EP{n} (fun _ => {pairs}) (xpath {paths}) {T} {G}", want)
    for defects, pairs, o in pick(xc["greedy"], 6 if quick else 60):
        caps = X.lst(X.natpair, pairs)
        if o["greedy"][0] == "PAIRS":
            flat = [int(x) for x in o["greedy"][2:]]
            want = "FG_Pairs " + X.lst(X.natpair, [(flat[2 * i], flat[2 * i + 1]) for i in range(len(flat) // 2)])
        else:
            want = {"MINEMPTY": "FG_MinEmptyError", "FUEL": "FG_OutOfFuel"}[o["greedy"][0]]
        g(f"fs_greedy_run (fs_replay_pick {caps}) (fs_replay_nearest {caps}) {nl(defects)}", want)
        g(f"fs_pairing_ok {nl(defects)} (greedy_pairing (fs_replay_pick {caps}) (fs_replay_nearest {caps}) {nl(defects)})", X.boolean(o["greedy_ok"][0] == "1"))
    if xc["ansatz"] is not None:
        ns, gsa, sr = xc["ansatz"]
        g(f"map ground_state_ansatz {X.zlist(ns)}", X.zlist(gsa))
        g(f"map fs_sign_real {nl(ns)}", X.zlist(sr))
    res = ctx.res
    res.extra["extraction_crosscheck_goals_vm_compute"] = X.compile_goals("c06", "Model.AStar Model.FluxSolver Gen.AnsatzGen", body, "c06")
    res.extra["extraction_crosscheck_pool"] = {k: (len(v) if k != "ansatz" else int(v is not None)) for k, v in xc.items()}
    res.extra["extraction_crosscheck_wall_s"] = X.LAST_WALL


def build_lattice(case):
    arr, why = gen.try_build(case)
    if arr is None:
        return None
    try:
        lat = Lattice(*arr)
        lat.plaquettes
        return lat
    except LatticeException:
        return None


def evaluate(ctx, cases, label, exhaustive_max):
    res = ctx.res
    for ci, case in enumerate(cases):
        lat = build_lattice(case)
        if lat is None:
            res.skip("generator-could-not-build-lattice")
            continue
        if lat.n_plaquettes == 0 or plaq_components(lat) != 1:
            res.skip("plaquette-graph-empty-or-not-connected")
            continue
        rng = np.random.default_rng([ctx.seed, 600 + ci])
        eval_lattice(ctx, case, lat, targets_for(lat, rng, ctx.tier, exhaustive_max, dense=case.get("dense", False)), label)


# ------------------------------------------------------------------ make_amorphous / make_honeycomb
def proper_colouring(lat, col):
    col = np.asarray(col)
    if col.shape != (lat.n_edges,) or not np.all((col >= 0) & (col <= 2)):
        return "colouring is not an array of n_edges values in {0,1,2}"
    for v in range(lat.n_vertices):
        es = np.nonzero((lat.edges.indices[:, 0] == v) | (lat.edges.indices[:, 1] == v))[0]
        cs = col[es].tolist()
        if len(set(cs)) != len(cs):
            return f"vertex {v}: incident edges {es.tolist()} have colours {cs}"
    return None


def eval_amorphous(ctx, tier):
    res = ctx.res
    seeds = [1, 2] if tier == "quick" else list(range(1, 13))
    for L in range(3, 9):
        for obc in (False, True):
            # regression cases first: (3, open, seed 3) and (6, open, seed 14) raised PathFindingError before fix d10d878
            # (the cut lattice's plaquette-adjacency graph was disconnected)
            corpus = [3] if (L == 3 and obc) else [14] if (L == 6 and obc) else []
            for sd in corpus + [x for x in seeds if x not in corpus]:
                if tier == "quick" and L >= 7 and sd > 1:
                    continue
                rcase = {"make_amorphous": {"length": L, "open_boundary_conditions": obc, "seed": sd}}
                res.count(f"make_amorphous/{'open' if obc else 'periodic'}", nontrivial_key=("am", L, obc, sd))
                try:
                    lat, col, ujk = eg.make_amorphous(L, open_boundary_conditions=obc, rng=np.random.default_rng(sd))
                    lat2, col2, ujk2 = eg.make_amorphous(L, open_boundary_conditions=obc, rng=np.random.default_rng(sd))
                except Exception as e:
                    res.violation("make_amorphous-raised", f"make_amorphous({L}, open_boundary_conditions={obc}, rng=default_rng({sd})) raised {type(e).__name__}: {e}", rcase)
                    continue
                same = (np.array_equal(lat.vertices.positions, lat2.vertices.positions) and np.array_equal(lat.edges.indices, lat2.edges.indices)
                        and np.array_equal(lat.edges.crossing, lat2.edges.crossing) and np.array_equal(col, col2) and np.array_equal(ujk, ujk2))
                if not same:
                    res.violation("make_amorphous-not-reproducible", f"make_amorphous({L}, obc={obc}) with the same seeded generator returned different outputs", rcase)
                why = proper_colouring(lat, col)
                if why:
                    res.violation("make_amorphous-colouring", f"make_amorphous({L}, obc={obc}, seed {sd}): not a proper 3-edge-colouring: {why}", rcase)
                ujk = np.asarray(ujk)
                if ujk.shape != (lat.n_edges,) or not np.all((ujk == 1) | (ujk == -1)):
                    res.violation("make_amorphous-bonds", "ujk is not a +-1 array over the edges", rcase)
                    continue
                want = np.array([eg.ground_state_ansatz(len(p.edges)) for p in lat.plaquettes])
                mism = int(np.count_nonzero(own_flux(lat, ujk, 1) != want))
                D = int(np.count_nonzero(own_flux(lat, np.ones(lat.n_edges, dtype=int), 1) != want))
                if (not obc and mism != 0) or (obc and (mism > 1 or mism != D % 2)):
                    res.violation("make_amorphous-ansatz", f"make_amorphous({L}, obc={obc}, seed {sd}): bonds miss the ground-state ansatz on {mism} plaquette(s) ({D} had to change)", rcase)
    try:
        for L in (1, 2, 3, 5):
            lat, col, ujk = eg.make_honeycomb(L)
            res.count("make_honeycomb")
            why = proper_colouring(lat, col)
            if why or not np.all(np.asarray(ujk) == 1) or len(ujk) != lat.n_edges:
                res.violation("make_honeycomb", f"make_honeycomb({L}): {why or 'ujk is not all +1'}", {"make_honeycomb": L})
    except Exception as e:
        res.violation("make_honeycomb-raised", f"{type(e).__name__}: {e}", {"make_honeycomb": None})


def eval_ansatz_table(ctx):
    """translator validation + the table on the implementation: generated Gallina vs the Python function"""
    ns = list(range(3, 401))
    o = run_driver(ctx.exe["c06"], ["ansatz " + str(len(ns)) + " " + " ".join(map(str, ns))])[0]
    if "error" in o:
        raise RuntimeError(" ".join(o["error"]))
    gsa = [unhx(x) for x in o["gsa"][1:]]
    sr = [unhx(x) for x in o["sr"][1:]]
    if getattr(ctx, "xc06", None) is not None:
        ctx.xc06["ansatz"] = (ns, gsa, sr)
    table = [1, -1, -1, 1]
    for n, g, s in zip(ns, gsa, sr):
        ctx.res.traces += 1
        py = eg.ground_state_ansatz(n)
        if int(py) != g:
            ctx.k_mismatch(f"translator: generated ground_state_ansatz({n}) = {g}, Python returns {py}", {"ansatz_n": n})
        if s != table[n % 4]:
            ctx.k_mismatch(f"model sign_real({n}) = {s} != table", {"ansatz_n": n})
        if table[n % 4] * int(py) != -1:
            ctx.res.violation("ansatz-table", f"sign_real[{n} % 4] * ground_state_ansatz({n}) = {table[n % 4] * int(py)}, expected -1", {"ansatz_n": n})


# ------------------------------------------------------------------ entry points
def run(ctx):
    quick = ctx.tier == "quick"
    ctx.res.rule = ("lattices: tilings (size >= 2), periodic Voronoi (9..200 seeds quick / ..400 thorough, 4 point styles, both shift settings), their x/y/xy cuts, example graphs; "
                    "only lattices whose plaquette-adjacency graph is connected; per lattice x {ujk_from_fluxes, find_flux_sector}: default arguments, all 2^F targets when F <= "
                    f"{9 if quick else 10} (alternating default / random guess), else random sparse/dense targets (int8 and int64) with random guesses; "
                    "make_amorphous L=3..8 both boundary conditions, 2 (quick) / 12 seeds + the two recorded failing seeds; non-trivial = at least 2 plaquettes have to change")
    ctx.xc06 = {"wf": [], "solve": [], "greedy": [], "ansatz": None}     # driver answers on small lattices, for the extraction cross-check
    eval_ansatz_table(ctx)
    evaluate(ctx, c06_lattice_cases(ctx.tier, ctx.seed), "K(solver)", 9 if quick else 10)
    coq_crosscheck(ctx)      # extraction cross-check: a sample of the driver's answers re-derived inside Coq
    eval_amorphous(ctx, ctx.tier)


def search(ctx):
    eval_ansatz_table(ctx)
    evaluate(ctx, c06_lattice_cases(ctx.tier, ctx.seed + 1), "search", 9 if ctx.tier == "quick" else 10)
    eval_amorphous(ctx, ctx.tier)


def replay(ctx, payload):
    case = payload["case"]
    if "make_amorphous" in case or "make_honeycomb" in case:
        eval_amorphous(ctx, "quick")
        return
    if "ansatz_n" in case:
        eval_ansatz_table(ctx)
        return
    lat = build_lattice(case["lattice"])
    t = None if case["target"] is None else np.array(case["target"], dtype=case.get("target_dtype") or "int8")
    g = None if case["guess"] is None else np.array(case["guess"], dtype=np.int8)
    eval_lattice(ctx, case["lattice"], lat, [(t, g)], "replay")
