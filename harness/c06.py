"""C06 — the flux-sector solver reaches every target sector up to the parity obstruction.

S  on the implementation (restated independently here): result is an int8 array of +-1 of length n_edges; with
   D = #{p : flux(guess)_p != target_p} computed with the harness' own flux formula: D even -> flux(result) == target,
   D odd -> exactly one plaquette differs; no exception; arguments (lattice tables, target, guess) unchanged (fingerprints);
   the same for the deprecated pair find_flux_sector / fluxes_from_bonds; make_amorphous: proper 3-edge-colouring,
   ansatz realised (exactly on periodic, up to one plaquette on open lattices), same seed => identical outputs.
K  extracted model fs_solve (Model/FluxSolver.v) fed with the implementation's own pairing and paths (captured from its calls of
   path_between_plaquettes, a public function) reproduces the returned bonds exactly; the proved contract checkers fs_wf,
   fs_pairing_ok, fs_path_ok (hypotheses of C06_solver_contract) are evaluated on the implementation's tables / captured values;
   the generated ground_state_ansatz and sign table are compared with the Python functions on n = 3..400."""
from lib import *  # noqa
import gen
import argforms as AF
from koala.lattice import Lattice, LatticeException
import koala.flux_finder.flux_finder as ffm
from koala.flux_finder import pathfinding as pf
from koala import example_graphs as eg

DRIVERS = ("c06",)
TRANSLATORS = ("ansatz",)
MODEL_TARGETS = ["Model/AStar.vo", "Model/FluxSolver.vo", "Model/FluxSolverLattice.vo", "Gen/AnsatzGen.vo"]
TARGETS = ["Proofs/AStarFacts.vo", "Proofs/AStarOptimal.vo", "Proofs/AStarBudget.vo", "Proofs/ChainFlipFacts.vo", "Proofs/FluxSolverFacts.vo", "Proofs/AnsatzFacts.vo", "Proofs/GreedyPairingFacts.vo",
           "Proofs/FluxSolverLatticeFacts.vo", "Proofs/FluxSolverOpen.vo", "Proofs/FluxSolverLatticeExamples.vo"]
LEVEL = "proof"
TRUST = [
    "hand-written Gallina model coq/Model/FluxSolver.v of flux_finder.py (fluxes_from_ujk, fluxes_from_bonds, _flip_adjacent_fluxes, _flip_isolated_fluxes, "
    "ujk_from_fluxes / find_flux_sector incl. both self-checks): modelled, not verified; tied by the correspondence run (bonds reproduced exactly)",
    "the greedy pairing is modelled as coded with its two implementation-defined choices (set.pop order, float min) as oracles constrained only to return a member, and PROVED to meet the pairing contract for every such pair (C06_solver_contract_greedy); "
    "the A* search: at tables level an oracle whose contract (valid simple plaquette chain between the pair) is a hypothesis, evaluated by the proved boolean checker on the paths captured from the implementation on every solver call; "
    "END TO END (C06_lattice_solver_contract, Model/FluxSolverLattice.v) it is the A* MODEL on the adjacency lists of the model of graph_utils.adjacent_plaquettes, proved complete with budget n_edges on the lattice model "
    "(C06_lattice_astar_complete, C06_lattice_astar_finds_iff_exists); tie to the code: the e2e correspondence run (model paths and bonds = implementation's, near-ties of the float cost excepted and counted)",
    "well-formedness fs_wf of (plaquettes, edges.adjacent_plaquettes): PROVED for the tables of the lattice model (C06_lattice_tables_wf, from C01/C02's theorems); additionally evaluated on the implementation's tables on every lattice",
    "cost function h (float distances between plaquette centres): hypothesis fsl_cost_ok (non-negative, positive between distinct neighbours, triangle inequality along listed edges) - true of the exact Euclidean metric, "
    "evaluated exactly on the implementation's float values in every e2e run (violations by rounding on collinear centres are counted in coverage.end_to_end, not proved impossible)",
    "fs_complete_open (the witness of C06_open_all_sectors_reachable) is NOT koala code: it exists only in the model; its output is checked on every open lattice of the e2e run with the harness' own flux formula",
    "translator translate/ansatz.py (Python int //, %, ** -> Z.div, Z.modulo, Z.pow): trusted, validated on n = 3..400 against the Python function on every run",
    "make_amorphous: Voronoi construction (Qhull), SAT colouring (glucose) and numpy RNG are outside the model; only the outputs are checked (S)",
    "non-mutation of arguments and the int8 dtype are observed on the implementation (fingerprints), not proved (the model is functional)",
]
ASSUMPTIONS = ["plaquette-adjacency graph connected (property quantifier); target and guess in {-1,+1}"]


# ------------------------------------------------------------------ independent restatements
def own_flux(lat, u, conv):
    out = np.zeros(lat.n_plaquettes, dtype=int)
    sign_real = [1, -1, -1, 1]
    for i, p in enumerate(lat.plaquettes):
        x = 1
        for e, d in zip(p.edges, p.directions):
            x *= (-int(u[e]) * int(d)) if conv == 0 else (int(u[e]) * int(d))
        out[i] = x if conv == 0 else sign_real[len(p.edges) % 4] * x
    return out


def plaq_components(lat):
    n = lat.n_plaquettes
    parent = list(range(n))

    def find(x):
        while parent[x] != x:
            parent[x] = parent[parent[x]]
            x = parent[x]
        return x
    for a, b in lat.edges.adjacent_plaquettes:
        if a != INVALID and b != INVALID:
            parent[find(int(a))] = find(int(b))
    return len({find(x) for x in range(n)})


def fingerprint(lat, target, guess):
    h = hashlib.sha1()
    for a in (lat.vertices.positions, lat.edges.indices, lat.edges.crossing, lat.edges.adjacent_plaquettes):
        a = np.asarray(a)
        h.update(str(a.dtype).encode() + str(a.shape).encode() + a.tobytes())
    for p in lat.plaquettes:
        h.update(np.asarray(p.edges).tobytes() + np.asarray(p.directions).tobytes() + np.asarray(p.center).tobytes())
    for a in (target, guess):
        if a is None:
            h.update(b"None")
        else:
            h.update(str(a.dtype).encode() + str(a.shape).encode() + a.tobytes())
    return h.hexdigest()


# ------------------------------------------------------------------ cases
def c06_lattice_cases(tier, seed):
    rng = np.random.default_rng([seed, 6])
    cases = []
    tilings = [("honeycomb_lattice", [2]), ("honeycomb_lattice", [3]), ("square_lattice", [2, 2]), ("square_lattice", [3, 4]),
               ("hex_square_oct_lattice", [2]), ("tri_non_lattice", [2]), ("honeycomb_lattice", [6]), ("square_lattice", [2, 5])]
    if tier != "quick":
        tilings += [("honeycomb_lattice", [10]), ("square_lattice", [9, 9]), ("hex_square_oct_lattice", [4]), ("tri_non_lattice", [4]),
                    ("honeycomb_lattice", [4]), ("square_lattice", [4, 7]), ("hex_square_oct_lattice", [3]), ("tri_non_lattice", [3])]
    for name, args in tilings:
        cases.append({"family": "example", "name": name, "args": args})
    nv = 20 if tier == "quick" else 120
    nmax = 200 if tier == "quick" else 400
    for i in range(nv):
        style = gen.POINT_STYLES[i % 4]
        n = int(rng.integers(9, 12)) if i % 3 == 0 else int(rng.integers(12, 60)) if i % 3 == 1 else int(rng.integers(60, nmax + 1))
        cases.append({"family": "voronoi", "style": style, "n": n, "seed": int(rng.integers(0, 2**31)), "shift": bool(i % 2)})
    bases = list(cases)
    for i, b in enumerate(bases):
        cut = [[True, True], [True, False], [False, True]][i % 3]
        cases.append({"family": "cut", "base": b, "cut": cut})
    for name in ["two_triangles", "tri_square_pent", "tutte_graph", "bridge_graph"]:
        cases.append({"family": "example", "name": name})
    # large open / strip cuts with dense targets: many greedy paths, several of them through the same bond
    # (a bond on three paths must be flipped three times = once; batching slips only show there)
    for i in range(6 if tier == "quick" else 30):
        b = {"family": "voronoi", "style": gen.POINT_STYLES[i % 4], "n": int(rng.integers(150, 260)),
             "seed": int(rng.integers(0, 2**31)), "shift": bool(i % 2)}
        cases.append({"family": "cut", "base": b, "cut": [[True, True], [True, False], [False, True]][i % 3], "dense": True})
    return cases


def targets_for(lat, rng, tier, exhaustive_max, dense=False):
    """list of (target or None, guess or None)"""
    F, E = lat.n_plaquettes, lat.n_edges
    out = [(None, None)]                       # default arguments
    def rnd_guess():
        return (1 - 2 * rng.integers(0, 2, size=E)).astype(np.int8)
    if F <= exhaustive_max:
        g = rnd_guess()
        for mask in range(1 << F):
            t = np.array([1 - 2 * ((mask >> i) & 1) for i in range(F)], dtype=np.int8)
            out.append((t, None if mask % 2 else g))
    else:
        k = (6 if tier == "quick" else 24) if not dense else 12
        for j in range(k):
            dens = [0.03, 0.1, 0.5, 0.9, 0.97, 0.5][j % 6] if not dense else [0.5, 0.4, 0.6][j % 3]
            t = np.where(rng.uniform(size=F) < dens, -1, 1).astype(np.int8 if j % 2 == 0 else np.int64)
            out.append((t, rnd_guess() if j % 3 else None))
    return out


# ------------------------------------------------------------------ argument forms (argforms.py)
# target sector / initial guess: +-1 arrays whose dtype and memory layout are not part of their value (the solver's result, int8
# bonds, must be the same).  The harness' own flux formula and the model always receive the plain values.
TG_FORMS = ["int8", "int16", "int32", "int64", "float64", "float32", "int8+readonly", "int64+readonly", "float64+readonly",
            "int8+strided", "int64+strided", "float64+strided"]
TG_EXCLUDED = {"target/guess:list": "type hints say np.ndarray; a list guess raises TypeError in ujk[p.edges] (a list target happens to work via list.copy() and broadcasting)",
               "target/guess:tuple": "type hints say np.ndarray; tuple has no .copy() (AttributeError)"}


def arg_forms(res, conv, target, guess):
    """(target, guess) as handed to the solver; None (default argument) stays None.  Form chosen from the values."""
    out = []
    for name, a, other in (("target_flux_sector", target, guess), ("initial_guess", guess, target)):
        if a is None:
            AF.note(res, name, "None(default)")
            out.append(None)
            continue
        form = AF.pick(TG_FORMS, name, conv, np.asarray(a, dtype=np.int64), None if other is None else np.asarray(other, dtype=np.int64))
        AF.note(res, name, form)
        out.append(AF.as_form(a, form, base=np.int64))
    for k, why in TG_EXCLUDED.items():
        AF.exclude(res, "ujk_from_fluxes/find_flux_sector", k, why)
    return out


# ------------------------------------------------------------------ one solver call
SOLVERS = {0: ("ujk_from_fluxes", "fluxes_from_ujk"), 1: ("find_flux_sector", "fluxes_from_bonds")}


def call_solver(lat, conv, target, guess):
    """returns (result or exception, captured path calls)"""
    calls = []
    orig = getattr(ffm, "path_between_plaquettes", None)
    if orig is None:
        # the solver module no longer routes its path searches through flux_finder.path_between_plaquettes: the pairing and
        # the paths cannot be observed (K impossible); the property itself (S) is still decided on the returned bonds
        f = getattr(ffm, SOLVERS[conv][0])
        try:
            return f(lat, target, guess), None
        except Exception as e:
            return e, None

    def wrapper(l, a, b, *args, **kw):
        r = orig(l, a, b, *args, **kw)
        calls.append((int(a), int(b), [int(x) for x in r[0]], [int(x) for x in r[1]], kw.get("maxits")))
        return r
    ffm.path_between_plaquettes = wrapper
    try:
        f = getattr(ffm, SOLVERS[conv][0])
        # how an argument is passed (by position or by keyword) is not part of its value: alternate deterministically
        kwnames = {0: ("target_flux_sector", "initial_ujk_guess"), 1: ("target_flux_sector", "initial_bond_guess")}[conv]
        style = (0 if target is None else int(np.asarray(target).astype(int).sum()) + len(np.asarray(target))) % 3
        try:
            if style == 0:
                return f(lat, target, guess), calls
            if style == 1:
                return f(lat, **{kwnames[0]: target, kwnames[1]: guess}), calls
            return f(lat, target, **{kwnames[1]: guess}), calls
        except Exception as e:
            return e, calls
    finally:
        ffm.path_between_plaquettes = orig


def ser_solve(lat, conv, target, guess, calls):
    toks = ["solve", str(conv), str(lat.n_plaquettes)]
    for p in lat.plaquettes:
        toks.append(str(len(p.edges)))
        for e, d in zip(p.edges, p.directions):
            toks += [str(int(e)), hx(int(d))]
    toks.append(str(lat.n_edges))
    for a, b in lat.edges.adjacent_plaquettes:
        toks += ["N" if a == INVALID else str(int(a)), "N" if b == INVALID else str(int(b))]
    toks.append(str(len(target)))
    toks += [hx(int(x)) for x in target]
    toks.append(str(len(guess)))
    toks += [hx(int(x)) for x in guess]
    toks.append(str(len(calls)))
    for a, b, _, _, _ in calls:
        toks += [str(a), str(b)]
    toks.append(str(len(calls)))
    for a, b, ns, es, _ in calls:
        toks += [str(a), str(b), str(len(ns))] + [str(x) for x in ns] + [str(len(es))] + [str(x) for x in es]
    return " ".join(toks)


def own_wf(lat):
    """Python restatement of fs_wf: every plaquette contains edge e exactly as often as e lists it as a side"""
    cnt = {}
    for q, p in enumerate(lat.plaquettes):
        if not np.all((np.asarray(p.directions) == 1) | (np.asarray(p.directions) == -1)):
            return False
        for e in p.edges:
            if not (0 <= int(e) < lat.n_edges):
                return False
            cnt[(int(e), q)] = cnt.get((int(e), q), 0) + 1
    sides = {}
    for e, (a, b) in enumerate(lat.edges.adjacent_plaquettes):
        for x in (a, b):
            if x != INVALID:
                if not (0 <= int(x) < lat.n_plaquettes):
                    return False
                sides[(e, int(x))] = sides.get((e, int(x)), 0) + 1
    return cnt == sides


def check_wf(ctx, case, lat, label):
    """hypothesis fs_wf of the solver contract, on the implementation's tables (once per lattice)"""
    res = ctx.res
    if not own_wf(lat):
        ctx.k_mismatch(f"{label}: the (plaquettes, adjacent_plaquettes) tables are not well-formed (an edge is not listed on a plaquette as often as the plaquette is a side of it)", {"lattice": case})
        return False
    st = res.extra.setdefault("fs_wf_checked", {"extracted_checker": 0, "python_restatement_only_large": 0})
    if lat.n_plaquettes * lat.n_edges > 150000:      # the extracted checker is O(F*E) on unary nat
        st["python_restatement_only_large"] += 1
        return True
    toks = ["wf", str(lat.n_plaquettes)]
    for p in lat.plaquettes:
        toks.append(str(len(p.edges)))
        for e, d in zip(p.edges, p.directions):
            toks += [str(int(e)), hx(int(d))]
    toks.append(str(lat.n_edges))
    for a, b in lat.edges.adjacent_plaquettes:
        toks += ["N" if a == INVALID else str(int(a)), "N" if b == INVALID else str(int(b))]
    o = run_driver(ctx.exe["c06"], [" ".join(toks)])[0]
    if "error" in o:
        raise RuntimeError(f"c06 driver wf: {' '.join(o['error'])}")
    st["extracted_checker"] += 1
    if getattr(ctx, "xc06", None) is not None and lat.n_vertices <= XCHECK_MAX_V:
        ctx.xc06["wf"].append((lat, o))
    if o["wf"][0] != "1":
        ctx.k_mismatch(f"{label}: fs_wf rejects the implementation's (plaquettes, adjacent_plaquettes) tables", {"lattice": case})
        return False
    return True


def eval_lattice(ctx, case, lat, combos, label):
    res = ctx.res
    lines, metas = [], []
    if not check_wf(ctx, case, lat, label):
        return
    stats = res.extra.setdefault("defect_histogram", {})
    for conv in (0, 1):
        sname = SOLVERS[conv][0]
        for (target, guess) in combos:
            rcase = {"lattice": case, "conv": conv, "target": None if target is None else target.tolist(),
                     "guess": None if guess is None else guess.tolist(),
                     "target_dtype": None if target is None else str(target.dtype)}
            t_eff = np.full(lat.n_plaquettes, -1 if conv == 0 else 1, dtype=np.int8) if target is None else target
            g_eff = np.ones(lat.n_edges, dtype=np.int8) if guess is None else guess
            f0 = own_flux(lat, g_eff, conv)
            D = int(np.count_nonzero(f0 != t_eff))
            fam = f"{case['family']}/{sname}"
            res.count(fam, nontrivial_key=(digest(case), conv, digest([t_eff.tolist(), g_eff.tolist()])) if D >= 2 else None)
            b = "0" if D == 0 else "1" if D == 1 else "2-3" if D <= 3 else "4-10" if D <= 10 else ">10"
            stats[b] = stats.get(b, 0) + 1
            t_arg, g_arg = arg_forms(res, conv, target, guess)
            fp0 = fingerprint(lat, t_arg, g_arg)
            r, calls = call_solver(lat, conv, t_arg, g_arg)
            fp1 = fingerprint(lat, t_arg, g_arg)
            if isinstance(r, Exception):
                res.violation(f"{sname}-raised", f"{sname} raised {type(r).__name__}: {r} (F={lat.n_plaquettes}, plaquettes to change D={D})", rcase)
                continue
            if fp0 != fp1:
                what = "target" if (t_arg is not None and not np.array_equal(t_arg, target)) else "initial guess" if (g_arg is not None and not np.array_equal(g_arg, guess)) else "lattice"
                res.violation(f"{sname}-mutates-argument", f"{sname} modified its {what} argument", rcase)
            bad = []
            if not isinstance(r, np.ndarray) or r.shape != (lat.n_edges,):
                bad.append((f"{sname}-shape", f"result is not an array of shape ({lat.n_edges},): {type(r).__name__} {getattr(r, 'shape', None)}"))
            else:
                if r.dtype != np.int8:
                    bad.append((f"{sname}-dtype", f"result dtype {r.dtype}, expected int8"))
                if not np.all((r == 1) | (r == -1)):
                    bad.append((f"{sname}-values", "result contains values other than +-1"))
                else:
                    f1 = own_flux(lat, r, conv)
                    mism = int(np.count_nonzero(f1 != t_eff))
                    if D % 2 == 0 and mism != 0:
                        bad.append((f"{sname}-target-not-reached", f"{D} plaquettes had to change (even) but the returned bonds miss the target on {mism} plaquette(s)"))
                    if D % 2 == 1 and mism != 1:
                        bad.append((f"{sname}-parity", f"{D} plaquettes had to change (odd): the result must differ from the target on exactly one plaquette, differs on {mism}"))
                    fi = getattr(ffm, SOLVERS[conv][1])(lat, r)
                    if not np.array_equal(np.asarray(fi), f1):
                        bad.append((f"{SOLVERS[conv][1]}-formula", "implementation's flux function disagrees with the product formula on the returned bonds"))
            for key, what in bad:
                res.violation(key, what, rcase)
            if bad:
                continue
            if calls is None:
                if not getattr(ctx, "_c06_unobservable_reported", False):
                    ctx._c06_unobservable_reported = True
                    ctx.k_mismatch(f"{label}: flux_finder has no attribute path_between_plaquettes any more: pairing and paths of the solver are not observable, "
                                   f"the correspondence with the modelled algorithm cannot be run (the spec check on the returned bonds still runs)", rcase)
                res.skip("K-not-run:path-calls-not-observable")
                continue
            for (a, b_, ns, es, mx) in calls:
                if mx != lat.n_edges:
                    ctx.k_mismatch(f"{label}: path_between_plaquettes called with maxits={mx}, model assumes n_edges={lat.n_edges}", rcase)
            lines.append(ser_solve(lat, conv, t_eff, g_eff, calls))
            metas.append((rcase, r, calls, D))
    outs = run_driver_parallel(ctx.exe["c06"], lines)
    for (rcase, r, calls, D), o in zip(metas, outs):
        if "error" in o:
            raise RuntimeError(f"c06 driver: {' '.join(o['error'])}")
        res.traces += 1
        if getattr(ctx, "xc06", None) is not None and lat.n_vertices <= XCHECK_MAX_V:
            ctx.xc06["solve"].append((lat, rcase, calls, o))
        if o["pairing_ok"][0] != "1":
            ctx.k_mismatch(f"{label}: captured pairing {[(c[0], c[1]) for c in calls]} is not a perfect matching of the defects {o['defects'][1:]} minus the last when odd (fs_pairing_ok)", rcase)
        if any(x != "1" for x in o["paths_ok"][1:]):
            ctx.k_mismatch(f"{label}: a captured plaquette path does not meet the C11 contract (fs_path_ok)", rcase)
        if o["res"][0] != "OK":
            ctx.k_mismatch(f"{label}: model result {o['res'][0]}, implementation returned bonds", rcase)
            continue
        c = Cursor(o["res"][1:])
        mb = c.list(c.z)
        if mb != [int(x) for x in r]:
            nd = sum(1 for x, y in zip(mb, r) if x != int(y))
            ctx.k_mismatch(f"{label}: model bonds differ from the implementation's on {nd} edges", rcase)
        res.sample({"case": rcase["lattice"], "solver": SOLVERS[rcase["conv"]][0], "F": len(o["flux0"]) - 1, "plaquettes_to_change": D,
                    "pairs": [(c_[0], c_[1]) for c_ in calls][:6]})
    # greedy-pairing replay (see check_greedy)
    check_greedy(ctx, label, lat, [(rcase, [int(x) for x in o["defects"][1:]], [(c_[0], c_[1]) for c_ in calls])
                                   for (rcase, r, calls, D), o in zip(metas, outs) if "defects" in o])
    # end-to-end run: paths by the A* MODEL, adjacency lists by the model, pairing replayed (see check_e2e)
    check_e2e(ctx, label, lat, [(rcase, r, calls, D) for (rcase, r, calls, D), o in zip(metas, outs) if o.get("res", ["?"])[0] == "OK"])


# ================================================================== BEGIN greedy-pairing replay (K for C06_solver_contract_greedy)
GREEDY_MAX_F = 1200      # the extracted set operations are O(d^2 * F) on unary nat; beyond this F the replay is skipped and counted


def check_greedy(ctx, label, lat, items):
    """K(greedy): the model greedy_pairing (Model/FluxSolver.v, proved to meet fs_pairing_ok for EVERY admissible oracle pair) run with
    oracles that replay the implementation's own choices (set.pop -> the captured `cur`, float min -> the captured `closest`)
    must return exactly the pairs the implementation produced, in order, and must end normally.
    items: (rcase, defects (the model's argument of the pairing), captured pairs)."""
    st = ctx.res.extra.setdefault("greedy_replay", {"runs_compared": 0, "pairs_compared": 0, "max_defects": 0, "skipped_F_too_large": 0})
    if lat.n_plaquettes > GREEDY_MAX_F:
        st["skipped_F_too_large"] += len(items)
        return
    lines = []
    for _, defects, pairs in items:
        toks = ["greedy", str(len(defects))] + [str(d) for d in defects] + [str(len(pairs))]
        for a, b in pairs:
            toks += [str(a), str(b)]
        lines.append(" ".join(toks))
    outs = run_driver_parallel(ctx.exe["c06"], lines)
    for (rcase, defects, pairs), o in zip(items, outs):
        if "error" in o:
            raise RuntimeError(f"c06 driver greedy: {' '.join(o['error'])}")
        st["runs_compared"] += 1
        st["pairs_compared"] += len(pairs)
        if getattr(ctx, "xc06", None) is not None and lat.n_vertices <= XCHECK_MAX_V:
            ctx.xc06["greedy"].append((defects, pairs, o))
        st["max_defects"] = max(st["max_defects"], len(defects))
        if o["greedy"][0] != "PAIRS":
            ctx.k_mismatch(f"{label}: model greedy pairing replaying the implementation's choices ends with {o['greedy'][0]} on defects {defects}", rcase)
            continue
        flat = [int(x) for x in o["greedy"][2:]]
        mp = [(flat[2 * i], flat[2 * i + 1]) for i in range(len(flat) // 2)]
        if o["greedy_ok"][0] != "1":
            ctx.k_mismatch(f"{label}: model greedy pairing {mp} fails fs_pairing_ok on {defects} (contradicts greedy_pairing_ok: defects not duplicate-free?)", rcase)
        if mp != [(int(a), int(b)) for a, b in pairs]:
            ctx.k_mismatch(f"{label}: the implementation's pairs {pairs} are not a run of the greedy-pairing model on defects {defects}: "
                           f"replaying its own pop/min choices the model yields {mp}", rcase)
# ================================================================== END greedy-pairing replay


# ================================================================== BEGIN end-to-end run (K for C06_lattice_solver_contract, C06_open_completion)
E2E_MAX_F = 130          # the A* model runs on unary nat with a list priority queue
E2E_MAX_PAIRS = 10
E2E_PER_LATTICE = 10
E2E_MARGIN = 1e-9        # as C11: whole paths / bonds are compared only when every comparison the A* model branched on is separated by more


def e2e_hvals(lat, goals):
    """the floats the implementation's cost function returns (straight_line_length of plaquette centres), for every (plaquette, listed
    neighbour) and every (plaquette, goal): exactly the arguments the A* of path_between_plaquettes evaluates it on"""
    F = lat.n_plaquettes
    cen = [np.asarray(p.center, dtype=float) for p in lat.plaquettes]
    need = set()
    for a, b in lat.edges.adjacent_plaquettes:
        if a != INVALID and b != INVALID:
            need.add((int(a), int(b)))
            need.add((int(b), int(a)))
    for a in range(F):
        for g in goals:
            need.add((a, g))
    return {(a, b): float(pf.straight_line_length(cen[a], cen[b])) for (a, b) in need}


def e2e_adj_pairs(lat):
    """ordered pairs (x, y) of plaquettes sharing a two-sided edge"""
    sset = set()
    for a, b in lat.edges.adjacent_plaquettes:
        if a != INVALID and b != INVALID:
            sset.add((int(a), int(b)))
            sset.add((int(b), int(a)))
    return sset


def check_e2e(ctx, label, lat, items):
    """K(end to end): the solver model with the paths COMPUTED by the A* model on the adjacency lists COMPUTED by the model of
    graph_utils.adjacent_plaquettes from the implementation's (plaquettes, edges.adjacent_plaquettes) tables, budget n_edges, early stopping,
    cost = the implementation's float centre distances (exact dyadics); only the greedy choices are replayed.  Compared with the
    implementation: every path (when no comparison of the search is a near-tie), the returned bonds, fs_connected_b against the harness'
    union-find; on lattices with a boundary: fs_complete_open applied to the model's result realises the target EXACTLY (own flux formula)."""
    st = ctx.res.extra.setdefault("end_to_end", {"runs": 0, "bonds_compared_exactly": 0, "paths_compared_exactly": 0, "near_tie_runs_validity_only": 0,
                                                 "open_completions_checked": 0, "open_completions_odd": 0, "skipped_F_too_large": 0,
                                                 "skipped_degenerate_centres": 0, "skipped_beyond_per_lattice_budget": 0,
                                                 "cost_hypothesis_runs_exact": 0, "cost_hypothesis_runs_violated_by_rounding": 0,
                                                 "cost_hypothesis_max_rel_violation": 0.0})
    if lat.n_plaquettes > E2E_MAX_F:
        st["skipped_F_too_large"] += len(items)
        return
    # prefer calls that need paths; keep a few trivial ones
    items = [it for it in items if len(it[2]) <= E2E_MAX_PAIRS]
    rich = [it for it in items if len(it[2]) >= 1]
    poor = [it for it in items if len(it[2]) == 0]
    chosen = rich[:E2E_PER_LATTICE - 2] + poor[:2]
    st["skipped_beyond_per_lattice_budget"] += len(items) - len(chosen)
    lines, metas = [], []
    adjp = e2e_adj_pairs(lat)
    for rcase, r, calls, D in chosen:
        conv = rcase["conv"]
        t_eff = np.full(lat.n_plaquettes, -1 if conv == 0 else 1, dtype=int) if rcase["target"] is None else np.asarray(rcase["target"], dtype=int)
        g_eff = np.ones(lat.n_edges, dtype=int) if rcase["guess"] is None else np.asarray(rcase["guess"], dtype=int)
        goals = {c[1] for c in calls}
        for a, b in lat.edges.adjacent_plaquettes:      # the boundary plaquette fs_complete_open routes to (first one-sided edge)
            if (a == INVALID) != (b == INVALID):
                goals.add(int(b if a == INVALID else a))
                break
        hval = e2e_hvals(lat, sorted(goals))
        if any(v <= 0 for (a, b), v in hval.items() if a != b):
            st["skipped_degenerate_centres"] += 1
            continue
        S = common_scale(list(hval.values()))
        # hypothesis fsl_cost_ok of C06_lattice_solver_contract, evaluated EXACTLY on the float values the implementation's cost function
        # returns: consistency h(x,g) <= h(x,y) + h(y,g) along every listed edge, towards every goal of this call (positivity was checked
        # above).  Float rounding may break it by an ulp where centres are collinear (regular tilings): counted, not an alarm.
        hi = {k: int(Fraction(v) * S) for k, v in hval.items()}
        gl = sorted(goals)
        viol, worst = 0, 0.0
        for (x, y) in adjp:
            for g_ in gl:
                d = hi[(x, g_)] - hi[(x, y)] - hi[(y, g_)]
                if d > 0:
                    viol += 1
                    worst = max(worst, d / S / max(hval[(x, g_)], 1e-300))
        st["cost_hypothesis_runs_exact" if viol == 0 else "cost_hypothesis_runs_violated_by_rounding"] += 1
        st["cost_hypothesis_max_rel_violation"] = max(st["cost_hypothesis_max_rel_violation"], worst)
        toks = ["e2e", str(conv), str(lat.n_plaquettes)]
        for p in lat.plaquettes:
            toks.append(str(len(p.edges)))
            for e, d in zip(p.edges, p.directions):
                toks += [str(int(e)), hx(int(d))]
        toks.append(str(lat.n_edges))
        for a, b in lat.edges.adjacent_plaquettes:
            toks += ["N" if a == INVALID else str(int(a)), "N" if b == INVALID else str(int(b))]
        toks.append(str(len(t_eff)))
        toks += [hx(int(x)) for x in t_eff]
        toks.append(str(len(g_eff)))
        toks += [hx(int(x)) for x in g_eff]
        toks.append(str(len(calls)))
        for c in calls:
            toks += [str(c[0]), str(c[1])]
        toks.append(str(len(hval)))
        for (a, b), v in hval.items():
            toks += [str(a), str(b), hx(int(Fraction(v) * S))]
        lines.append(" ".join(toks))
        metas.append((rcase, r, calls, D, t_eff, g_eff, hval, S))
    outs = run_driver_parallel(ctx.exe["c06"], lines)
    for (rcase, r, calls, D, t_eff, g_eff, hval, S), o in zip(metas, outs):
        if "error" in o:
            raise RuntimeError(f"c06 driver e2e: {' '.join(o['error'])}")
        st["runs"] += 1
        ctx.res.traces += 1
        conv = rcase["conv"]
        if getattr(ctx, "xc06", None) is not None and lat.n_vertices <= XCHECK_MAX_V:
            ctx.xc06["e2e"].append((lat, rcase, calls, t_eff, g_eff, hval, S, o))
        if o["conn"][0] != "1":
            ctx.k_mismatch(f"{label}: fs_connected_b says the plaquette graph is not connected, the harness' union-find says it is", rcase)
        near = False
        for i, c in enumerate(calls):
            m = o[f"apath{i}"]
            if m[0] != "P":
                ctx.k_mismatch(f"{label}: A* model on the modelled adjacency lists, pair {c[0]}->{c[1]}: {m[0]} (E=PathFindingError, C=crash), the implementation found a path", rcase)
                near = True
                continue
            cur = Cursor(m[1:])
            mg = cur.next()
            mnodes, medges = cur.list(cur.int), cur.list(cur.int)
            if mg != "N" and unhx(mg) / S <= E2E_MARGIN:
                near = True
                continue
            st["paths_compared_exactly"] += 1
            if mnodes != c[2] or medges != c[3]:
                ctx.k_mismatch(f"{label}: end-to-end model path {c[0]}->{c[1]}: {mnodes},{medges} != implementation {c[2]},{c[3]}", rcase)
        if o["res"][0] != "OK":
            ctx.k_mismatch(f"{label}: end-to-end model result {o['res'][0]}, implementation returned bonds", rcase)
            continue
        cur = Cursor(o["res"][1:])
        mb = cur.list(cur.z)
        if not near:
            st["bonds_compared_exactly"] += 1
            if mb != [int(x) for x in r]:
                ctx.k_mismatch(f"{label}: end-to-end model bonds differ from the implementation's on {sum(1 for x, y in zip(mb, r) if x != int(y))} edges", rcase)
        else:
            st["near_tie_runs_validity_only"] += 1
            mism = int(np.count_nonzero(own_flux(lat, np.asarray(mb), conv) != t_eff))
            if mism != D % 2:
                ctx.k_mismatch(f"{label}: end-to-end model bonds (near-tie run) miss the target on {mism} plaquettes, {D} had to change", rcase)
        # open boundaries: the completion of C06_open_completion on the model's result
        has_boundary = any((a == INVALID) != (b == INVALID) for a, b in lat.edges.adjacent_plaquettes)
        if (o["boundary"][0] != "N") != has_boundary:
            ctx.k_mismatch(f"{label}: fs_find_boundary {o['boundary']} but the table {'has' if has_boundary else 'has no'} one-sided edge", rcase)
        if has_boundary:
            if o["complete"][0] == "N":
                ctx.k_mismatch(f"{label}: fs_complete_open returned None on a connected lattice with a boundary edge", rcase)
            else:
                cur = Cursor(o["complete"])
                cb = cur.list(cur.z)
                st["open_completions_checked"] += 1
                st["open_completions_odd"] += D % 2
                if len(cb) != lat.n_edges or any(x not in (1, -1) for x in cb) or np.count_nonzero(own_flux(lat, np.asarray(cb), conv) != t_eff):
                    ctx.k_mismatch(f"{label}: fs_complete_open's bonds do not realise the target exactly on an open lattice ({D} plaquettes had to change)", rcase)
                if D % 2 == 0 and cb != mb:
                    ctx.k_mismatch(f"{label}: fs_complete_open changed bonds that already realise the target", rcase)
# ================================================================== END end-to-end run


# ------------------------------------------------------------------ extraction cross-check (DESIGN 1.3)
XCHECK_MAX_V = 40


def coq_crosscheck(ctx):
    """A small random sample of the c06 driver's answers collected in ctx.xc06 during the K phase (commands solve, wf, greedy on
    lattices with V <= 40, and the whole ansatz table) is re-derived INSIDE Coq by vm_compute on the same literals (the
    implementation's plaquettes / adjacent_plaquettes table, target, guess, captured pairs and paths) and must coincide."""
    import xcheck as X
    xc, ctx.xc06 = ctx.xc06, None
    quick = ctx.tier == "quick"
    rng = np.random.default_rng([ctx.seed, 6, 99])

    def pick(xs, k):
        return [xs[i] for i in sorted(rng.choice(len(xs), size=min(len(xs), k), replace=False).tolist())] if xs else []
    ep_lit = lambda lat: X.lst(X.pair(X.onat, X.onat), [(None if a == INVALID else int(a), None if b == INVALID else int(b))
                                                          for a, b in lat.edges.adjacent_plaquettes])
    plaqs_lit = lambda lat: X.lst(lambda p: X.lst(X.pair(X.nat, X.z), [(int(e), int(d)) for e, d in zip(p.edges, p.directions)]), lat.plaquettes)
    nl, bl = X.natlist, lambda toks: X.lst(lambda t: X.boolean(t == "1"), toks)
    body = [
        # the driver's path oracle: List.assoc_opt (a, b) among the captured paths
        "Definition xpath (paths : list ((nat * nat) * (list nat * list nat))) (a b : nat) : option (list nat * list nat) :=",
        "  option_map snd (find (fun r => (fst (fst r) =? a)%nat && (snd (fst r) =? b)%nat) paths).",
    ]
    g = lambda lhs, rhs: body.append(X.goal(lhs, rhs))
    lats = {}

    def lat_defs(lat):
        if id(lat) not in lats:
            n = lats[id(lat)] = len(lats)
            body.append(f"Definition P{n} : list fs_plaq := {plaqs_lit(lat)}.")
            body.append(f"Definition EP{n} : list (option nat * option nat) := {ep_lit(lat)}.")
        return lats[id(lat)]
    for lat, o in pick(xc["wf"], 4 if quick else 30):
        n = lat_defs(lat)
        g(f"fs_wf P{n} EP{n}", X.boolean(o["wf"][0] == "1"))
    # half of the solver calls from those with at least two captured paths (the path oracle and fs_neg_set are exercised)
    k = 10 if quick else 90
    rich = pick([x for x in xc["solve"] if len(x[2]) >= 2], k // 2)
    for lat, rcase, calls, o in rich + pick([x for x in xc["solve"] if len(x[2]) < 2], k - len(rich)):
        n = lat_defs(lat)
        conv = rcase["conv"]
        t_eff = np.full(lat.n_plaquettes, -1 if conv == 0 else 1, dtype=int) if rcase["target"] is None else np.asarray(rcase["target"], dtype=int)
        g_eff = np.ones(lat.n_edges, dtype=int) if rcase["guess"] is None else np.asarray(rcase["guess"], dtype=int)
        flux = f"({'fs_fluxes_ujk' if conv == 0 else 'fs_fluxes_bonds'} P{n})"
        T, G = X.zlist(t_eff), X.zlist(g_eff)
        pairs = X.lst(X.natpair, [(c[0], c[1]) for c in calls])
        paths = X.lst(lambda c: f"(({X.nat(c[0])}, {X.nat(c[1])}), ({nl(c[2])}, {nl(c[3])}))", calls)
        defects = [int(x) for x in o["defects"][1:]]
        g(f"{flux} {G}", X.zlist([unhx(x) for x in o["flux0"][1:]]))
        g(f"fs_where_neg (snd (fs_flip_adjacent EP{n} 0%nat {G} (fs_map2 Z.div {T} ({flux} {G}))))", nl(defects))
        g(f"fs_pairing_ok {nl(defects)} {pairs}", X.boolean(o["pairing_ok"][0] == "1"))
        g(f"map (fun ab => fs_path_ok EP{n} (fst ab) (snd ab) (xpath {paths} (fst ab) (snd ab))) {pairs}", bl(o["paths_ok"][1:]))
        want = {"LEFTOVER": "FS_LeftoverError", "MISMATCH": "FS_MismatchError", "PATHERR": "FS_PathError"}.get(o["res"][0])
        if want is None:
            c = Cursor(o["res"][1:])
            want = "FS_Ok " + X.zlist(c.list(c.z))
        g(f"fs_solve {flux} EP{n} (fun _ => {pairs}) (xpath {paths}) {T} {G}", want)
    for defects, pairs, o in pick(xc["greedy"], 6 if quick else 60):
        caps = X.lst(X.natpair, pairs)
        if o["greedy"][0] == "PAIRS":
            flat = [int(x) for x in o["greedy"][2:]]
            want = "FG_Pairs " + X.lst(X.natpair, [(flat[2 * i], flat[2 * i + 1]) for i in range(len(flat) // 2)])
        else:
            want = {"MINEMPTY": "FG_MinEmptyError", "FUEL": "FG_OutOfFuel"}[o["greedy"][0]]
        g(f"fs_greedy_run (fs_replay_pick {caps}) (fs_replay_nearest {caps}) {nl(defects)}", want)
        g(f"fs_pairing_ok {nl(defects)} (greedy_pairing (fs_replay_pick {caps}) (fs_replay_nearest {caps}) {nl(defects)})", X.boolean(o["greedy_ok"][0] == "1"))
    # end-to-end runs (command e2e): connectivity checker, A* paths on the modelled adjacency lists, fs_solve_astar, boundary completion
    plats = {}

    def plaq_defs(lat):
        n = lat_defs(lat)
        if n not in plats:
            plats[n] = True
            body.append(f"Definition PS{n} : list plaquette := " + X.lst(
                lambda p: f"(plaq_of_arrays [] {nl([int(e) for e in p.edges])} {X.lst(lambda d: X.boolean(int(d) == 1), p.directions)})", lat.plaquettes) + ".")
        return n
    body += ["Definition xh (tbl : list ((nat * nat) * Z)) (a b : nat) : Z :=",
             "  match find (fun r => (fst (fst r) =? a)%nat && (snd (fst r) =? b)%nat) tbl with Some r => snd r | None => 0 end."]
    for j, (lat, rcase, calls, t_eff, g_eff, hval, S, o) in enumerate(pick([x for x in xc["e2e"] if x[0].n_plaquettes <= 40], 3 if quick else 30)):
        n = plaq_defs(lat)
        conv = rcase["conv"]
        body.append(f"Definition HT{j} : list ((nat * nat) * Z) := " + X.lst(lambda kv: f"(({X.nat(kv[0][0])}, {X.nat(kv[0][1])}), {X.z(int(Fraction(kv[1]) * S))})", list(hval.items())) + ".")
        T, G = X.zlist(t_eff), X.zlist(g_eff)
        caps = X.lst(X.natpair, [(c[0], c[1]) for c in calls])
        nE = X.nat(lat.n_edges)
        g(f"fs_connected_b EP{n} {X.nat(lat.n_plaquettes)}", X.boolean(o["conn"][0] == "1"))
        for i, c in enumerate(calls[:3]):
            m = o[f"apath{i}"]
            if m[0] == "P":
                cur = Cursor(m[1:])
                mg = cur.next()
                mnodes, medges = cur.list(cur.int), cur.list(cur.int)
                want = f"AS_Path {nl(mnodes)} {nl(medges)} " + ("None" if mg == "N" else f"(Some {X.z(unhx(mg))})")
            else:
                continue
            g(f"as_path (fsl_adj PS{n} EP{n}) (xh HT{j}) {X.nat(c[0])} {X.nat(c[1])} true {nE}", want)
        want = {"LEFTOVER": "FS_LeftoverError", "MISMATCH": "FS_MismatchError", "PATHERR": "FS_PathError"}.get(o["res"][0])
        mb = None
        if want is None:
            cur = Cursor(o["res"][1:])
            mb = cur.list(cur.z)
            want = "FS_Ok " + X.zlist(mb)
        g(f"fs_solve_astar {X.boolean(conv == 1)} PS{n} EP{n} (xh HT{j}) (fs_replay_pick {caps}) (fs_replay_nearest {caps}) {T} {G}", want)
        g(f"fs_find_boundary EP{n}", "None" if o["boundary"][0] == "N" else f"Some ({X.nat(int(o['boundary'][0]))}, {X.nat(int(o['boundary'][1]))})")
        if mb is not None:
            flux = f"({'fs_fluxes_ujk' if conv == 0 else 'fs_fluxes_bonds'} (fsl_plaqs PS{n}))"
            cwant = "None"
            if o["complete"][0] != "N":
                cur = Cursor(o["complete"])
                cwant = "Some " + X.zlist(cur.list(cur.z))
            g(f"fs_complete_open {flux} EP{n} (fsl_path PS{n} EP{n} (xh HT{j}) {nE}) {T} {X.zlist(mb)}", cwant)
    if xc["ansatz"] is not None:
        ns, gsa, sr = xc["ansatz"]
        g(f"map ground_state_ansatz {X.zlist(ns)}", X.zlist(gsa))
        g(f"map fs_sign_real {nl(ns)}", X.zlist(sr))
    res = ctx.res
    res.extra["extraction_crosscheck_goals_vm_compute"] = X.compile_goals("c06", "Model.Lattice Model.AStar Model.Flux Model.FluxSolver Model.FluxSolverLattice Gen.AnsatzGen", body, "c06")
    res.extra["extraction_crosscheck_pool"] = {k: (len(v) if k != "ansatz" else int(v is not None)) for k, v in xc.items()}
    res.extra["extraction_crosscheck_wall_s"] = X.LAST_WALL


def build_lattice(case):
    arr, why = gen.try_build(case)
    if arr is None:
        return None
    try:
        lat = Lattice(*arr)
        lat.plaquettes
        return lat
    except LatticeException:
        return None


def evaluate(ctx, cases, label, exhaustive_max):
    res = ctx.res
    for ci, case in enumerate(cases):
        lat = build_lattice(case)
        if lat is None:
            res.skip("generator-could-not-build-lattice")
            continue
        if lat.n_plaquettes == 0 or plaq_components(lat) != 1:
            res.skip("plaquette-graph-empty-or-not-connected")
            continue
        rng = np.random.default_rng([ctx.seed, 600 + ci])
        eval_lattice(ctx, case, lat, targets_for(lat, rng, ctx.tier, exhaustive_max, dense=case.get("dense", False)), label)


# ------------------------------------------------------------------ make_amorphous / make_honeycomb
def proper_colouring(lat, col):
    col = np.asarray(col)
    if col.shape != (lat.n_edges,) or not np.all((col >= 0) & (col <= 2)):
        return "colouring is not an array of n_edges values in {0,1,2}"
    for v in range(lat.n_vertices):
        es = np.nonzero((lat.edges.indices[:, 0] == v) | (lat.edges.indices[:, 1] == v))[0]
        cs = col[es].tolist()
        if len(set(cs)) != len(cs):
            return f"vertex {v}: incident edges {es.tolist()} have colours {cs}"
    return None


def eval_amorphous(ctx, tier):
    res = ctx.res
    seeds = [1, 2] if tier == "quick" else list(range(1, 13))
    for L in range(3, 9):
        for obc in (False, True):
            # regression cases first: (3, open, seed 3) and (6, open, seed 14) raised PathFindingError before fix d10d878
            # (the cut lattice's plaquette-adjacency graph was disconnected)
            corpus = [3] if (L == 3 and obc) else [14] if (L == 6 and obc) else []
            for sd in corpus + [x for x in seeds if x not in corpus]:
                if tier == "quick" and L >= 7 and sd > 1:
                    continue
                rcase = {"make_amorphous": {"length": L, "open_boundary_conditions": obc, "seed": sd}}
                res.count(f"make_amorphous/{'open' if obc else 'periodic'}", nontrivial_key=("am", L, obc, sd))
                try:
                    lat, col, ujk = eg.make_amorphous(L, open_boundary_conditions=obc, rng=np.random.default_rng(sd))
                    lat2, col2, ujk2 = eg.make_amorphous(L, open_boundary_conditions=obc, rng=np.random.default_rng(sd))
                except Exception as e:
                    res.violation("make_amorphous-raised", f"make_amorphous({L}, open_boundary_conditions={obc}, rng=default_rng({sd})) raised {type(e).__name__}: {e}", rcase)
                    continue
                same = (np.array_equal(lat.vertices.positions, lat2.vertices.positions) and np.array_equal(lat.edges.indices, lat2.edges.indices)
                        and np.array_equal(lat.edges.crossing, lat2.edges.crossing) and np.array_equal(col, col2) and np.array_equal(ujk, ujk2))
                if not same:
                    res.violation("make_amorphous-not-reproducible", f"make_amorphous({L}, obc={obc}) with the same seeded generator returned different outputs", rcase)
                why = proper_colouring(lat, col)
                if why:
                    res.violation("make_amorphous-colouring", f"make_amorphous({L}, obc={obc}, seed {sd}): not a proper 3-edge-colouring: {why}", rcase)
                ujk = np.asarray(ujk)
                if ujk.shape != (lat.n_edges,) or not np.all((ujk == 1) | (ujk == -1)):
                    res.violation("make_amorphous-bonds", "ujk is not a +-1 array over the edges", rcase)
                    continue
                want = np.array([eg.ground_state_ansatz(len(p.edges)) for p in lat.plaquettes])
                mism = int(np.count_nonzero(own_flux(lat, ujk, 1) != want))
                D = int(np.count_nonzero(own_flux(lat, np.ones(lat.n_edges, dtype=int), 1) != want))
                if (not obc and mism != 0) or (obc and (mism > 1 or mism != D % 2)):
                    res.violation("make_amorphous-ansatz", f"make_amorphous({L}, obc={obc}, seed {sd}): bonds miss the ground-state ansatz on {mism} plaquette(s) ({D} had to change)", rcase)
    try:
        for L in (1, 2, 3, 5):
            lat, col, ujk = eg.make_honeycomb(L)
            res.count("make_honeycomb")
            why = proper_colouring(lat, col)
            if why or not np.all(np.asarray(ujk) == 1) or len(ujk) != lat.n_edges:
                res.violation("make_honeycomb", f"make_honeycomb({L}): {why or 'ujk is not all +1'}", {"make_honeycomb": L})
    except Exception as e:
        res.violation("make_honeycomb-raised", f"{type(e).__name__}: {e}", {"make_honeycomb": None})


def eval_ansatz_table(ctx):
    """translator validation + the table on the implementation: generated Gallina vs the Python function"""
    ns = list(range(3, 401))
    o = run_driver(ctx.exe["c06"], ["ansatz " + str(len(ns)) + " " + " ".join(map(str, ns))])[0]
    if "error" in o:
        raise RuntimeError(" ".join(o["error"]))
    gsa = [unhx(x) for x in o["gsa"][1:]]
    sr = [unhx(x) for x in o["sr"][1:]]
    if getattr(ctx, "xc06", None) is not None:
        ctx.xc06["ansatz"] = (ns, gsa, sr)
    table = [1, -1, -1, 1]
    for n, g, s in zip(ns, gsa, sr):
        ctx.res.traces += 1
        py = eg.ground_state_ansatz(n)
        if int(py) != g:
            ctx.k_mismatch(f"translator: generated ground_state_ansatz({n}) = {g}, Python returns {py}", {"ansatz_n": n})
        if s != table[n % 4]:
            ctx.k_mismatch(f"model sign_real({n}) = {s} != table", {"ansatz_n": n})
        if table[n % 4] * int(py) != -1:
            ctx.res.violation("ansatz-table", f"sign_real[{n} % 4] * ground_state_ansatz({n}) = {table[n % 4] * int(py)}, expected -1", {"ansatz_n": n})


# ------------------------------------------------------------------ entry points
def run(ctx):
    quick = ctx.tier == "quick"
    ctx.res.rule = ("lattices: tilings (size >= 2), periodic Voronoi (9..200 seeds quick / ..400 thorough, 4 point styles, both shift settings), their x/y/xy cuts, example graphs; "
                    "only lattices whose plaquette-adjacency graph is connected; per lattice x {ujk_from_fluxes, find_flux_sector}: default arguments, all 2^F targets when F <= "
                    f"{9 if quick else 10} (alternating default / random guess), else random sparse/dense targets (int8 and int64) with random guesses; "
                    "make_amorphous L=3..8 both boundary conditions, 2 (quick) / 12 seeds + the two recorded failing seeds; non-trivial = at least 2 plaquettes have to change")
    ctx.xc06 = {"wf": [], "solve": [], "greedy": [], "e2e": [], "ansatz": None}     # driver answers on small lattices, for the extraction cross-check
    eval_ansatz_table(ctx)
    evaluate(ctx, c06_lattice_cases(ctx.tier, ctx.seed), "K(solver)", 9 if quick else 10)
    coq_crosscheck(ctx)      # extraction cross-check: a sample of the driver's answers re-derived inside Coq
    eval_amorphous(ctx, ctx.tier)


def search(ctx):
    eval_ansatz_table(ctx)
    evaluate(ctx, c06_lattice_cases(ctx.tier, ctx.seed + 1), "search", 9 if ctx.tier == "quick" else 10)
    eval_amorphous(ctx, ctx.tier)


def replay(ctx, payload):
    case = payload["case"]
    if "make_amorphous" in case or "make_honeycomb" in case:
        eval_amorphous(ctx, "quick")
        return
    if "ansatz_n" in case:
        eval_ansatz_table(ctx)
        return
    lat = build_lattice(case["lattice"])
    t = None if case["target"] is None else np.array(case["target"], dtype=case.get("target_dtype") or "int8")
    g = None if case["guess"] is None else np.array(case["guess"], dtype=np.int8)
    eval_lattice(ctx, case["lattice"], lat, [(t, g)], "replay")
