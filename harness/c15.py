"""C15 — no koala operation modifies the lattice or arrays passed to it; results do not depend
on earlier calls.

T : Props/C15.v — analysis_sound (the effect analysis of Model/Effects.v is sound for the store
    semantics) + koala_pure (the analysis accepts every public function of the IR regenerated
    from today's source by translate/effects_ir.py).
S : random call sequences over all public functions on SHARED lattices / arrays with byte-level
    fingerprints before/after every call, and every step's result compared with the same call
    on fresh copies.
K : per function, analysis verdict (extracted OCaml) vs dynamic observation: "pure" but observed
    to mutate => the trusted View/Fresh/Write table is wrong => k_mismatch (+ violation)."""
from lib import *  # noqa
import json as _json, pickle, traceback, copy, io
import multiprocessing as mp

DRIVERS = ("c15",)
TRANSLATORS = ("effects_ir",)
MODEL_TARGETS = ["Model/Effects.vo", "Gen/EffectsIR.vo"]
TARGETS = ["Proofs/EffectsFacts.vo", "Proofs/EffectsKoala.vo", "Proofs/EffectsMono.vo"]
LEVEL = "proof"
TRUST = [
    "translate/effects_ir.py: Python-ast -> effect IR. Trusted: the View/Fresh/Box/Write classification table of numpy / matplotlib / pysat / builtin calls and syntax forms (EXT, EXT_WRITES, M_* in that file), the basic-vs-advanced indexing classification, and that Python control flow (exceptions, return, break, continue) is covered by the IR's prefix-closed Seq. Fails closed on any unknown callee or construct. Validated, not proved, by the dynamic fingerprint run (K).",
    "calls of run-time callables received as arguments (heuristic, Hk, distance_func, adjacency, function, idx_mapper) are IR statements CallDyn: the store semantics lets the callee be ANY koala function / closure that is used as a first-class value anywhere (on arbitrary argument values; covered by analysis_sound through the assume/guarantee check dyn_ok, C15_koala_dyn_targets_verified) or a FOREIGN callable, which is assumed effect-free (may allocate, returns anything). Trusted: that the translator's set of first-class koala functions (w.escaping) is complete",
    "output sinks (the `ax` parameter, plt.gca()) are not 'lattice or arrays passed in': excluded from the taint mask; cached_property population (self._x = ...) and the write-once `Lattice.unit_cell` class attribute are exempt exactly as the property exempts lazily computed attributes",
    "store semantics of Model/Effects.v (abstract locations, own/reach sets) as the meaning of 'aliasing' for Python objects",
]
ASSUMPTIONS = ["operations are called with well-typed arguments from the generators; user-supplied callables are themselves effect-free"]

CORE_MODULES = ["lattice", "graph_utils", "graph_color", "flux_finder.flux_finder", "flux_finder.pathfinding",
                "hamiltonian", "phase_space", "chern_number", "voronization", "plotting"]


# ------------------------------------------------------------------------------ fingerprints
def fp(x, depth=0):
    """byte-level fingerprint of an object graph (arrays: dtype, shape, flags, bytes)"""
    import numpy as np
    if depth > 6:
        return ("deep",)
    if isinstance(x, np.ndarray):
        if x.dtype == object:
            return ("objarr", x.shape, tuple(fp(v, depth + 1) for v in x.ravel()))
        return ("arr", x.dtype.str, x.shape, bool(x.flags.writeable), bool(x.flags.c_contiguous), x.tobytes())
    if isinstance(x, (list, tuple)):
        return (type(x).__name__, tuple(fp(v, depth + 1) for v in x))
    if isinstance(x, dict):
        return ("dict", tuple((repr(k), fp(v, depth + 1)) for k, v in x.items()))
    if isinstance(x, (int, float, complex, str, bool, type(None), np.generic)):
        return ("s", repr(x))
    if isinstance(x, slice):
        return ("slice", repr(x))
    if type(x).__name__ == "Plaquette":
        return ("plaq", tuple((k, fp(getattr(x, k), depth + 1)) for k in ("vertices", "edges", "directions", "center", "n_sides", "adjacent_plaquettes")))
    if type(x).__name__ == "Lattice":
        return ("lattice", tuple(sorted(lattice_fp(x).items())))
    return ("opaque", type(x).__name__)


CACHED = [("lat", "plaquettes"), ("lat", "n_plaquettes"), ("lat", "_vertices_adjacent_plaquettes"), ("lat", "_edges_adjacent_plaquettes"),
          ("edges", "adjacent_plaquettes"), ("vertices", "adjacent_plaquettes")]


def lattice_fp(l):
    """defining arrays + derived eager fields + every cached attribute that is populated"""
    d = {"positions": fp(l.vertices.positions), "indices": fp(l.edges.indices), "crossing": fp(l.edges.crossing),
         "vectors": fp(l.edges.vectors), "v_adjacent_edges": fp(list(l.vertices.adjacent_edges)),
         "e_adjacent_edges": fp(list(l.edges.adjacent_edges)), "coordination": fp(l.vertices.coordination_numbers),
         "n": fp((l.n_vertices, l.n_edges))}
    for where, name in CACHED:
        o = {"lat": l, "edges": l.edges, "vertices": l.vertices}[where]
        if name in o.__dict__:
            d["cached:" + where + "." + name] = fp(o.__dict__[name])
    return d


def diff_fp(a, b):
    """names of fingerprint entries that changed (entries that appear are cache population)"""
    return sorted(k for k in a if k in b and a[k] != b[k]), sorted(k for k in b if k not in a)


# ------------------------------------------------------------------------------ scenarios (shared objects)
LATTICE_KINDS = ["honeycomb2", "honeycomb3", "voronoi", "voronoi_noshift", "voronoi_cut", "honeycomb_cut", "tri_square_pent",
                 "square33", "ladder", "hexsqoct", "tutte", "bridge_graph", "bridged_squares"]


def _base_uncached(kind, seed):
    import gen
    from koala import example_graphs as eg, voronization
    from koala.lattice import Lattice, cut_boundaries
    rng = np.random.default_rng([seed, 151])
    if kind == "honeycomb2":
        l = eg.honeycomb_lattice(2)
    elif kind == "honeycomb3":
        l = eg.honeycomb_lattice(3)
    elif kind in ("voronoi", "voronoi_noshift", "voronoi_cut"):
        n = int(rng.integers(5, 15))
        l = voronization.generate_lattice(gen.points("uniform", n, int(rng.integers(0, 2**31))), shift_vertices=(kind != "voronoi_noshift"))
        if kind == "voronoi_cut":
            l = cut_boundaries(l, [True, bool(rng.integers(0, 2))])
    elif kind == "honeycomb_cut":
        l = cut_boundaries(eg.honeycomb_lattice(3), [bool(rng.integers(0, 2)), True])
    elif kind == "tri_square_pent":
        l = eg.tri_square_pent()
    elif kind == "square33":
        l = eg.square_lattice(3, 3)
    elif kind == "ladder":
        l = eg.n_ladder(int(rng.integers(3, 7)), True)
    elif kind == "hexsqoct":
        l = eg.hex_square_oct_lattice(1)
    elif kind == "tutte":
        l = eg.tutte_graph()
    elif kind == "bridge_graph":
        l = eg.bridge_graph()
    elif kind == "bridged_squares":
        # two squares joined by a two-edge path (plaquette-free edges whose ends are not dangling) plus a dangling edge:
        # what an operation returns here must not depend on whether the plaquettes were computed before
        jit = rng.uniform(-0.01, 0.01, size=(10, 2))
        pos = np.array([[0.10, 0.30], [0.10, 0.60], [0.35, 0.60], [0.35, 0.30], [0.65, 0.60], [0.65, 0.30], [0.90, 0.30], [0.90, 0.60],
                        [0.50, 0.75], [0.10, 0.85]]) + jit
        ed = np.array([[0, 1], [1, 2], [2, 3], [3, 0], [4, 5], [5, 6], [6, 7], [7, 4], [2, 8], [8, 4], [1, 9]])
        l = Lattice(pos, ed, np.zeros_like(ed))
    else:
        raise ValueError(kind)
    return gen.arrays(l)


_ARR_CACHE = {}


def base_lattice_arrays(kind, seed):
    k = (kind, seed)
    if k not in _ARR_CACHE:
        p, e, c = _base_uncached(kind, seed)
        from koala.lattice import Lattice
        _ARR_CACHE[k] = (p, e, c, Lattice(p.copy(), e.copy(), c.copy()).n_plaquettes)
    p, e, c, P = _ARR_CACHE[k]
    return p.copy(), e.copy(), c.copy(), P


def build_scenario(spec):
    """spec = {"seed": s, "kinds": [k1, k2]} -> dict key -> shared object (deterministic; every call
    returns equal but physically fresh objects)"""
    from koala.lattice import Lattice
    from koala import phase_space, graph_utils
    import koala.flux_finder.pathfinding as pf
    S = {}
    for tag, kind in zip("ABC", spec["kinds"]):
        rng = np.random.default_rng([spec["seed"], ord(tag)])
        p, e, c, P = base_lattice_arrays(kind, spec["seed"] + ord(tag))
        p, e, c = np.array(p, dtype=float), np.array(e, dtype=int), np.array(c, dtype=int)
        S[tag + ".pos"], S[tag + ".edges"], S[tag + ".crossing"] = p, e, c
        l = Lattice(p, e, c)
        S[tag + ".lat"] = l
        V, E = l.n_vertices, l.n_edges
        # P (number of plaquettes) was computed on a throw-away copy: the shared lattice starts unpopulated
        S[tag + ".ujk"] = (1 - 2 * rng.integers(0, 2, size=E)).astype(int)
        S[tag + ".ujk8"] = (1 - 2 * rng.integers(0, 2, size=E)).astype(np.int8)
        S[tag + ".ujkf"] = (1 - 2 * rng.integers(0, 2, size=E)).astype(float)
        S[tag + ".coloring"] = rng.integers(0, 3, size=E)
        S[tag + ".J"] = np.array([1.0, 0.8, 0.6])
        S[tag + ".target"] = (1 - 2 * rng.integers(0, 2, size=P)).astype(np.int8)
        S[tag + ".fluxes"] = (1 - 2 * rng.integers(0, 2, size=P)).astype(int)
        S[tag + ".perm"] = rng.permutation(V)
        k = int(rng.integers(1, max(2, V // 3 + 1)))
        S[tag + ".vsub"] = np.sort(rng.choice(V, size=k, replace=False))
        S[tag + ".vsub_list"] = [int(x) for x in rng.choice(V, size=min(V, 2), replace=False)]
        S[tag + ".vsub_neg"] = np.array([0, -1] if V > 1 else [-1])      # python-style negative index in a caller-owned index array
        S[tag + ".esub"] = np.sort(rng.choice(E, size=int(rng.integers(1, E + 1)), replace=False))
        S[tag + ".emask"] = rng.integers(0, 2, size=E).astype(bool)
        S[tag + ".labV"], S[tag + ".labE"], S[tag + ".labP"] = rng.integers(0, 3, size=V), rng.integers(0, 3, size=E), rng.integers(0, 3, size=P)
        S[tag + ".dirs"] = (1 - 2 * rng.integers(0, 2, size=E)).astype(int)
        S[tag + ".scalar"] = rng.uniform(size=V)
        q, _ = np.linalg.qr(rng.standard_normal((V, max(1, V // 2))))
        S[tag + ".proj"] = q @ q.T
        S[tag + ".cross"] = np.array([0.5, 0.45])
        S[tag + ".span"] = np.sort(rng.choice(E, size=min(E, 4), replace=False))
        S[tag + ".bcut"] = [bool(rng.integers(0, 2)), True]
        S[tag + ".edge_arrows"] = rng.integers(0, 2, size=E).astype(bool)
        S[tag + ".ham"] = rng.standard_normal((2 * (V // 2), 2 * (V // 2))) * 1j
        S[tag + ".Hk"] = phase_space.k_hamiltonian_generator(l, S[tag + ".coloring"], S[tag + ".ujk"], S[tag + ".J"])
        S[tag + ".P"] = P
    rng = np.random.default_rng([spec["seed"], 7])
    S["g.pts"] = rng.uniform(size=(int(rng.integers(4, 12)), 2))
    if rng.integers(0, 3) == 0:          # edge of the documented [0,1]^2 domain: an exact 1.0 and a -0.0 coordinate
        S["g.pts"][0, 0] = 1.0
        S["g.pts"][1, 1] = -0.0
    S["g.pts1"] = rng.uniform(size=(2,))
    S["g.pts2"] = rng.uniform(size=(2,))
    S["g.kvec"] = rng.uniform(size=2) * 6
    S["g.cs_list"] = ["r", "g", "b"]
    S["g.cs_arr"] = np.array(["#E7414E", "#5BB03E", "#4B64AC"])
    S["g.cs_tuple"] = ("r", "b", "k", "y")
    S["g.lines1"] = rng.uniform(-0.5, 1.5, size=(5, 2, 2))
    S["g.lines2"] = rng.uniform(-0.5, 1.5, size=(4, 2, 2))
    S["g.vec"] = rng.standard_normal(2)
    S["g.knum"] = [2, 3]
    S["g.came_from"] = {0: (None, None), 1: (0, 5), 2: (1, 7), 3: (1, 4)}
    return S


def module_state():
    """mutable module-level objects and default arguments of the analysed modules (history carriers)"""
    from koala import plotting, voronization, hamiltonian
    return {"plotting.colourblind_friendly_scheme": plotting.colourblind_friendly_scheme,
            "voronization.square": voronization.square, "plotting.cdict": plotting.cdict,
            "majorana_hamiltonian.J_default": hamiltonian.majorana_hamiltonian.__defaults__[0],
            "plot_edges.defaults": [d for d in plotting.plot_edges.__defaults__ if isinstance(d, list)],
            "plot_lattice.defaults": list(getattr(plotting.plot_lattice, "__wrapped__", plotting.plot_lattice).__defaults__ or ())}


def fingerprint_all(S):
    out = {}
    for k, v in S.items():
        if type(v).__name__ == "Lattice":
            for kk, vv in lattice_fp(v).items():
                out[k + ":" + kk] = vv
        elif callable(v) or isinstance(v, int):
            continue
        else:
            out[k] = fp(v)
    for k, v in module_state().items():
        out["module:" + k] = fp(v)
    return out


# ------------------------------------------------------------------------------ operation catalogue
def O(k):
    return ["o", k]


def V(v):
    return ["v", v]


def H(name):
    return ["h", name]


def _ri(r, n):
    return int(r.integers(0, max(1, n)))


def _labels(S, T, r, which, n):
    c = _ri(r, 3)
    return V(int(r.integers(0, 3))) if c == 0 else O(T + "." + which)


def _scheme(r):
    return [O("g.cs_list"), O("g.cs_arr"), None][_ri(r, 3)]


def _plot_common(S, T, r, which, n):
    a = {"lattice": O(T + ".lat"), "labels": _labels(S, T, r, which, n)}
    sc = _scheme(r)
    if sc is not None:
        a["color_scheme"] = sc
    elif which == "labV":
        a["labels"] = V(0)
    if which == "labE" and _ri(r, 3) == 0:
        a["subset"] = O(T + ".emask")
        a["labels"] = V(1)
    if _ri(r, 4) == 0:
        a["color"] = V("k")
    if _ri(r, 3) == 0:
        a["ax"] = H("newax")
    return a


OPS = {
    "lattice:permute_vertices": lambda S, T, r: {"lattice": O(T + ".lat"), "ordering": O(T + ".perm")},
    "lattice:cut_boundaries": lambda S, T, r: {"lattice": O(T + ".lat"), "boundary_to_cut": O(T + ".bcut")},
    "lattice:Edges.adjacent_plaquettes": lambda S, T, r: {"self": O(T + ".lat")},
    "lattice:Vertices.adjacent_plaquettes": lambda S, T, r: {"self": O(T + ".lat")},
    "lattice:Lattice.__init__": lambda S, T, r: {"vertices": O(T + ".pos"), "edge_indices": O(T + ".edges"), "edge_crossing": O(T + ".crossing")},
    "lattice:Lattice.plaquettes": lambda S, T, r: {"self": O(T + ".lat")},
    "lattice:Lattice.n_plaquettes": lambda S, T, r: {"self": O(T + ".lat")},
    "lattice:Lattice.__eq__": lambda S, T, r: {"self": O(T + ".lat"), "other": O("AB"[_ri(r, 2)] + ".lat")},
    "lattice:Lattice.__ne__": lambda S, T, r: {"self": O(T + ".lat"), "other": O("AB"[_ri(r, 2)] + ".lat")},
    "lattice:Lattice.__getstate__": lambda S, T, r: {"self": O(T + ".lat")},
    "lattice:Lattice.adjacency_matrix": lambda S, T, r: {"self": O(T + ".lat")},
    "lattice:Lattice.as_csgraph": lambda S, T, r: {"self": O(T + ".lat")},
    "graph_utils:make_dual": lambda S, T, r: {"lattice": O(T + ".lat"), "use_point_averages": V(bool(_ri(r, 2)))},
    "graph_utils:plaquette_spanning_tree": lambda S, T, r: {"lattice": O(T + ".lat"), "shortest_edges_only": V(bool(_ri(r, 2)))},
    "graph_utils:remove_vertices": lambda S, T, r: {"lattice": O(T + ".lat"), "indices": O(T + [".vsub", ".vsub_list"][_ri(r, 2)]), "return_edge_removal": V(bool(_ri(r, 2)))},
    "graph_utils:remove_trailing_edges": lambda S, T, r: {"lattice": O(T + ".lat")},
    "graph_utils:vertex_neighbours": lambda S, T, r: {"lattice": O(T + ".lat"), "vertex_index": V(_ri(r, S[T + ".lat"].n_vertices))},
    "graph_utils:edge_neighbours": lambda S, T, r: {"lattice": O(T + ".lat"), "edge_index": V(_ri(r, S[T + ".lat"].n_edges))},
    "graph_utils:clockwise_about": lambda S, T, r: {"vertex_index": V(_ri(r, S[T + ".lat"].n_vertices)), "g": O(T + ".lat")},
    "graph_utils:clockwise_edges_about": lambda S, T, r: {"vertex_index": V(_ri(r, S[T + ".lat"].n_vertices)), "g": O(T + ".lat")},
    "graph_utils:get_edge_vectors": lambda S, T, r: {"vertex_index": V(0), "edge_indices": H("edges_of_vertex0"), "l": O(T + ".lat")},
    "graph_utils:adjacent_plaquettes": lambda S, T, r: {"lattice": O(T + ".lat"), "p_index": V(_ri(r, S[T + ".P"]))},
    "graph_utils:rotate": lambda S, T, r: {"vector": O("g.vec"), "angle": V(0.7)},
    "graph_utils:vertices_to_polygon": lambda S, T, r: {"lattice": O(T + ".lat"), **({} if _ri(r, 3) == 0 else {"vertices": O(T + [".vsub", ".vsub_list", ".vsub_neg"][_ri(r, 3)])})},
    "graph_utils:dimerise": lambda S, T, r: {"lattice": O(T + ".lat"), "n_solutions": V([1, 3][_ri(r, 2)])},
    "graph_utils:lloyd_relaxation": lambda S, T, r: {"lattice": O(T + ".lat"), "n_steps": V(1)},
    "graph_utils:reorder_vertices": lambda S, T, r: {"lattice": O(T + ".lat"), "permutation": O(T + ".perm")},
    "graph_color:vertex_color": lambda S, T, r: {"adjacency": O(T + ".edges"), "n_colors": V(4), "all_solutions": V(False)},
    "graph_color:edge_color": lambda S, T, r: {"lattice": O(T + ".lat"), "n_colors": V([3, 4][_ri(r, 2)]), "n_solutions": V([None, 2][_ri(r, 2)])},
    "graph_color:color_lattice": lambda S, T, r: {"lattice": O(T + ".lat")},
    "flux_finder.flux_finder:fluxes_from_ujk": lambda S, T, r: {"lattice": O(T + ".lat"), "ujk": O(T + [".ujk", ".ujk8", ".ujkf"][_ri(r, 3)]), "real": V(bool(_ri(r, 2)))},
    "flux_finder.flux_finder:ujk_from_fluxes": lambda S, T, r: {"lattice": O(T + ".lat"), **({"target_flux_sector": O(T + [".target", ".fluxes"][_ri(r, 2)])} if _ri(r, 4) else {}), **({"initial_ujk_guess": O(T + [".ujk", ".ujk8"][_ri(r, 2)])} if _ri(r, 4) else {})},
    "flux_finder.flux_finder:n_to_ujk_flipped": lambda S, T, r: {"n": V(_ri(r, 16)), "ujk": O(T + [".ujk", ".ujk8"][_ri(r, 2)]), "min_spanning_set": O(T + ".span")},
    "flux_finder.flux_finder:fluxes_to_labels": lambda S, T, r: {"fluxes": O(T + [".fluxes", ".target"][_ri(r, 2)])},
    "flux_finder.flux_finder:fluxes_from_bonds": lambda S, T, r: {"lattice": O(T + ".lat"), "ujk": O(T + [".ujk", ".ujk8"][_ri(r, 2)]), "real": V(bool(_ri(r, 2)))},
    "flux_finder.flux_finder:find_flux_sector": lambda S, T, r: {"lattice": O(T + ".lat"), **({"target_flux_sector": O(T + ".target")} if _ri(r, 4) else {}), **({"initial_bond_guess": O(T + [".ujk", ".ujk8"][_ri(r, 2)])} if _ri(r, 4) else {})},
    "flux_finder.pathfinding:a_star_search_forward_pass": lambda S, T, r: {"start": V(0), "goal": V(_ri(r, S[T + ".P"])), "heuristic": H("plaq_heuristic:" + T), "adjacency": H("plaq_adjacency:" + T), "early_stopping": V(bool(_ri(r, 2))), "maxits": V(1000)},
    "flux_finder.pathfinding:a_star_search_backward_pass": lambda S, T, r: {"came_from": O("g.came_from"), "start": V(0), "goal": V([2, 3][_ri(r, 2)])},
    "flux_finder.pathfinding:straight_line_length": lambda S, T, r: {"a": O("g.pts1"), "b": O("g.pts2")},
    "flux_finder.pathfinding:periodic_straight_line_length": lambda S, T, r: {"a": O("g.pts1"), "b": O("g.pts2")},
    "flux_finder.pathfinding:path_between_plaquettes": lambda S, T, r: {"l": O(T + ".lat"), "start": V(_ri(r, S[T + ".P"])), "goal": V(_ri(r, S[T + ".P"])), "heuristic": H(["straight", "periodic"][_ri(r, 2)]), "early_stopping": V(bool(_ri(r, 2)))},
    "flux_finder.pathfinding:adjacent_vertices": lambda S, T, r: {"lattice": O(T + ".lat"), "a": V(_ri(r, S[T + ".lat"].n_vertices))},
    "flux_finder.pathfinding:path_between_vertices": lambda S, T, r: {"l": O(T + ".lat"), "start": V(_ri(r, S[T + ".lat"].n_vertices)), "goal": V(_ri(r, S[T + ".lat"].n_vertices)), "heuristic": H(["straight", "periodic"][_ri(r, 2)]), "early_stopping": V(bool(_ri(r, 2)))},
    "hamiltonian:bisect_lattice": lambda S, T, r: {"lattice": O(T + ".lat"), "solution": O(T + ".coloring"), "along": V(_ri(r, 3))},
    "hamiltonian:majorana_hamiltonian": lambda S, T, r: {"lattice": O(T + ".lat"), "coloring": [O(T + ".coloring"), V(None)][_ri(r, 2)], "ujk": O(T + [".ujk", ".ujk8", ".ujkf"][_ri(r, 3)]), **({"J": O(T + ".J")} if _ri(r, 2) else {})},
    "hamiltonian:majorana_to_fermion_ham": lambda S, T, r: {"majorana_ham": O(T + ".ham")},
    "phase_space:k_hamiltonian_generator": lambda S, T, r: {"lattice": O(T + ".lat"), "coloring": [O(T + ".coloring"), V(None)][_ri(r, 2)], "ujk": O(T + ".ujk"), "J": O(T + ".J")},
    "phase_space:analyse_hk": lambda S, T, r: {"Hk": O(T + ".Hk"), "k_num": [V(2), O("g.knum")][_ri(r, 2)], "return_all_results": V(bool(_ri(r, 2)))},
    "phase_space:gap_over_phase_space": lambda S, T, r: {"Hk": O(T + ".Hk"), "k_num": V(2), "return_k_values": V(bool(_ri(r, 2)))},
    "chern_number:crosshair_marker": lambda S, T, r: {"lattice": O(T + ".lat"), "projector": O(T + ".proj"), "crosshair_position": O(T + ".cross")},
    "chern_number:chern_marker": lambda S, T, r: {"lattice": O(T + ".lat"), "projector": O(T + ".proj")},
    "voronization:points_near_unit_image": lambda S, T, r: {"vor": H("voronoi"), "idx": V(3)},
    "voronization:generate_point_array": lambda S, T, r: {"points": O("g.pts"), "padding": V(1 + _ri(r, 2))},
    "voronization:plot_lines": lambda S, T, r: {"ax": H("newax"), "lines": O("g.lines1")},
    "voronization:generate_lattice": lambda S, T, r: {"original_points": O("g.pts"), "debug_plot": V(_ri(r, 4) == 0), "shift_vertices": V(bool(_ri(r, 2)))},
    "plotting:plot_vertices": lambda S, T, r: _plot_common(S, T, r, "labV", 0),
    "plotting:plot_edges": lambda S, T, r: {**_plot_common(S, T, r, "labE", 0), **({"directions": O(T + ".dirs")} if _ri(r, 2) else {})},
    "plotting:plot_plaquettes": lambda S, T, r: _plot_common(S, T, r, "labP", 0),
    "plotting:plot_dual": lambda S, T, r: {"lattice": O(T + ".lat"), **({"color_scheme": O("g.cs_list")} if _ri(r, 2) else {})},
    "plotting:plot_vertex_indices": lambda S, T, r: {"lattice": O(T + ".lat")},
    "plotting:plot_edge_indices": lambda S, T, r: {"lattice": O(T + ".lat")},
    "plotting:plot_plaquette_indices": lambda S, T, r: {"lattice": O(T + ".lat")},
    "plotting:peru_friendly_color_scheme": lambda S, T, r: {"n_colors": V(2 + _ri(r, 3))},
    "plotting:plot_lattice": lambda S, T, r: {"lattice": O(T + ".lat"), **({"edge_labels": O(T + ".labE")} if _ri(r, 2) else {}), **({"edge_color_scheme": O("g.cs_tuple")} if _ri(r, 2) else {}),
                                              **({"vertex_labels": O(T + ".labV")} if _ri(r, 2) else {}), **({"edge_arrows": [V(True), O(T + ".edge_arrows")][_ri(r, 2)]} if _ri(r, 2) else {}),
                                              **({"bond_signs": O(T + ".dirs")} if _ri(r, 2) else {}), **({"edge_index_labels": V(True)} if _ri(r, 3) == 0 else {})},
    "plotting:plot_scalar": lambda S, T, r: {"g": O(T + ".lat"), "scalar": O(T + ".scalar"), "resolution": V(8), "method": V("linear")},
    "plotting:plot_degeneracy_breaking": lambda S, T, r: {"vertex_i": V(0), "g": O(T + ".lat")},
    "plotting:cross_product_2d": lambda S, T, r: {"a": O("g.lines1"), "b": O("g.lines1")},
    "plotting:line_intersection": lambda S, T, r: {"lines": O("g.lines1"), "lines2": O("g.lines2"), "full_output": V(bool(_ri(r, 2)))},
}


# ------------------------------------------------------------------------------ execution
def resolve(S, a, args):
    import matplotlib.pyplot as plt
    import koala.flux_finder.pathfinding as pf
    from koala import graph_utils, voronization
    kind, v = a
    if kind == "o":
        return S[v]
    if kind == "v":
        return v
    if v == "newax":
        return plt.figure().add_subplot()
    if v == "straight":
        return pf.straight_line_length
    if v == "periodic":
        return pf.periodic_straight_line_length
    if v.startswith("plaq_heuristic:"):
        l = S[v.split(":")[1] + ".lat"]
        return lambda a, b: pf.straight_line_length(l.plaquettes[a].center, l.plaquettes[b].center)
    if v.startswith("plaq_adjacency:"):
        l = S[v.split(":")[1] + ".lat"]
        return lambda a: graph_utils.adjacent_plaquettes(l, a)
    if v == "edges_of_vertex0":
        l = S[args["l"][1]]
        return np.array(l.vertices.adjacent_edges[0]).copy()
    if v == "voronoi":
        from scipy.spatial import Voronoi
        return Voronoi(voronization.generate_point_array(S["g.pts"].copy(), 1))
    raise ValueError(v)


def exec_step(S, step):
    """returns (result, exception-type-name or None)"""
    import importlib
    import matplotlib.pyplot as plt
    from koala.lattice import Lattice
    q = step["f"]
    mod, name = q.split(":")
    args = {k: resolve(S, a, step["args"]) for k, a in step["args"].items()}
    try:
        if name == "Lattice.__init__":
            r = Lattice(**args)
        elif name in ("Lattice.plaquettes", "Lattice.n_plaquettes", "Lattice.adjacency_matrix", "Lattice.as_csgraph"):
            r = getattr(args["self"], name.split(".")[1])
        elif name == "Edges.adjacent_plaquettes":
            r = args["self"].edges.adjacent_plaquettes
        elif name == "Vertices.adjacent_plaquettes":
            r = args["self"].vertices.adjacent_plaquettes
        elif name == "Lattice.__eq__":
            r = args["self"] == args["other"]
        elif name == "Lattice.__ne__":
            r = args["self"] != args["other"]
        elif name == "Lattice.__getstate__":
            r = args["self"].__getstate__()
        else:
            f = getattr(importlib.import_module("koala." + mod), name)
            r = f(**args)
        return r, None
    except Exception as e:  # operations may legitimately raise; the arguments must still be intact
        return None, type(e).__name__ + ": " + str(e)[:80]
    finally:
        plt.close("all")


def canon(r, S=None, depth=0):
    """canonical, comparable form of a result (public value only)"""
    if depth > 6:
        return ("deep",)
    if type(r).__name__ == "Lattice":
        return ("lattice", fp(r.vertices.positions), fp(r.edges.indices), fp(r.edges.crossing))
    if isinstance(r, (list, tuple)):
        return (type(r).__name__, tuple(canon(x, S, depth + 1) for x in r))
    if isinstance(r, dict):
        return ("dict", tuple((repr(k), canon(v, S, depth + 1)) for k, v in r.items()))
    if hasattr(r, "toarray"):
        return ("sparse", fp(np.asarray(r.toarray())))
    if callable(r) and not isinstance(r, type):
        try:
            return ("callable", fp(r(np.array([0.3, 1.1]))))
        except Exception as e:
            return ("callable-raises", type(e).__name__)
    return fp(r)


def result_arrays(r, depth=0):
    if depth > 4:
        return
    if isinstance(r, np.ndarray) and r.dtype != object:
        yield r
    elif isinstance(r, (list, tuple)):
        for x in r:
            yield from result_arrays(x, depth + 1)
    elif isinstance(r, np.ndarray):
        for x in r.ravel():
            yield from result_arrays(x, depth + 1)
    elif type(r).__name__ == "Lattice":
        yield r.vertices.positions
        yield r.edges.indices
        yield r.edges.crossing
    elif type(r).__name__ == "Plaquette":
        for k in ("vertices", "edges", "directions", "center"):
            yield getattr(r, k)


def shared_arrays(S):
    for k, v in S.items():
        if isinstance(v, np.ndarray) and v.dtype != object:
            yield k, v
        elif type(v).__name__ == "Lattice":
            yield k + ":positions", v.vertices.positions
            yield k + ":indices", v.edges.indices
            yield k + ":crossing", v.edges.crossing
            yield k + ":vectors", v.edges.vectors


def make_scenario(spec):
    return build_scenario(spec)


def gen_sequence(seed, i, only=None):
    """sequence i of the run: {"spec":..., "steps":[...]} (JSON-able, replays alone)"""
    rng = np.random.default_rng([seed, i, 1500])
    kinds = [LATTICE_KINDS[int(rng.integers(0, len(LATTICE_KINDS)))] for _ in range(2)]
    spec = {"seed": int(rng.integers(0, 2**31)), "kinds": kinds}
    S = make_scenario(spec)
    n = int(rng.integers(1, 31))
    names = sorted(OPS) if not only else sorted(only)
    steps = []
    for _ in range(n):
        q = names[int(rng.integers(0, len(names)))]
        T = "AB"[int(rng.integers(0, 2))]
        steps.append({"f": q, "tag": T, "args": OPS[q](S, T, rng)})
    return {"spec": spec, "steps": steps}


# ------------------------------------------------------------------------------ one sequence
def run_sequence(case, check_results=True):
    """returns a summary dict: per-function counters, violations (with minimal call sequences)"""
    spec, steps = case["spec"], case["steps"]
    out = {"calls": {}, "raised": {}, "violations": [], "alias": {}, "populated": 0, "steps": len(steps)}
    S = make_scenario(spec)
    before = fingerprint_all(S)
    for i, st in enumerate(steps):
        q = st["f"]
        out["calls"][q] = out["calls"].get(q, 0) + 1
        r, exc = exec_step(S, st)
        if exc:
            out["raised"][q] = out["raised"].get(q, 0) + 1
        after = fingerprint_all(S)
        changed, appeared = diff_fp(before, after)
        out["populated"] += len(appeared)
        if changed:
            # minimal call sequence: the call alone on fresh objects, else the prefix
            S1 = make_scenario(spec)
            b1 = fingerprint_all(S1)
            exec_step(S1, st)
            c1, _ = diff_fp(b1, fingerprint_all(S1))
            minimal = [st] if c1 else shrink(spec, steps[:i + 1])
            kind = "cached-attribute" if all("cached:" in k for k in changed) else "module-state" if all(k.startswith("module:") for k in changed) else "argument"
            out["violations"].append({"key": f"mutates:{q.split(':')[1]}:{kind}", "f": q,
                                      "what": f"{q} changed {changed[:4]} (step {i + 1} of {len(steps)}; fingerprints dtype/shape/flags/bytes differ after the call)",
                                      "case": {"spec": spec, "steps": minimal}})
            out["steps"] = i + 1
            break      # the shared objects are corrupted from here on: later differences are consequences, not new findings
        # aliasing without mutation: results sharing memory with shared arguments (reported, not a violation)
        if r is not None:
            sh = list(shared_arrays(S))
            for a in result_arrays(r):
                for k, v in sh:
                    if a is v or (a.size and v.size and np.shares_memory(a, v)):
                        key = q.split(":")[1] + " -> " + k.split(".", 1)[-1]
                        out["alias"][key] = out["alias"].get(key, 0) + 1
                        break
        if check_results:
            S2 = make_scenario(spec)
            r2, exc2 = exec_step(S2, st)
            same = (exc is None) == (exc2 is None) and (exc is not None or canon(r) == canon(r2))
            if not same:
                out["violations"].append({"key": f"history-dependent:{q.split(':')[1]}", "f": q,
                                          "what": f"{q} at step {i + 1}: result after the preceding calls differs from the result on fresh copies ({exc or 'value'} vs {exc2 or 'value'})",
                                          "case": {"spec": spec, "steps": steps[:i + 1]}})
            if appeared:
                a2 = fingerprint_all(S2)
                bad = [k for k in appeared if k in a2 and a2[k] != after[k]]
                if bad:
                    out["violations"].append({"key": f"cache-history-dependent:{q.split(':')[1]}", "f": q,
                                              "what": f"{q} at step {i + 1}: lazily computed {bad[:3]} populated with a value different from a fresh lattice's",
                                              "case": {"spec": spec, "steps": steps[:i + 1]}})
        before = after
    return out


def last_step_mutates(spec, steps):
    S = make_scenario(spec)
    for st in steps[:-1]:
        exec_step(S, st)
    b = fingerprint_all(S)
    exec_step(S, steps[-1])
    return bool(diff_fp(b, fingerprint_all(S))[0])


def shrink(spec, steps):
    """greedy: drop earlier steps while the last call still changes a fingerprint"""
    cur = list(steps)
    j = len(cur) - 2
    while j >= 0:
        cand = cur[:j] + cur[j + 1:]
        try:
            if last_step_mutates(spec, cand):
                cur = cand
        except Exception:
            pass
        j -= 1
    return cur


def _worker(job):
    seed, i, only = job
    try:
        case = gen_sequence(seed, i, only)
        o = run_sequence(case)
        o["i"] = i
        return o
    except Exception:
        return {"i": i, "error": traceback.format_exc()[-1500:], "calls": {}, "raised": {}, "violations": [], "alias": {}, "populated": 0, "steps": 0}


def analysis_verdicts(ctx):
    """run the extracted analysis: qual -> bool for every public / escaping entry"""
    info = _json.load(open(os.path.join(VERIF, "coq", "Gen", "effects_ir.json")))
    byidx = {f["index"]: f for f in info["functions"]}
    o = run_driver(ctx.exe["c15"], ["all"])[0]
    verdict = {}
    for k, v in o.items():
        _, kind, idx = k.split("_")
        verdict[byidx[int(idx)]["qual"]] = (kind, v[0] == "1")
    return info, verdict


def coq_crosscheck(ctx, info):
    """Extraction cross-check (DESIGN 1.3): the extracted analysis' answers are re-derived INSIDE Coq (vm_compute on the
    same Gen/EffectsIR.v) and must coincide: (a) the complete `all` answer (every public / extra / escaping entry, in
    order), (b) `mask f bits` for a random sample of functions x random taint masks (accepting AND rejecting answers:
    private helpers that write their formals are in the sample), (c) `written f` (which single formals may be written).
    A wrong extraction, a miscompiled model.ml or a driver / parsing bug makes coqc fail -> RuntimeError."""
    import xcheck as X
    exe = ctx.exe["c15"]
    fns = info["functions"]
    rng = np.random.default_rng([ctx.seed, 15, 99])
    nm, nw = (40, 20) if ctx.tier == "quick" else (240, 60)     # ~0.4 s per goal (each re-verifies the run-time-callable candidates)
    writers = [f for f in fns if f["has_write"]]
    body = []
    # (a) every entry, in the order of the three generated lists
    o = run_driver(exe, ["all"])[0]
    for kind, lname in (("public", "public_functions"), ("extra", "public_extra"), ("escaping", "escaping_functions")):
        ans = [(int(k.split("_")[2]), v[0] == "1") for k, v in o.items() if k.split("_")[1] == kind]
        body.append(X.goal(f"map (fun e => (fst e, no_arg_write_entry prog e)) {lname}", X.lst(X.pair(X.nat, X.boolean), ans)))
    # (b) random masks; half of the sample on functions that contain a Write statement
    qs = []
    for j in range(nm):
        f = (writers if (j % 2 and writers) else fns)[int(rng.integers(0, len(writers if (j % 2 and writers) else fns)))]
        np_ = len(f["params"])
        c = int(rng.integers(0, 4))
        mask = [True] * np_ if c == 0 else [False] * np_ if c == 1 else [bool(b) for b in rng.integers(0, 2, size=np_)]
        if c == 3 and np_:
            mask = [i == int(rng.integers(0, np_)) for i in range(np_)]
        qs.append((f["index"], mask))
    outs = run_driver(exe, ["mask %d %s" % (f, " ".join("1" if b else "0" for b in m)) for f, m in qs])
    n_rej = 0
    for (f, m), a in zip(qs, outs):
        b = a["verdict"][0] == "1"
        n_rej += not b
        body.append(X.goal(f"no_arg_write_mask prog {X.nat(f)} {X.lst(X.boolean, m)}", X.boolean(b)))
    # (c) written_params
    ws = [fns[int(i)]["index"] for i in rng.choice(len(fns), size=min(nw, len(fns)), replace=False)]
    outs = run_driver(exe, ["written %d" % f for f in ws])
    n_w = 0
    for f, a in zip(ws, outs):
        w = [int(t) for t in a["written"]]
        n_w += bool(w)
        body.append(X.goal(f"written_params prog {X.nat(f)}", X.natlist(w) if w else "(@nil nat)"))
    ctx.res.extra["extraction_crosscheck_goals_vm_compute"] = X.compile_goals("c15", "Model.Effects Gen.EffectsIR", body, "c15",
                                                                             stdlib="List Bool Arith ZArith")
    ctx.res.extra["extraction_crosscheck_mask_answers_rejecting"] = n_rej
    ctx.res.extra["extraction_crosscheck_written_answers_nonempty"] = n_w
    ctx.res.extra["extraction_crosscheck_wall_s"] = X.LAST_WALL


def sweep(ctx, n_seq, seed, only=None, label="run"):
    res = ctx.res
    jobs = [(seed, i, only) for i in range(n_seq)]
    with mp.get_context("fork").Pool(int(os.environ.get("VERIF_JOBS", "8"))) as pool:
        outs = pool.map(_worker, jobs, chunksize=4)
    calls, raised, alias, lens = {}, {}, {}, []
    mutated = {}
    for o in outs:
        if "error" in o:
            raise RuntimeError("sequence %d: %s" % (o["i"], o["error"]))
        lens.append(o["steps"])
        for d, src in ((calls, o["calls"]), (raised, o["raised"]), (alias, o["alias"])):
            for k, v in src.items():
                d[k] = d.get(k, 0) + v
        res.count("sequences/len<=10" if o["steps"] <= 10 else "sequences/len<=20" if o["steps"] <= 20 else "sequences/len<=30",
                  digest([seed, o["i"]]) if o["steps"] >= 2 else None)
        res.traces += o["steps"]
        res.extra["cache_populations_checked"] = res.extra.get("cache_populations_checked", 0) + o["populated"]
        diag = res.extra.get("analysis_diagnostics", {})
        for v in o["violations"]:
            d = diag.get(v["f"])
            if isinstance(d, dict) and v["key"].startswith("mutates:"):
                v["what"] += f" | static analysis: write through `{d['var']}` at koala/{d['module'].replace('.', '/')}.py:{d['line']} (chain {' -> '.join(d['chain'])})"
            res.violation(v["key"], v["what"], v["case"])
            if v["key"].startswith("mutates:"):
                mutated.setdefault(v["f"], v)
    return calls, raised, alias, lens, mutated


# ------------------------------------------------------------------------------ check entry points
def report(ctx, calls, raised, alias, lens, mutated, info, verdict, label):
    res = ctx.res
    core_public = sorted(f["qual"] for f in info["functions"] if f["public"] and f["core"])
    res.extra["public_functions_analysed"] = len(core_public)
    res.extra["public_extra_analysed"] = len([f for f in info["functions"] if f["public"] and not f["core"]])
    res.extra["escaping_functions_analysed"] = info["escaping"]
    res.extra["ir_functions"] = len(info["functions"])
    res.extra["ir_statements"] = sum(f["nstmts"] for f in info["functions"])
    res.extra["functions_with_write_statements"] = sorted(f["qual"].split(":")[1] for f in info["functions"] if f["has_write"])
    res.extra["analysis_rejects"] = sorted(q for q, (k, ok) in verdict.items() if not ok)
    res.extra["translator_notes"] = info["notes"]
    res.extra["translator_excluded"] = info["excluded"]
    res.extra[label + "_calls_per_function"] = calls
    res.extra[label + "_raised_per_function"] = raised
    res.extra["public_functions_not_exercised_dynamically"] = sorted(set(core_public) - set(calls) - set(res.extra.get("_seen", [])))
    res.extra["_seen"] = sorted(set(res.extra.get("_seen", [])) | set(calls))
    res.extra["aliasing_without_mutation(result shares memory with an argument)"] = alias
    if lens:
        res.extra[label + "_sequence_length_histogram"] = {str(k): lens.count(k) for k in sorted(set(lens))}
    # K: analysis verdict vs observation
    esc_rejected = [q for q, (k, ok) in verdict.items() if not ok]
    for q, v in mutated.items():
        kind, ok = verdict.get(q, ("?", False))
        # a function is vouched for only by the conjunction koala_pure (public + escaping closures): when the
        # analysis already rejects something, an observed mutation elsewhere is attributed to that, not to the table
        if ok and not esc_rejected:
            ctx.k_mismatch(f"effect analysis accepts {q} (no argument write) but the dynamic run observed a mutation: {v['what']} — the trusted classification table is wrong for this code", v["case"])
    res.extra["K_analysis_vs_dynamic"] = {"pure_by_analysis_and_never_observed_mutating": len([q for q in calls if verdict.get(q, ("", False))[1] and q not in mutated]),
                                          "rejected_by_analysis": [q for q in calls if not verdict.get(q, ("", True))[1]],
                                          "observed_mutating": sorted(mutated)}


def diagnose(ctx, info, verdict):
    """for every function the (Coq) analysis rejects: the offending write (call chain, variable, source line)
    from the Python mirror translate/effects_debug.py; recorded in the evidence and in the replay file"""
    rejected = sorted(q for q, (k, ok) in verdict.items() if not ok)
    if not rejected or ctx.res.extra.get("analysis_diagnostics"):
        return
    out = {}
    try:
        sys.path.insert(0, os.path.join(VERIF, "translate"))
        import effects_ir, effects_debug
        w, bodies, idx, finfo = effects_ir.translate_all()
        A = effects_debug.Analysis(w, bodies, finfo)
        byq = {f["qual"]: f for f in finfo}
        for q in rejected:
            fi = byq[q]
            r = A.check(q, None if fi["public"] else [True] * len(fi["params"]))
            out[q] = r or "python mirror accepts (disagrees with Coq!)"
    except Exception as e:
        out["error"] = repr(e)
    ctx.res.extra["analysis_diagnostics"] = out
    for q, r in out.items():
        if isinstance(r, dict):
            ctx.k_mismatch(f"effect analysis rejects {q}: possible write to an argument-reachable object through variable `{r['var']}` at "
                           f"koala/{r['module'].replace('.', '/')}.py:{r['line']} (call chain {' -> '.join(r['chain'])})", None)
        else:
            ctx.k_mismatch(f"effect analysis rejects {q}: {r}", None)


def run(ctx):
    res = ctx.res
    res.rule = ("random call sequences (length 1..30) over every public function of lattice, graph_utils, graph_color, flux_finder, hamiltonian, phase_space, "
                "chern_number, voronization, plotting on two shared lattices (11 kinds: honeycomb, Voronoi +/- shift, cuts, square, ladder, hex-square-oct, tutte ...) and shared "
                "argument arrays (bond variables int/int8/float, colourings, couplings, flux targets, point sets, index arrays and lists, permutations, colour schemes, closures); "
                "fingerprints (dtype, shape, flags, bytes; lattice: defining arrays, eager fields, every populated cached attribute; module-level defaults) before/after each call; "
                "every step re-evaluated on fresh copies.  non-trivial = sequence of length >= 2")
    info, verdict = analysis_verdicts(ctx)
    diagnose(ctx, info, verdict)
    try:
        coq_crosscheck(ctx, info)
    except RuntimeError as e:
        # the in-Coq re-evaluation disagrees with the driver (or coqc failed): a broken obligation, reported as such; the
        # dynamic runs below still decide the property on the implementation
        ctx.k_mismatch("extraction cross-check failed: " + str(e)[:600], {"kind": "xcheck"})
    n = 600 if ctx.tier == "quick" else 5000
    calls, raised, alias, lens, mutated = sweep(ctx, n, ctx.seed)
    report(ctx, calls, raised, alias, lens, mutated, info, verdict, "run")
    seq0 = gen_sequence(ctx.seed, 0)
    res.sample({"sequence_0": {"spec": seq0["spec"], "steps": [s["f"] + "(" + ", ".join(f"{k}={v[1]}" for k, v in s["args"].items()) + ")" for s in seq0["steps"][:6]]}})


def search(ctx):
    """a proof / the analysis / K broke: concentrate the sequences on the functions the analysis
    rejects (and their callers), bigger budget, other seed"""
    info, verdict = analysis_verdicts(ctx)
    rejected = [q for q, (k, ok) in verdict.items() if not ok and q in OPS]
    n = 400 if ctx.tier == "quick" else 3000
    if rejected:
        calls, raised, alias, lens, mutated = sweep(ctx, n // 2, ctx.seed + 1, only=rejected, label="search")
        report(ctx, calls, raised, alias, lens, mutated, info, verdict, "search_focused")
        if ctx.res.violations:
            return
    calls, raised, alias, lens, mutated = sweep(ctx, n, ctx.seed + 2)
    report(ctx, calls, raised, alias, lens, mutated, info, verdict, "search")


def replay(ctx, payload):
    case = payload["case"] if "case" in payload else payload
    o = run_sequence(case)
    ctx.res.count("replay", digest(case))
    ctx.res.traces += o["steps"]
    for v in o["violations"]:
        ctx.res.violation(v["key"], v["what"], v["case"])
