"""Shared harness library: exact serialisation, driver I/O, lattice generators,
result/evidence bookkeeping, known findings."""
import json, os, subprocess, sys, time, math, hashlib, itertools, warnings
from fractions import Fraction

VERIF = os.path.dirname(os.path.dirname(os.path.abspath(__file__)))
os.environ.setdefault("PYTHONHASHSEED", "0")
os.environ.setdefault("MPLBACKEND", "Agg")
REPO = os.environ.get("KOALA_REPO", "/repo")
sys.path.insert(0, os.path.join(REPO, "src"))
import numpy as np

warnings.filterwarnings("ignore")
INVALID = np.iinfo(int).max


# ---------------------------------------------------------------- exact numbers
def hx(n):
    n = int(n)
    return format(n, "x") if n >= 0 else "-" + format(-n, "x")


def unhx(s):
    return int(s, 16)


def common_scale(arr):
    """smallest power of two S such that every float in arr times S is an integer"""
    k = 0
    for x in np.asarray(arr, dtype=float).ravel():
        x = float(x)
        if not math.isfinite(x):
            raise ValueError("non-finite position")
        d = x.as_integer_ratio()[1]
        k = max(k, d.bit_length() - 1)
    return 1 << k


def scaled_ints(arr, S):
    return [[int(Fraction(float(x)) * S) for x in row] for row in np.asarray(arr, dtype=float)]


def ser_lattice_arrays(positions, edges, crossing):
    positions = np.asarray(positions, dtype=float).reshape(-1, 2)
    edges = np.asarray(edges).reshape(-1, 2)
    crossing = np.asarray(crossing).reshape(-1, 2)
    S = common_scale(positions)
    P = scaled_ints(positions, S)
    toks = [hx(S), str(len(P))]
    for x, y in P:
        toks += [hx(x), hx(y)]
    toks.append(str(len(edges)))
    for j, k in edges:
        toks += [str(int(j)), str(int(k))]
    toks.append(str(len(crossing)))
    for a, b in crossing:
        toks += [hx(int(a)), hx(int(b))]
    return " ".join(toks), S


def ser_lattice(lat):
    return ser_lattice_arrays(lat.vertices.positions, lat.edges.indices, lat.edges.crossing)


# ---------------------------------------------------------------- driver I/O
class Cursor:
    def __init__(self, toks):
        self.t, self.i = toks, 0

    def next(self):
        x = self.t[self.i]
        self.i += 1
        return x

    def int(self):
        return int(self.next())

    def z(self):
        return unhx(self.next())

    def onat(self):
        x = self.next()
        return None if x == "N" else int(x)

    def list(self, f):
        n = self.int()
        return [f() for _ in range(n)]

    def done(self):
        return self.i >= len(self.t)


def run_driver(exe, lines, timeout=3000):
    """Feed case lines to an extracted-model driver; returns a list (one per case) of
    dicts key -> token list."""
    if not lines:
        return []
    p = subprocess.run([exe], input="\n".join(lines) + "\n", stdout=subprocess.PIPE,
                       stderr=subprocess.PIPE, text=True, timeout=timeout)
    if p.returncode != 0:
        raise RuntimeError(f"driver {exe} failed: {p.stderr[-2000:]}")
    out, cur = [], {}
    for ln in p.stdout.splitlines():
        if ln == "end":
            out.append(cur)
            cur = {}
        else:
            k, _, v = ln.partition(" ")
            cur[k] = v.split()
    if len(out) != len(lines):
        raise RuntimeError(f"driver {exe}: {len(out)} answers for {len(lines)} cases")
    return out


def run_driver_parallel(exe, lines, jobs=8, timeout=3000):
    if len(lines) < 4 * jobs:
        return run_driver(exe, lines, timeout)
    from concurrent.futures import ThreadPoolExecutor
    chunks = [lines[i::jobs] for i in range(jobs)]
    with ThreadPoolExecutor(jobs) as ex:
        res = list(ex.map(lambda c: run_driver(exe, c, timeout), chunks))
    out = [None] * len(lines)
    for i, r in enumerate(res):
        out[i::jobs] = r
    return out


# ---------------------------------------------------------------- margins (genericity)
def angular_margin(lat):
    """smallest |sin| of the angle between two edges leaving a common vertex, and smallest
    distance of an outgoing direction from the 12 o'clock branch cut; a lattice whose
    margin is tiny is 'non-generic' (float arctan2 ordering may legitimately differ from
    the exact one) and is skipped, as the property's genericity clause allows."""
    pos, idx, vec = lat.vertices.positions, lat.edges.indices, lat.edges.vectors
    m = 1.0
    for v in range(lat.n_vertices):
        es = np.nonzero((idx[:, 0] == v) | (idx[:, 1] == v))[0]
        out = []
        for e in es:
            w = vec[e] if idx[e, 0] == v else -vec[e]
            n = np.hypot(*w)
            if n == 0:
                return 0.0
            out.append(w / n)
        for w in out:
            if w[1] > 0:
                m = min(m, abs(w[0]) if w[0] != 0 else 1.0)  # exact 12 o'clock is fine; near is not
        for a, b in itertools.combinations(out, 2):
            if a @ b > 0:
                m = min(m, abs(a[0] * b[1] - a[1] * b[0]))
    return m


# ---------------------------------------------------------------- results / evidence
class Result:
    def __init__(self, prop, tier, seed):
        self.prop, self.tier, self.seed = prop, tier, seed
        self.t0 = time.time()
        self.evaluations = 0
        self.nontrivial_keys = set()
        self.samples = []
        self.violations = []      # dicts: key, what, replay
        self.known = []
        self.skipped = {}
        self.hist = {}
        self.extra = {}
        self.traces = 0
        self.rule = ""

    def count(self, family, nontrivial_key=None):
        self.evaluations += 1
        self.hist[family] = self.hist.get(family, 0) + 1
        if nontrivial_key is not None:
            self.nontrivial_keys.add(nontrivial_key)

    def skip(self, why):
        self.skipped[why] = self.skipped.get(why, 0) + 1

    def sample(self, s, cap=4):
        if len(self.samples) < cap:
            self.samples.append(s)

    def violation(self, key, what, case=None):
        self.violations.append({"key": key, "what": what, "case": case})


def load_known_findings():
    path = os.path.join(VERIF, "known_findings.txt")
    out = []
    if os.path.exists(path):
        for ln in open(path):
            ln = ln.strip()
            if ln.startswith("finding:"):
                d = dict(kv.split("=", 1) for kv in ln.split()[1:3])
                out.append({"property": d["property"], "key": d["key"], "text": ln})
    return out


def digest(obj):
    return hashlib.sha1(json.dumps(obj, sort_keys=True, default=str).encode()).hexdigest()[:12]


def jsonable(x):
    if isinstance(x, np.ndarray):
        return x.tolist()
    if isinstance(x, (np.integer,)):
        return int(x)
    if isinstance(x, (np.floating,)):
        return float(x)
    if isinstance(x, Fraction):
        return str(x)
    if isinstance(x, dict):
        return {str(k): jsonable(v) for k, v in x.items()}
    if isinstance(x, (list, tuple)):
        return [jsonable(v) for v in x]
    if isinstance(x, (set, frozenset)):
        return sorted(jsonable(v) for v in x)
    return x


# ---------------------------------------------------------------- memory layout of argument arrays
def layout_variant(pos, edges, crossing):
    """The memory layout of an array is not part of its value: the same lattice handed to koala as C-ordered,
    Fortran-ordered (koala's own n_ladder builds such edge arrays) or as non-contiguous strided views must
    behave identically.  Returns fresh arrays in a layout chosen deterministically from the content (so that
    a failure replays) together with the layout's name."""
    pos, edges, crossing = np.asarray(pos), np.asarray(edges), np.asarray(crossing)
    lay = int(digest([pos.tolist(), edges.tolist()]), 16) % 4
    if lay == 1:
        return np.asfortranarray(pos.copy()), np.asfortranarray(edges.copy()), np.asfortranarray(crossing.copy()), "F"
    if lay == 2:
        def strided(a):
            if a.ndim != 2:
                return a.copy()
            big = np.zeros((a.shape[0], 2 * a.shape[1]), dtype=a.dtype)
            big[:, ::2] = a
            return big[:, ::2]
        return strided(pos), strided(edges), strided(crossing), "strided"
    return pos.copy(), edges.copy(), crossing.copy(), "C"
