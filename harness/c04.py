"""C04 — SAT-based edge colouring, vertex colouring and dimerisation are sound, complete and exact;
color_lattice fixes the edges at vertex 0 in the order of clockwise_edges_about.

S  : the property restated in Python on every value koala returns (validity, UNSAT verdicts and
     enumeration counts against the extracted INDEPENDENT backtracking counter of Model/Color.v).
K  : (i) the clauses koala hands to pysat (captured at the library boundary by a recording subclass
     of pysat.solvers.Solver, no change to /repo) are, as a SET, the model's formula;
     (ii) the extracted proved checkers valid_*b agree with the Python restatement on koala's outputs,
     the encoding of every returned assignment satisfies the model's formula, and the three
     solver-free routes of the model (backtracking, brute force through the formula, the model's
     end-to-end functions run with brute force as the solver) agree with koala's enumeration;
     (iii) the recorded CardEnc / solver behaviour is the contract assumed by the theorems."""
import itertools
import pysat.solvers as _ps
from lib import *  # noqa

# ------------------------------------------------------------------ recording solver (library boundary)
_RealSolver = _ps.Solver


class Spy:
    log = None
    limit = None      # max number of models the enumeration may yield during this call


class EnumOverflow(Exception):
    """the implementation asked pysat for more models than valid assignments exist (runaway enumeration)"""


def _as_clauses(formula):
    return [[int(x) for x in c] for c in formula]


class SpySolver(_RealSolver):
    def __init__(self, *a, **kw):
        bw = kw.get("bootstrap_with", a[1] if len(a) > 1 else None)
        if bw is not None and Spy.log is not None:
            Spy.log["clauses"] += _as_clauses(bw)
        super().__init__(*a, **kw)

    def append_formula(self, formula, no_return=True):
        cls = _as_clauses(formula)
        if Spy.log is not None:
            Spy.log["clauses"] += cls
        return super().append_formula(cls, no_return)

    def add_clause(self, clause, no_return=True):
        if Spy.log is not None:
            Spy.log["clauses"].append([int(x) for x in clause])
        return super().add_clause(clause, no_return)

    def solve(self, *a, **kw):
        r = super().solve(*a, **kw)
        if Spy.log is not None:
            Spy.log["solve"].append(bool(r))
        return r

    def get_model(self):
        m = super().get_model()
        if Spy.log is not None and m is not None:
            Spy.log["models"].append(list(m))
        return m

    def enum_models(self, *a, **kw):
        for m in super().enum_models(*a, **kw):
            if Spy.log is not None:
                Spy.log["enum"].append(list(m))
                if Spy.limit is not None and len(Spy.log["enum"]) > Spy.limit:
                    raise EnumOverflow(f"more than {Spy.limit} models enumerated")
            yield m


_ps.Solver = SpySolver
import koala.graph_color as gc      # noqa: E402
import koala.graph_utils as gu      # noqa: E402
from koala.lattice import Lattice   # noqa: E402
import gen                          # noqa: E402

for _m in (gc, gu):
    if getattr(_m, "Solver", None) is _RealSolver:
        _m.Solver = SpySolver

DRIVERS = ("c04",)
MODEL_TARGETS = ["Model/Cnf.vo", "Model/Color.vo"]
TARGETS = ["Proofs/CnfFacts.vo", "Proofs/ColorFacts.vo", "Proofs/ColorCount.vo"]
LEVEL = "proof"
TRUST = [
    "SAT solver (glucose3 through pysat.solvers.Solver): Section variables solve/get_model/enum_models of Proofs/ColorFacts.v with the contract "
    "'solve f = true iff a total model over 1..maxvar f exists; get_model f is one; enum_models f lists every total model over 1..maxvar f exactly once' — "
    "exercised on every run (each recorded model is checked against the recorded clauses; enumeration lengths against the independent counter)",
    "CardEnc.equals(lits, bound=1, encoding=pairwise) = [lits] ++ [[-a,-b] for a<b], no auxiliary variables (Model/Cnf.v equals1): compared with pysat's real output on every run",
    "hand-written Gallina model coq/Model/Color.v of graph_color.py / graph_utils.dimerise (variable numbering, clause generation, argmax decoding): modelled, not verified; "
    "tied to the code by the clause-set comparison at the pysat boundary and by the result-level comparison",
    "clockwise_edges_about(0, lattice) is an input of the model's color_lattice (the property names the library's own query as the reference order); its float arctan2 ordering is not modelled",
]
ASSUMPTIONS = ["n_colors >= 1; fixed (colour, edge) pairs inside [0,n_colors) x [0,n_edges) (numpy would raise or wrap otherwise)",
               "vertex_color: non-empty adjacency list (the function documents that every vertex must appear in it; np.max of an empty array raises)",
               "color_lattice: vertex 0 has at most three incident edges (it fixes colours 0,1,2 and is documented for 3-colourings)"]

CAP_ENUM = 4000          # all-solutions mode is exercised only when the independent count is <= this
CAP_COUNT = 400_000      # the counter is asked for an exact count only when n^k <= this


# ------------------------------------------------------------------ the property, restated in Python (S)
def edge_col_bad(edges, n, fixed, c):
    E = len(edges)
    if len(c) != E:
        return f"{len(c)} labels for {E} edges"
    for x in c:
        if not (0 <= x < n):
            return f"colour {x} outside 0..{n - 1}"
    at = {}
    for e, (u, v) in enumerate(edges):
        for w in {u, v}:
            if c[e] in at.setdefault(w, {}):
                return f"edges {at[w][c[e]]} and {e} meet at vertex {w} with the same colour {c[e]}"
            at[w][c[e]] = e
    for col, e in fixed:
        if c[e] != col:
            return f"edge {e} was fixed to colour {col} but got {c[e]}"
    return None


def vertex_col_bad(adj, n, c):
    nv = max(max(u, v) for u, v in adj) + 1
    if len(c) != nv:
        return f"{len(c)} labels for {nv} vertices"
    for x in c:
        if not (0 <= x < n):
            return f"colour {x} outside 0..{n - 1}"
    for u, v in adj:
        if c[u] == c[v]:
            return f"joined vertices {u},{v} share colour {c[u]}"
    return None


def dimer_bad(nv, edges, d):
    if len(d) != len(edges):
        return f"{len(d)} entries for {len(edges)} edges"
    for x in d:
        if x not in (0, 1):
            return f"entry {x} is not 0/1"
    for v in range(nv):
        k = sum(d[e] for e, (a, b) in enumerate(edges) if a == v or b == v)
        if k != 1:
            return f"vertex {v} touches {k} dimers"
    return None


# ------------------------------------------------------------------ graphs -> lattices
def positions_for(nv, salt=0):
    """deterministic generic positions (edge_color / dimerise use only the combinatorics)"""
    k = np.arange(nv)
    ang = 2 * np.pi * (k * 0.61803398875 + 0.137 * (salt % 7))
    r = 0.18 + 0.25 * ((k * 0.7548776662) % 1)
    return np.stack([0.5 + r * np.cos(ang), 0.5 + r * np.sin(ang)], axis=1)


def lattice_of(case):
    if case["kind"] == "graph":
        nv, edges = case["nv"], case["edges"]
        e = np.array(edges, dtype=int).reshape(-1, 2)
        return Lattice(positions_for(nv, len(edges)), e, np.zeros_like(e))
    p, e, c = gen.build(case["gen"])
    if case.get("truncate"):
        lat = gu.vertices_to_polygon(Lattice(p, e, c))
        return lat
    return Lattice(p, e, c)


def graph_of(case, lat):
    return lat.n_vertices, [[int(a), int(b)] for a, b in np.asarray(lat.edges.indices).reshape(-1, 2)]


def ser_edges(edges):
    return f"{len(edges)} " + " ".join(f"{u} {v}" for u, v in edges) if edges else "0"


def ser_pairs(ps):
    return f"{len(ps)} " + " ".join(f"{a} {b}" for a, b in ps) if ps else "0"


def ser_list(l):
    return f"{len(l)} " + " ".join(str(int(x)) for x in l) if len(l) else "0"


def parse_cnf(toks):
    c = Cursor(toks)
    return c.list(lambda: c.list(lambda: c.z()))


def parse_cols(toks):
    c = Cursor(toks)
    return [tuple(x) for x in c.list(lambda: c.list(c.int))]


def parse_result(toks):
    if toks[0] in ("U", "I"):
        return toks[0], None
    if toks[0] == "S":
        c = Cursor(toks[1:])
        return "S", tuple(c.list(c.int))
    return "M", parse_cols(toks[1:])


def clause_set(cls):
    return {frozenset(c) if len(c) else frozenset(["EMPTY"]) for c in cls}


# ------------------------------------------------------------------ running koala under the recorder
def spy_call(f, *a, limit=None, **kw):
    Spy.log = {"clauses": [], "models": [], "enum": [], "solve": []}
    Spy.limit = limit
    try:
        try:
            r = f(*a, **kw)
            return ("ok", r), Spy.log
        except Exception as e:  # noqa
            return ("exc", e), Spy.log
    finally:
        Spy.log = None
        Spy.limit = None


def solver_contract_bad(log):
    """the run-time face of the Section-variable contract: every model handed back satisfies the clauses
    handed in, is the list [±1..±N] with N the largest variable mentioned, and enumeration has no repeats"""
    cls = log["clauses"]
    N = max((abs(x) for c in cls for x in c), default=0)
    ms = log["models"] + log["enum"]
    if not ms:
        return None
    for m in ms:
        if len(m) != N:
            return f"model {m[:8]}.. is not a total assignment over 1..{N}"
    if N == 0:
        return "empty clause satisfied" if any(len(c) == 0 for c in cls) else None
    M = np.array(ms, dtype=np.int64)
    if not np.all(np.abs(M) == np.arange(1, N + 1)):
        return f"a model is not of the form [±1..±{N}]"
    for c in cls:
        if not c:
            return "a model was returned although an empty clause was added"
        ca = np.array(c, dtype=np.int64)
        if not np.all((M[:, np.abs(ca) - 1] == ca).any(axis=1)):
            return f"a returned model violates clause {c}"
    if len({tuple(m) for m in log["enum"]}) != len(log["enum"]):
        return "enum_models repeated a model"
    return None


def equivalent_by_entailment(captured, model_cnf, N, max_diff=4000):
    """First fallback of K(i) when the clause sets differ syntactically but no variable beyond the reserved
    1..N is used: the two formulas are logically equivalent (hence have the same total models, hence the same
    enumeration) iff each clause of one is entailed by the other.  Decided with the real solver under
    assumptions, independently of koala."""
    if any(abs(x) > N for c in captured for x in c):
        return False
    a, b = clause_set(captured), clause_set(model_cnf)
    if len(a ^ b) > max_diff:
        return False

    def entails(cls, others):
        if any(len(c) == 0 for c in cls):
            return True
        with _RealSolver(name="g3", bootstrap_with=[list(c) for c in cls]) as s:
            if not s.solve():
                return True
            for c in others:
                if "EMPTY" in c:
                    return False
                if s.solve(assumptions=[-x for x in c]):
                    return False
        return True
    return entails(captured, b - a) and entails(model_cnf, a - b)


def projected_models_equal(captured, model_cnf, N, limit):
    """Fallback of K(i) when the clause sets differ syntactically (e.g. another cardinality encoding with
    auxiliary variables): are the two formulas equivalent on the reserved variables 1..N, with every
    projected model having exactly one extension (so that enumeration stays exact)?  Decided by enumerating
    both with the real solver, independently of koala; only attempted when at most `limit` models exist."""
    def models(cls):
        out = []
        with _RealSolver(name="g3", bootstrap_with=[list(c) for c in cls]) as s:
            for i, m in enumerate(s.enum_models()):
                if i > limit:
                    return None
                m = list(m) + [-(v + 1) for v in range(len(m), N)] if len(m) < N else list(m)
                out.append(tuple(m[:N]))
        return out
    a, b = models(captured), models(model_cnf)
    if a is None or b is None:
        return False
    return len(set(a)) == len(a) and set(a) == set(b)


def coq_crosscheck(ctx, items):
    """Guard against a wrong Extract directive / driver bug vouching for the model: a sample of the driver's
    answers (formula, backtracking count) is re-derived INSIDE Coq by vm_compute and must coincide."""
    import subprocess, tempfile
    if not items:
        return
    def znat(x):
        return f"{x}%nat"
    def zedges(es):
        return "[" + "; ".join(f"({znat(u)}, {znat(v)})" for u, v in es) + "]"
    def zcnf(f):
        return "[" + "; ".join("[" + "; ".join(str(x) if x >= 0 else f"({x})" for x in c) + "]" for c in f) + "]"
    body = ["From Coq Require Import List ZArith.", "From Koala Require Import Model.Cnf Model.Color.",
            "Import ListNotations.", "Open Scope Z_scope."]
    for kind, nv, edges, n, fixed, cnf, count in items:
        if kind == "ec":
            fx = "[" + "; ".join(f"({znat(a)}, {znat(b)})" for a, b in fixed) + "]"
            body.append(f"Goal edge_color_cnf {zedges(edges)} {znat(n)} {fx} = Some {zcnf(cnf)}. Proof. vm_compute. reflexivity. Qed.")
            body.append(f"Goal count_edge_colourings {zedges(edges)} {znat(n)} {fx} = {count}. Proof. vm_compute. reflexivity. Qed.")
        elif kind == "vc":
            body.append(f"Goal vertex_color_cnf {zedges(edges)} {znat(n)} = Some {zcnf(cnf)}. Proof. vm_compute. reflexivity. Qed.")
            body.append(f"Goal count_vertex_colourings {zedges(edges)} {znat(n)} = {count}. Proof. vm_compute. reflexivity. Qed.")
        else:
            body.append(f"Goal dimer_cnf {znat(nv)} {zedges(edges)} = {zcnf(cnf)}. Proof. vm_compute. reflexivity. Qed.")
            body.append(f"Goal count_dimerisations {znat(nv)} {zedges(edges)} = {count}. Proof. vm_compute. reflexivity. Qed.")
    d = tempfile.mkdtemp(prefix="c04x", dir="/var/tmp")
    try:
        path = os.path.join(d, "c04_xcheck.v")
        with open(path, "w") as fh:
            fh.write("\n".join(body) + "\n")
        p = subprocess.run(["timeout", "600", "coqc", "-Q", os.path.join(VERIF, "coq"), "Koala", path], cwd=d,
                           stdout=subprocess.PIPE, stderr=subprocess.STDOUT, text=True)
        if p.returncode != 0:
            raise RuntimeError("extraction cross-check: the driver's answer is not what vm_compute gives inside Coq: " + p.stdout[-800:])
        ctx.res.extra["extraction_crosscheck_goals_in_coq"] = 2 * len(items)
    finally:
        import shutil
        shutil.rmtree(d, ignore_errors=True)


# ------------------------------------------------------------------ case expansion
def ops_for_graph(nv, edges, rng, colours, with_cl, tier):
    """the calls made on one graph: list of op dicts"""
    E = len(edges)
    ops = []
    for n in colours:
        ops.append({"f": "ec", "n": n, "mode": "single", "fixed": []})
        ops.append({"f": "ec", "n": n, "mode": "all", "fixed": []})
        ops.append({"f": "ec", "n": n, "mode": "first", "j": int(rng.integers(1, 4)), "fixed": []})
        if E:
            # fixed colours: one or two pairs; the LAST edge is fixed in about half of the cases
            k = int(rng.integers(1, 3))
            fx = []
            for t in range(k):
                e = E - 1 if (t == 0 and rng.uniform() < 0.5) else int(rng.integers(0, E))
                fx.append([int(rng.integers(0, n)), e])
            ops.append({"f": "ec", "n": n, "mode": "single", "fixed": fx})
            ops.append({"f": "ec", "n": n, "mode": "all", "fixed": fx})
            ops.append({"f": "ec", "n": n, "mode": "first", "j": int(rng.integers(1, 6)), "fixed": fx})
            ops.append({"f": "vc", "n": n, "all": False})
            ops.append({"f": "vc", "n": n, "all": True})
    ops.append({"f": "dm", "ns": 1})
    ops.append({"f": "dm", "ns": int(rng.integers(2, 5))})
    ops.append({"f": "dm", "ns": None})
    if with_cl:
        ops.append({"f": "cl"})
    return ops


def simple_graph_cases(nv, masks=None):
    pairs = list(itertools.combinations(range(nv), 2))
    out = []
    for mask in (range(1 << len(pairs)) if masks is None else masks):
        edges = [list(pairs[i]) for i in range(len(pairs)) if (mask >> i) & 1]
        out.append({"kind": "graph", "family": f"simple{nv}", "nv": nv, "edges": edges, "id": mask})
    return out


def multigraph_cases(nv, max_edges, loops, rng, limit=None):
    """all multisets of <= max_edges pairs on nv labelled vertices (self-loops optional), each with a random
    edge order and random edge orientation (the code is not symmetric in those)"""
    pairs = list(itertools.combinations(range(nv), 2)) + ([(i, i) for i in range(nv)] if loops else [])
    allm = []
    for k in range(1, max_edges + 1):
        for ms in itertools.combinations_with_replacement(range(len(pairs)), k):
            if len(set(ms)) == len(ms) and not any(pairs[i][0] == pairs[i][1] for i in ms):
                continue  # simple graphs are covered by simple_graph_cases
            allm.append(ms)
    if limit is not None and len(allm) > limit:
        idx = rng.choice(len(allm), size=limit, replace=False)
        allm = [allm[i] for i in sorted(idx)]
    out = []
    for ms in allm:
        edges = [list(pairs[i]) for i in ms]
        order = rng.permutation(len(edges))
        edges = [edges[i] if rng.uniform() < 0.5 else edges[i][::-1] for i in order]
        out.append({"kind": "graph", "family": f"multi{nv}" + ("loops" if loops else ""), "nv": nv, "edges": edges})
    return out


def random_graph_cases(rng, count):
    out = []
    for i in range(count):
        nv = int(rng.integers(6, 10))
        style = i % 4
        pairs = list(itertools.combinations(range(nv), 2))
        if style == 0:      # sparse
            m = int(rng.integers(nv - 2, nv + 2))
        elif style == 1:    # cubic-ish
            m = (3 * nv) // 2
        elif style == 2:    # dense
            m = int(rng.integers(2 * nv, min(len(pairs), 3 * nv) + 1))
        else:               # multigraph
            m = int(rng.integers(nv, 2 * nv))
        if style == 3:
            idx = rng.integers(0, len(pairs), size=m)
        else:
            idx = rng.choice(len(pairs), size=min(m, len(pairs)), replace=False)
        edges = [list(pairs[j]) if rng.uniform() < 0.5 else list(pairs[j])[::-1] for j in idx]
        out.append({"kind": "graph", "family": "random6-9", "nv": nv, "edges": edges})
    return out


def lattice_family_cases(tier, rng):
    out = []
    ex = [("honeycomb_lattice", [1]), ("honeycomb_lattice", [2]), ("honeycomb_lattice", [3]), ("tutte_graph", []),
          ("hex_square_oct_lattice", [1]), ("hex_square_oct_lattice", [2]), ("tri_non_lattice", [1]), ("tri_non_lattice", [2]),
          ("star_lattice_sheared", []), ("two_triangles", []), ("tri_square_pent", []), ("bridge_graph", []), ("multi_graph", []),
          ("square_lattice", [2, 2]), ("n_ladder", [4, True]), ("single_plaquette", [6])]
    if tier != "quick":
        ex += [("honeycomb_lattice", [n]) for n in (4, 6, 8)] + [("hex_square_oct_lattice", [3]), ("tri_non_lattice", [3]),
                                                                  ("square_lattice", [3, 4]), ("n_ladder", [9, False])]
    for name, args in ex:
        out.append({"kind": "lattice", "family": "example", "gen": {"family": "example", "name": name, "args": args}})
    nvor = 14 if tier == "quick" else 120
    nmax = 60 if tier == "quick" else 200
    for i in range(nvor):
        n = int(rng.integers(2, 9)) if i % 3 == 0 else int(rng.integers(2, nmax + 1))
        g = {"family": "voronoi", "style": gen.POINT_STYLES[i % len(gen.POINT_STYLES)], "n": n,
             "seed": int(rng.integers(0, 2**31)), "shift": bool(i % 2)}
        out.append({"kind": "lattice", "family": "voronoi", "gen": g})
        if i % 5 == 0 and n <= 40:
            out.append({"kind": "lattice", "family": "truncated", "gen": g, "truncate": True})
        if i % 7 == 0:
            out.append({"kind": "lattice", "family": "voronoi-cut", "gen": {"family": "cut", "base": g, "cut": [True, i % 2 == 0]}})
    for name, args in [("honeycomb_lattice", [2]), ("square_lattice", [2, 2])]:
        out.append({"kind": "lattice", "family": "truncated", "truncate": True,
                    "gen": {"family": "example", "name": name, "args": args}})
    return out


def ops_for_lattice(nv, edges, rng):
    """cubic lattices: soundness (single solution), first-n, the wrappers"""
    ops = [{"f": "ec", "n": 3, "mode": "single", "fixed": []},
           {"f": "ec", "n": 4, "mode": "single", "fixed": []},
           {"f": "ec", "n": 3, "mode": "first", "j": 3, "fixed": []},
           {"f": "cl"},
           {"f": "dm", "ns": 1}, {"f": "dm", "ns": 3}]
    E = len(edges)
    if E:
        fx = [[int(rng.integers(0, 3)), E - 1], [int(rng.integers(0, 3)), int(rng.integers(0, E))]]
        ops.append({"f": "ec", "n": 3, "mode": "single", "fixed": fx})
        for n in (2, 3, 4):
            ops.append({"f": "vc", "n": n, "all": False})
    if E <= 14:
        ops += [{"f": "ec", "n": 3, "mode": "all", "fixed": []}, {"f": "dm", "ns": None}, {"f": "vc", "n": 3, "all": True}]
    return ops


# ------------------------------------------------------------------ evaluation
def oracle_line(f, nv, edges, op, cw):
    """one driver line per call; returns (line, est) where est bounds the search space n^k"""
    E = len(edges)
    if f in ("ec", "cl"):
        n = 3 if f == "cl" else op["n"]
        fx = [[i, int(e)] for i, e in enumerate(cw)] if f == "cl" else op["fixed"]
        est = n ** E
        k = E
    elif f == "vc":
        n = op["n"]
        k = max(max(u, v) for u, v in edges) + 1
        est = n ** k
    else:
        n, k, est = 2, E, 2 ** E
    flags = 1 if E <= 400 else 0
    if est <= 10 ** 6 or (f != "dm" and k <= 24):
        flags |= 16       # existence by backtracking with early exit (exponential when there is none)
    if est <= CAP_COUNT:
        flags |= 2
    if est <= 6000:
        flags |= 4
    if k * n <= 12:
        flags |= 8
    if k * n <= 10:
        flags |= 32
    if f in ("ec", "cl"):
        return f"ec {ser_edges(edges)} {n} {ser_pairs(fx)} {flags}", flags
    if f == "vc":
        return f"vc {ser_edges(edges)} {n} {flags}", flags
    return f"dm {nv} {ser_edges(edges)} {flags}", flags


def as_rows(arr, k):
    a = np.asarray(arr)
    if a.ndim != 2:
        raise ValueError(f"expected a 2-d array of solutions, got shape {a.shape}")
    return [tuple(int(x) for x in r) for r in a]


def evaluate(ctx, cases, label="run"):
    """cases: list of dicts {kind, family, nv/edges or gen, ops:[...]}.  Two driver passes: oracle, then checkers."""
    res = ctx.res
    items = []      # (case, op, lat, nv, edges, cw)
    lines = []
    for case in cases:
        try:
            lat = lattice_of(case)
        except Exception as e:  # generator could not build (not koala.graph_color's business)
            res.skip(f"could-not-build:{type(e).__name__}")
            continue
        nv, edges = graph_of(case, lat)
        for op in case["ops"]:
            f = op["f"]
            cw = None
            if f == "vc" and not edges:
                res.skip("vertex_color:empty-adjacency(out of documented domain)")
                continue
            if f == "cl":
                try:
                    cw = [int(x) for x in gu.clockwise_edges_about(vertex_index=0, g=lat)]
                except Exception as e:
                    res.skip(f"clockwise_edges_about raised {type(e).__name__}")
                    continue
                if len(cw) > 3:
                    res.skip("color_lattice:degree(0)>3(out of documented domain)")
                    continue
            ln, flags = oracle_line(f, nv, edges, op, cw)
            items.append((case, op, lat, nv, edges, cw, flags))
            lines.append(ln)
    outs = run_driver_parallel(ctx.exe["c04"], lines)
    chk_lines, chk_meta = [], []
    stats = res.extra.setdefault("verdicts", {})
    sol_hist = res.extra.setdefault("solution_count_histogram", {})

    def bump(d, k):
        d[k] = d.get(k, 0) + 1

    for (case, op, lat, nv, edges, cw, flags), o in zip(items, outs):
        if "error" in o:
            raise RuntimeError(f"driver error {o['error']} on {case} {op}")
        f = op["f"]
        rc = {"kind": "graph", "family": case["family"], "nv": nv, "edges": edges, "ops": [op]} if case["kind"] == "graph" \
            else dict(case, ops=[op])
        E = len(edges)
        fam = f"{case['family']}/{f}"
        conflicts = any(len({a, b} & {c, d}) for (a, b), (c, d) in itertools.combinations(edges, 2)) if E <= 60 else True
        nontriv = digest([edges, op]) if (conflicts and E >= 2) else None
        res.count(fam, nontriv)
        m_count = unhx(o["count"][0]) if "count" in o else None
        m_exists = (o["exists"][0] == "1") if "exists" in o else (m_count > 0 if m_count is not None else None)
        m_list = set(parse_cols(o["list"])) if "list" in o else None
        if m_list is not None and (len(m_list) != m_count):
            raise RuntimeError(f"model: list/count disagree on {rc}")
        if "brute" in o and o["brute"][0] != "N":
            b = parse_cols(o["brute"])
            if len(set(b)) != len(b) or set(b) != m_list:
                raise RuntimeError(f"model: brute force through the formula and backtracking disagree on {rc}")
        xc = getattr(ctx, "xcheck", None)
        if xc is not None and len(xc) < ctx.xcheck_cap and "cnf" in o and m_count is not None and f != "cl" \
                and 2 <= int(o["maxvar"][0]) <= 12 and (len(xc) % 3 == ["ec", "vc", "dm"].index(f)):
            xc.append((f, nv, edges, op.get("n"), op.get("fixed", []), parse_cnf(o["cnf"]), m_count))
        if m_count is not None:
            bump(sol_hist, "0" if m_count == 0 else "1" if m_count == 1 else "2-10" if m_count <= 10 else "11-100" if m_count <= 100 else ">100")

        # ---- call koala (a runaway enumeration is cut off: no call may draw more models than valid assignments
        #      exist, plus a margin; without a count, than the cap of the all-solutions mode)
        lim = (m_count if m_count is not None else CAP_ENUM) + 64
        if f == "ec":
            kw = {"n_colors": op["n"], "fixed": [tuple(p) for p in op["fixed"]]}
            if op["mode"] == "all":
                if m_count is None or m_count > CAP_ENUM:
                    res.skip("all_solutions:too-many-to-enumerate")
                    continue
                kw["all_solutions"] = True
            elif op["mode"] == "first":
                kw["n_solutions"] = op["j"]
            out, log = spy_call(gc.edge_color, lat, limit=lim, **kw)
        elif f == "vc":
            if op["all"] and (m_count is None or m_count > CAP_ENUM):
                res.skip("all_solutions:too-many-to-enumerate")
                continue
            # the adjacency's dtype / container is not part of its value: narrow, unsigned and list forms must behave alike
            nvv = (max(max(e) for e in edges) + 1) if len(edges) else 0
            forms = [int, np.int32, "list"] + ([np.int16] if nvv < 30000 else []) + ([np.int8, np.uint8] if nvv < 120 else [])
            form = forms[(len(edges) * 7 + nvv + op["n"]) % len(forms)]
            adj_arg = [list(map(int, e)) for e in edges] if form == "list" else np.array(edges, dtype=form).reshape(-1, 2)
            res.extra.setdefault("vertex_color_adjacency_forms", {})
            res.extra["vertex_color_adjacency_forms"][str(form)] = res.extra["vertex_color_adjacency_forms"].get(str(form), 0) + 1
            out, log = spy_call(gc.vertex_color, adj_arg, limit=lim, n_colors=op["n"], all_solutions=op["all"])
        elif f == "dm":
            if op["ns"] is None and (m_count is None or m_count > CAP_ENUM):
                res.skip("all_solutions:too-many-to-enumerate")
                continue
            out, log = spy_call(gu.dimerise, lat, op["ns"], limit=lim)
        else:
            out, log = spy_call(gc.color_lattice, lat, limit=lim)

        # ---- K(i): clause set at the pysat boundary
        if "cnf" in o:
            mc = parse_cnf(o["cnf"])
            isolated = f == "dm" and any(len(c) == 0 for c in mc)
            if not isolated:   # CardEnc raises on an empty literal list before anything reaches the solver
                res.traces += 1
                if clause_set(log["clauses"]) != clause_set(mc) and equivalent_by_entailment(log["clauses"], mc, int(o["maxvar"][0])):
                    bump(res.extra.setdefault("K(i)", {}), "clause sets differ syntactically but are logically equivalent (mutual entailment)")
                elif clause_set(log["clauses"]) != clause_set(mc) and m_count is not None and m_count <= CAP_ENUM \
                        and projected_models_equal(log["clauses"], mc, int(o["maxvar"][0]), m_count):
                    bump(res.extra.setdefault("K(i)", {}), "clause sets differ syntactically but are equivalent on the reserved variables")
                elif clause_set(log["clauses"]) != clause_set(mc):
                    a, b = clause_set(log["clauses"]), clause_set(mc)
                    ctx.k_mismatch(f"{label}: clause set handed to pysat differs from the model's formula: "
                                   f"{len(a - b)} extra e.g. {sorted(map(sorted, a - b), key=str)[:2]}, "
                                   f"{len(b - a)} missing e.g. {sorted(map(sorted, b - a), key=str)[:2]}", rc)
        cb = solver_contract_bad(log)
        if cb:
            ctx.k_mismatch(f"{label}: solver contract: {cb}", rc)

        # ---- normalise koala's answer: ("unsat",) | ("one", tuple) | ("many", [tuples]) | ("exc", e)
        kind, val = out
        ans = None
        if kind == "exc" and isinstance(val, EnumOverflow):
            ans = ("overflow", val)
        elif kind == "exc":
            if f in ("dm", "cl") and isinstance(val, ValueError):
                ans = ("unsat",)
            else:
                ans = ("exc", val)
        else:
            try:
                if f in ("ec", "vc"):
                    ok, sol = val
                    if not ok:
                        ans = ("unsat",)
                    elif (f == "ec" and op["mode"] != "single") or (f == "vc" and op["all"]):
                        ans = ("many", as_rows(sol, None))
                    else:
                        ans = ("one", tuple(int(x) for x in np.asarray(sol).reshape(-1)))
                elif f == "dm":
                    if val is None:
                        ans = ("none",)
                    elif op["ns"] == 1:
                        a = np.asarray(val)
                        if a.ndim == 2 and a.shape[0] == 1:   # the docstring promises (n_solutions, n_edges); accept both
                            a = a[0]
                        if a.ndim != 1:
                            raise ValueError(f"n_solutions=1: expected one assignment, got shape {a.shape}")
                        ans = ("one", tuple(int(x) for x in a))
                    else:
                        ans = ("many", as_rows(val, None))
                else:
                    ans = ("one", tuple(int(x) for x in np.asarray(val).reshape(-1)))
            except Exception as e:
                ans = ("exc", e)

        # ---- S: the property on koala's answer
        name = {"ec": "edge_color", "vc": "vertex_color", "dm": "dimerise", "cl": "color_lattice"}[f]
        n = 3 if f == "cl" else op.get("n", 2)
        fixed = [[i, e] for i, e in enumerate(cw)] if f == "cl" else op.get("fixed", [])

        def bad(c):
            if f in ("ec", "cl"):
                return edge_col_bad(edges, n, fixed, c)
            if f == "vc":
                return vertex_col_bad(edges, n, c)
            return dimer_bad(nv, edges, c)

        if ans[0] == "overflow":
            res.violation(f"{name}:enumeration-count", f"{name} drew more than {lim} models from the solver while "
                          f"{m_count if m_count is not None else 'at most ' + str(CAP_ENUM)} valid assignments exist (enumeration is not exact)", rc)
            continue
        if ans[0] == "none":
            res.violation(f"{name}:returned-none", f"{name} returned None although {m_count if m_count is not None else 'some'} valid assignment(s) exist", rc)
            continue
        if ans[0] == "exc":
            bump(stats, f"{name}:exception")
            res.violation(f"{name}:exception", f"{name} raised {type(ans[1]).__name__}: {ans[1]} "
                          f"(independent count of valid assignments: {m_count if m_count is not None else ('>=1' if m_exists else '?')})", rc)
            continue
        if ans[0] == "unsat":
            bump(stats, f"{name}:unsat")
            if m_exists is None:
                res.extra["unsat_verdicts_not_confirmed(large)"] = res.extra.get("unsat_verdicts_not_confirmed(large)", 0) + 1
            elif m_exists:
                res.violation(f"{name}:unsolvable-but-solution-exists",
                              f"{name} reported unsolvable, the independent counter finds "
                              f"{m_count if m_count is not None else 'at least one'} valid assignment(s)", rc)
            continue
        bump(stats, f"{name}:sat")
        if m_exists is False:
            res.violation(f"{name}:solution-where-none-exists", f"{name} returned {ans[1]} but the independent counter finds none", rc)
        sols = [ans[1]] if ans[0] == "one" else ans[1]
        broken = False
        for c in sols:
            why = bad(c)
            if why:
                res.violation(f"{name}:invalid", f"{name} returned {list(c)}: {why}", rc)
                broken = True
                break
        if ans[0] == "many":
            if len(set(sols)) != len(sols):
                res.violation(f"{name}:duplicate", f"{name} enumeration returned an assignment more than once ({len(sols)} rows, {len(set(sols))} distinct)", rc)
                broken = True
            want_all = (f == "ec" and op["mode"] == "all") or (f == "vc") or (f == "dm" and op["ns"] is None)
            j = None if want_all else (op["j"] if f == "ec" else op["ns"])
            if m_count is not None:
                expect = m_count if want_all else min(j, m_count)
                if len(sols) != expect:
                    res.violation(f"{name}:enumeration-count",
                                  f"{name} ({'all solutions' if want_all else f'first {j}'}) returned {len(sols)} assignments, "
                                  f"{expect} expected ({m_count} valid assignments exist)", rc)
                    broken = True
                elif want_all and m_list is not None and set(sols) != m_list and not broken:
                    res.violation(f"{name}:enumeration-set", f"{name} all solutions: the set differs from the independent list", rc)
                    broken = True
            elif j is not None and len(sols) > j:
                res.violation(f"{name}:enumeration-count", f"{name} first {j} returned {len(sols)} assignments", rc)
        if f == "cl" and not broken:
            for i, e in enumerate(cw):
                if sols[0][e] != i:
                    res.violation("color_lattice:vertex0-order", f"edge {e} is number {i} clockwise about vertex 0 but has colour {sols[0][e]}", rc)
        # ---- K(ii): model end-to-end with brute force as the solver (tiny instances)
        if "run_all" in o and not broken:
            rk, rv = parse_result(o["run_all"])
            if rk != "M" or set(rv) != m_list:
                raise RuntimeError(f"model: end-to-end run_all disagrees with backtracking on {rc}")
            for key in ("run_single", "run_first2"):
                if key in o:
                    rk, rv = parse_result(o[key])
                    rv = [rv] if rk == "S" else rv
                    if rk not in ("S", "M") or any(bad(c) for c in rv):
                        raise RuntimeError(f"model: {key} invalid on {rc}")
        if "run_single" in o and (o["run_single"][0] == "U") != (m_count == 0):
            raise RuntimeError(f"model: end-to-end run and backtracking counter disagree on solvability of {rc}")
        # ---- K(ii): extracted checkers on koala's outputs (bounded size)
        if not broken and E <= 70:
            for c in sols[:3]:
                if f in ("ec", "cl"):
                    chk_lines.append(f"kec {ser_edges(edges)} {n} {ser_pairs(fixed)} {ser_list(c)}")
                elif f == "vc":
                    chk_lines.append(f"kvc {ser_edges(edges)} {n} {ser_list(c)}")
                else:
                    chk_lines.append(f"kdm {nv} {ser_edges(edges)} {ser_list(c)}")
                chk_meta.append((rc, c))
        res.sample({"call": name, "n_vertices": nv, "edges": edges[:12], "op": op, "answer": jsonable(ans)[:2] if ans[0] != "many" else ["many", len(sols)],
                    "independent_count": m_count})
    outs2 = run_driver_parallel(ctx.exe["c04"], chk_lines)
    for (rc, c), o in zip(chk_meta, outs2):
        if "error" in o:
            raise RuntimeError(f"driver error {o['error']} on checker line for {rc}")
        res.traces += 1
        if o["valid"][0] != "1" or o.get("encsat", ["1"])[0] != "1" or o.get("roundtrip", ["1"])[0] != "1":
            ctx.k_mismatch(f"{label}: extracted checker rejects an assignment the Python restatement accepts "
                           f"(valid={o['valid']}, encoding satisfies formula={o.get('encsat')}, roundtrip={o.get('roundtrip')}): {list(c)}", rc)


def cardenc_contract(ctx):
    """CardEnc.equals(bound=1, pairwise) against Model/Cnf.v equals1, clause for clause, and no new variables"""
    from pysat.card import CardEnc, EncType, IDPool
    rng = np.random.default_rng([ctx.seed, 404])
    tests = [[1], [1, 2], [1, 2, 3], [4, 5, 6, 7], [9, 3, 5], [2, 2], [7, 8, 9, 10, 11]]
    for _ in range(12):
        k = int(rng.integers(1, 8))
        tests.append([int(x) for x in rng.integers(1, 60, size=k)])
    lines = ["card " + str(len(t)) + " " + " ".join(hx(x) for x in t) for t in tests]
    outs = run_driver(ctx.exe["c04"], lines)
    for t, o in zip(tests, outs):
        top = max(t) + 5
        vp = IDPool(start_from=top)
        enc = CardEnc.equals(lits=t, bound=1, vpool=vp, encoding=EncType.pairwise)
        ctx.res.traces += 1
        if [list(c) for c in enc.clauses] != parse_cnf(o["cnf"]) or vp.top != top - 1:
            ctx.k_mismatch(f"CardEnc contract: pysat gives {enc.clauses} (vpool.top {vp.top}), model equals1 gives {parse_cnf(o['cnf'])}", {"lits": t})
        if any(abs(x) not in t for c in enc.clauses for x in c):
            ctx.k_mismatch(f"CardEnc contract: auxiliary variables in {enc.clauses}", {"lits": t})
    try:
        CardEnc.equals(lits=[], bound=1, vpool=IDPool(start_from=3), encoding=EncType.pairwise)
        ctx.res.extra["cardenc_empty_lits"] = "no exception"
    except ValueError as e:
        ctx.res.extra["cardenc_empty_lits"] = f"ValueError({e})"


def high_degree_cases(rng):
    """wheels, fans and stars-with-a-matching: one vertex joined to all others (coordination up to 9), an even number of vertices so
    that perfect matchings exist; hub edges listed first, last, or shuffled (encodings that switch at a degree threshold, auxiliary
    variables colliding with the last edge's variable)"""
    out = []
    for nv in (6, 8, 10):
        rim = list(range(1, nv))
        spokes = [[0, v] for v in rim]
        wheel_rim = [[rim[i], rim[(i + 1) % len(rim)]] for i in range(len(rim))]
        fan_rim = wheel_rim[:-1]
        for name, rimset in (("wheel", wheel_rim), ("fan", fan_rim)):
            for order in ("hub-first", "rim-first", "shuffled"):
                edges = spokes + rimset if order == "hub-first" else rimset + spokes
                if order == "shuffled":
                    edges = [edges[i] for i in rng.permutation(len(edges))]
                edges = [e if rng.uniform() < 0.5 else e[::-1] for e in edges]
                out.append({"kind": "graph", "family": f"{name}{nv}", "nv": nv, "edges": [list(map(int, e)) for e in edges]})
    return out


def build_cases(tier, seed, big=False):
    rng = np.random.default_rng([seed, 4])
    colours = [1, 2, 3, 4, 5]
    cases = []
    thorough = tier != "quick" or big
    # exhaustive: labelled simple graphs
    for nv in (1, 2, 3, 4):
        cases += simple_graph_cases(nv)
    if thorough:
        cases += simple_graph_cases(5)
    else:
        masks = sorted(set(int(x) for x in rng.integers(0, 1024, size=160)) | {1023, 0, 0b1111000000 | 0b111})
        cases += simple_graph_cases(5, masks)
    # exhaustive: multigraphs <= 6 edges on <= 4 vertices
    for nv in (2, 3, 4):
        cases += multigraph_cases(nv, 6, False, rng, None if thorough else 70)
    cases += multigraph_cases(3, 4, True, rng, 150 if thorough else 25)
    cases += multigraph_cases(4, 5, True, rng, 300 if thorough else 25)
    cases += random_graph_cases(rng, 150 if thorough else 36)
    cases += high_degree_cases(rng)
    for c in cases:
        deg0 = sum((a == 0) + (b == 0 and a != 0) for a, b in c["edges"])
        c["ops"] = ops_for_graph(c["nv"], c["edges"], rng, colours, deg0 <= 3, tier)
    lats = lattice_family_cases("thorough" if thorough else "quick", rng)
    for c in lats:
        c["ops"] = None   # filled when built
    return cases, lats, rng


def fill_lattice_ops(lats, rng):
    out = []
    for c in lats:
        try:
            lat = lattice_of(c)
        except Exception:
            out.append(dict(c, ops=[]))
            continue
        nv, edges = graph_of(c, lat)
        out.append(dict(c, ops=ops_for_lattice(nv, edges, rng)))
    return out


def run(ctx):
    ctx.res.rule = ("every call edge_color / vertex_color / dimerise / color_lattice on one (graph, n_colors, mode, fixed) is one case; graphs: all labelled simple "
                    "graphs on <=4 (quick: +sample of the 1024 on 5; thorough: all) vertices, multigraphs <=6 edges on <=4 vertices (random edge order and orientation; "
                    "a self-loop family), random graphs on 6-9 vertices, cubic lattices (Voronoi, tilings, Tutte, truncated, cuts); n_colors 1..5; "
                    "single / first-n / all-solutions; with and without fixed colours (last edge fixed in half of them). "
                    "non-trivial = the graph has two edges sharing a vertex (a conflict clause exists); keyed by (edges, call)")
    cardenc_contract(ctx)
    cases, lats, rng = build_cases(ctx.tier, ctx.seed)
    ctx.xcheck, ctx.xcheck_cap = [], (18 if ctx.tier == "quick" else 90)
    import glob
    corpus = [json.load(open(q))["case"] for q in sorted(glob.glob(os.path.join(VERIF, "corpus", "C04", "*.json")))]
    evaluate(ctx, corpus, "corpus")     # minimised earlier failures first
    evaluate(ctx, cases, "K")
    evaluate(ctx, fill_lattice_ops(lats, rng), "K(lattices)")
    coq_crosscheck(ctx, ctx.xcheck)
    ctx.res.extra["graphs"] = len(cases)
    ctx.res.extra["lattices"] = len(lats)


def search(ctx):
    """after a proof / the correspondence broke: the thorough generators with another seed"""
    cases, lats, rng = build_cases(ctx.tier, ctx.seed + 1, big=True)
    if ctx.tier == "quick":
        idx = rng.choice(len(cases), size=min(len(cases), 700), replace=False)
        cases = [cases[i] for i in idx]
        lats = lats[:40]
    evaluate(ctx, cases, "search")
    evaluate(ctx, fill_lattice_ops(lats, rng), "search(lattices)")


def replay(ctx, payload):
    evaluate(ctx, [payload["case"]], "replay")
