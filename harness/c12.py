"""C12 — cutting, deleting and relabelling return exactly the described sub-lattice.

S: the property restated independently in Python on the implementation's outputs (exact arrays,
   2-core by one-edge-at-a-time peeling, plaquette persistence / no-new-plaquette through the
   edge and vertex renaming, isomorphism of relabelled lattices incl. plaquette lists).
K: extracted Gallina model (coq/Model/Surgery.v) vs implementation, exact arrays."""
from lib import *  # noqa
import gen
import argforms as AF
from koala.lattice import Lattice, LatticeException, cut_boundaries, permute_vertices
from koala.graph_utils import remove_vertices, remove_trailing_edges, reorder_vertices

DRIVERS = ("c12", "lat")
MODEL_TARGETS = ["Model/Lattice.vo", "Model/Surgery.vo"]
TARGETS = ["Proofs/SurgeryFacts.vo", "Proofs/SurgeryTrailing.vo", "Proofs/SurgeryPerm.vo", "Proofs/SurgeryEquivariant.vo",
           "Proofs/SurgeryPersistLists.vo", "Proofs/SurgeryPersistGeom.vo", "Proofs/SurgeryPersist.vo"]
LEVEL = "proof"
TRUST = [
    "hand-written Gallina model coq/Model/Surgery.v of cut_boundaries, remove_vertices, remove_trailing_edges, permute_vertices, reorder_vertices "
    "(numpy fancy indexing, cumsum, np.where, np.delete, argsort transcribed by hand): modelled, not verified; tied to the code by exact-array comparison on every generated case",
    "plaquette clauses (persistence, no new plaquettes, equivariance of the plaquette list beyond the proved theorem) are checked on the implementation's own plaquette lists (S), "
    "which C01 ties to the model; 'no new plaquettes' is evaluated only when the crossing flags are geometrically truthful (floor test), as the clause presupposes",
]
ASSUMPTIONS = ["index arguments are in range and non-negative (numpy's negative-index wrap-around is outside the model); permutation arguments are permutations of range(V)"]


# ------------------------------------------------------------------ implementation runners
def mk(pos, edges, crossing):
    return Lattice(*layout_variant(pos, edges, crossing)[:3])


def arr(lat):
    return (np.asarray(lat.vertices.positions, dtype=float).reshape(-1, 2), np.asarray(lat.edges.indices).astype(int).reshape(-1, 2),
            np.asarray(lat.edges.crossing).astype(int).reshape(-1, 2))


# ---- argument forms (argforms.py): container / dtype / memory layout / order and repeats of an index list are not part of the
# SET of vertices (resp. the permutation, the pair of booleans) they denote.  Only what is handed to koala is re-formed (chosen
# from the content of the operation and the lattice size, so a failure replays); the model and the restatement get op[...] as is.
AF_INT_ARRAYS = ["int64", "int8", "uint8", "int16", "uint16", "int32", "uint32", "intp", "int64+readonly", "int32+strided", "uint8+strided"]
AF_FORMS = {"remove_vertices.indices": AF_INT_ARRAYS + ["int64+list"],
            "permute_vertices.ordering": AF_INT_ARRAYS + ["int64+list"],
            "reorder_vertices.permutation": AF_INT_ARRAYS,
            "cut_boundaries.boundary_to_cut": ["bool+list", "bool+tuple", "bool", "bool+readonly", "bool+strided", "bool+npscalars"]}   # npscalars: [np.True_, np.False_]
AF_EXCLUDED = {
    ("remove_vertices.indices", "tuple / set / float array"): "type hint np.ndarray 'N array of indices'; a tuple is one index per axis for numpy (IndexError; the EMPTY tuple selects everything: all vertices removed)",
    ("remove_vertices.indices", "np.array([]) (empty, float64)"): "numpy's default empty array is float64: IndexError 'arrays used as indices must be of integer type' -- arguable (it is an np.ndarray naming no vertex), reported to the lead, kept out of the generator",
    ("permute_vertices.ordering", "tuple"): "type hint npt.NDArray[np.integer]; tuple = one index per axis (IndexError)",
    ("reorder_vertices.permutation", "list / tuple"): "type hint np.ndarray; permutation[edges] needs an array (TypeError)",
    ("cut_boundaries.boundary_to_cut", "integers other than 0/1"): "documented as list[Bool]; 1 - flag*2 is non-zero",
}


def arg_forms(res, arg, values, *key):
    for (a, f), why in AF_EXCLUDED.items():
        AF.exclude(res, a, f, why)
    if arg == "remove_vertices.indices" and len(values) >= 2 and AF.pick([0, 1, 2], "dup", list(values), *key) == 0:
        values = list(values)[::-1] + list(values)[:2]          # same set: other order, two repeats
        AF.note(res, arg + "(order)", "reversed+2 repeats")
    base = np.bool_ if arg.startswith("cut") else np.int64
    if arg == "remove_vertices.indices" and len(values) == 0 and AF.pick([0, 1], "empty", *key) == 0:
        AF.note(res, arg, "np.array([]) (float64 empty)")
        return np.array([])                                     # numpy's default empty array (regression: /repo fix for C12)
    return AF.choose(res, arg, values, AF_FORMS[arg], *key, base=base)


def impl_op(lat, op, res):
    """returns (output Lattice, report or None)"""
    k = op["op"]
    size = [lat.n_vertices, lat.n_edges]
    if k == "cut":
        return cut_boundaries(lat, arg_forms(res, "cut_boundaries.boundary_to_cut", op["b"], size)), None
    if k == "rmv":
        out, rep = remove_vertices(lat, arg_forms(res, "remove_vertices.indices", op["idx"], size), return_edge_removal=True)
        return out, [int(x) for x in rep]
    if k == "trail":
        return remove_trailing_edges(lat), None
    if k == "perm":
        return permute_vertices(lat, arg_forms(res, "permute_vertices.ordering", op["ord"], size)), None
    if k == "reord":
        return reorder_vertices(lat, arg_forms(res, "reorder_vertices.permutation", op["perm"], size)), None
    raise ValueError(k)


def plaqs(lat):
    """canonical plaquette records of the implementation, or None when the finder raises"""
    try:
        pl = lat.plaquettes
    except LatticeException:
        return None
    return [{"v": [int(x) for x in p.vertices], "e": [int(x) for x in p.edges], "d": [int(x) for x in p.directions],
             "c": np.array(p.center, dtype=float), "n": int(p.n_sides)} for p in pl]


def canon(darts):
    i = darts.index(min(darts))
    return tuple(darts[i:] + darts[:i])


# ------------------------------------------------------------------ independent restatements (S)
def two_core_edges(V, edges):
    """edge ids of the greatest edge subset without a degree-one vertex; peels ONE edge at a time
    (a different order from the implementation's simultaneous rounds).  degree = number of incident
    edges (a self-loop counts once), as remove_trailing_edges counts it."""
    alive = [True] * len(edges)
    inc = [set() for _ in range(V)]
    for e, (j, k) in enumerate(edges):
        inc[int(j)].add(e); inc[int(k)].add(e)
    stack = [v for v in range(V) if len(inc[v]) == 1]
    while stack:
        v = stack.pop()
        if len(inc[v]) != 1:
            continue
        (e,) = tuple(inc[v])
        alive[e] = False
        for w in (int(edges[e][0]), int(edges[e][1])):
            inc[w].discard(e)
            if len(inc[w]) == 1:
                stack.append(w)
    return [e for e in range(len(edges)) if alive[e]]


def flags_truthful(pos, edges, crossing):
    if len(edges) == 0:
        return True
    a, b = pos[edges[:, 0]], pos[edges[:, 1]] + crossing
    return bool(np.all(np.floor(b) - np.floor(a) == crossing))


def spec_structure(inp, op, out, rep):
    """exact-array clauses of the property.  Returns (bad list, edge_map old->new or None, vmap old->new or None)."""
    pos, edges, cr = inp
    p2, e2, c2 = out
    V, E = len(pos), len(edges)
    bad = []
    k = op["op"]
    emap = vmap = None
    if k == "cut":
        bx, by = op["b"]
        keep = [e for e in range(E) if not ((bx and cr[e][0] != 0) or (by and cr[e][1] != 0))]
        if not (p2.shape == pos.shape and np.array_equal(p2, pos)):
            bad.append(("cut:positions", "positions changed by cut_boundaries"))
        if not (np.array_equal(e2, edges[keep].reshape(-1, 2)) and np.array_equal(c2, cr[keep].reshape(-1, 2))):
            bad.append(("cut:edges", f"cut {op['b']}: surviving edges/crossings are not the non-crossing edges in order (expected ids {keep[:8]}..., got {len(e2)} edges)"))
        emap = {e: i for i, e in enumerate(keep)}
        vmap = {v: v for v in range(V)}
    elif k == "rmv":
        gone = set(op["idx"])
        kept = [v for v in range(V) if v not in gone]
        rank = {v: i for i, v in enumerate(kept)}
        keep = [e for e in range(E) if int(edges[e][0]) not in gone and int(edges[e][1]) not in gone]
        if not (len(p2) == len(kept) and np.array_equal(p2, pos[kept].reshape(-1, 2))):
            bad.append(("rmv:positions", f"remove_vertices {sorted(gone)[:8]}: kept vertices do not keep order/positions"))
        exp_e = np.array([[rank[int(edges[e][0])], rank[int(edges[e][1])]] for e in keep], dtype=int).reshape(-1, 2)
        if not (np.array_equal(e2, exp_e) and np.array_equal(c2, cr[keep].reshape(-1, 2))):
            bad.append(("rmv:edges", f"remove_vertices {sorted(gone)[:8]}: surviving edges are not the edges with both ends kept, renumbered by rank, in order"))
        if set(rep) != set(range(E)) - set(keep):
            bad.append(("rmv:report", f"remove_vertices {sorted(gone)[:8]}: reported removed edges {sorted(set(rep))[:8]} != edges touching a removed vertex {sorted(set(range(E)) - set(keep))[:8]}"))
        emap = {e: i for i, e in enumerate(keep)}
        vmap = rank
    elif k == "trail":
        keep = two_core_edges(V, edges)
        # surviving edges, identified by end positions + crossing, in order
        ok = len(e2) == len(keep) and np.array_equal(c2, cr[keep].reshape(-1, 2))
        if ok and len(keep):
            ok = np.array_equal(p2[e2[:, 0]], pos[edges[keep, 0]]) and np.array_equal(p2[e2[:, 1]], pos[edges[keep, 1]])
        if not ok:
            bad.append(("trail:edges", f"remove_trailing_edges: surviving edges are not the greatest edge subset without degree-one vertices ({len(keep)} expected, {len(e2)} returned)"))
        deg = np.zeros(len(p2), dtype=int)
        for j, kk in e2:
            deg[j] += 1
            if kk != j:
                deg[kk] += 1
        if np.any(deg == 1):
            bad.append(("trail:degree-one", f"remove_trailing_edges: output still has degree-one vertices {np.nonzero(deg == 1)[0][:5].tolist()}"))
        # every vertex of the 2-core and every vertex isolated from the start must still be there
        must = set(int(x) for x in edges[keep].ravel()) | (set(range(V)) - set(int(x) for x in edges.ravel()))
        have = {}
        for row in p2:
            have[tuple(row)] = have.get(tuple(row), 0) + 1
        need = {}
        for v in must:
            need[tuple(pos[v])] = need.get(tuple(pos[v]), 0) + 1
        if any(have.get(t, 0) < n for t, n in need.items()):
            bad.append(("trail:vertices", "remove_trailing_edges: a vertex that is not on a trailing edge was removed"))
        emap = {e: i for i, e in enumerate(keep)}
        if not bad and len(keep):
            vmap = {}
            for i, e in enumerate(keep):
                vmap[int(edges[e][0])] = int(e2[i][0]); vmap[int(edges[e][1])] = int(e2[i][1])
    elif k == "perm":
        o = op["ord"]
        inv = {int(v): i for i, v in enumerate(o)}
        if not (len(p2) == V and np.array_equal(p2, pos[o].reshape(-1, 2))):
            bad.append(("perm:positions", "permute_vertices: new position i is not old position ordering[i]"))
        exp_e = np.array([[inv[int(j)], inv[int(kk)]] for j, kk in edges], dtype=int).reshape(-1, 2)
        if not (np.array_equal(e2, exp_e) and np.array_equal(c2, cr)):
            bad.append(("perm:edges", f"permute_vertices {o[:8]}: edges are not the old edges renamed by the inverse ordering, same order and crossings"))
        emap = {e: e for e in range(E)}
        vmap = inv
    elif k == "reord":
        pm = op["perm"]
        exp_p = np.zeros_like(pos)
        for v in range(V):
            exp_p[pm[v]] = pos[v]
        if not (len(p2) == V and np.array_equal(p2, exp_p)):
            bad.append(("reord:positions", "reorder_vertices: position of vertex permutation[v] is not the old position of v"))
        exp_e = np.array([[pm[int(j)], pm[int(kk)]] for j, kk in edges], dtype=int).reshape(-1, 2)
        if not (np.array_equal(e2, exp_e) and np.array_equal(c2, cr)):
            bad.append(("reord:edges", f"reorder_vertices {pm[:8]}: edges are not the old edges renamed by the permutation, same order and crossings"))
        emap = {e: e for e in range(E)}
        vmap = {v: int(pm[v]) for v in range(V)}
    return bad, emap, vmap


def spec_plaquettes(op, P_in, P_out, emap, vmap, lat_in, lat_out, truthful):
    """plaquette clauses on the implementation's plaquette lists"""
    bad = []
    k = op["op"]
    if P_in is None or P_out is None or emap is None:
        return bad
    out_by = {canon(list(zip(p["e"], p["d"]))): p for p in P_out}
    mapped_in = {}
    for p in P_in:
        if all(e in emap for e in p["e"]):
            key = canon([(emap[e], d) for e, d in zip(p["e"], p["d"])])
            mapped_in[key] = p
            q = out_by.get(key)
            if q is None:
                bad.append((f"{k}:plaquette-lost", f"{k}: input plaquette on edges {p['e'][:8]} (none removed) is not a plaquette of the output"))
                continue
            if q["n"] != p["n"] or not np.all((np.abs(q["c"] - p["c"]) <= 1e-9 * (1 + np.abs(p["c"]))) | (np.isnan(q["c"]) & np.isnan(p["c"]))):
                bad.append((f"{k}:plaquette-geometry", f"{k}: surviving plaquette on edges {p['e'][:8]} changed geometry (centre {p['c']} -> {q['c']})"))
            if vmap is not None and q["e"] and p["e"]:
                # same vertices through the renaming, as cyclic sequences aligned on the first mapped dart
                i0 = p["e"].index(p["e"][0])
                j0 = [(e, d) for e, d in zip(q["e"], q["d"])].index((emap[p["e"][0]], p["d"][0]))
                pv = [vmap.get(v) for v in p["v"]]
                qv = q["v"][j0:] + q["v"][:j0]
                if pv != qv:
                    bad.append((f"{k}:plaquette-vertices", f"{k}: surviving plaquette's vertices are not the renamed vertices"))
    new = []
    if k in ("cut", "trail") and truthful:
        new = [out_by[key] for key in out_by if key not in mapped_in]
    if k in ("perm", "reord"):
        # identical plaquette LIST (order, start, directions, centres) and identical edge vectors
        if not np.array_equal(lat_in.edges.vectors, lat_out.edges.vectors):
            bad.append((f"{k}:vectors", f"{k}: edge vectors differ"))
        if len(P_in) != len(P_out):
            bad.append((f"{k}:plaquettes", f"{k}: {len(P_in)} plaquettes before, {len(P_out)} after"))
        else:
            for i, (p, q) in enumerate(zip(P_in, P_out)):
                if p["e"] != q["e"] or p["d"] != q["d"] or [vmap[v] for v in p["v"]] != q["v"] or not np.allclose(p["c"], q["c"], rtol=0, atol=1e-12, equal_nan=True):
                    bad.append((f"{k}:plaquettes", f"{k}: plaquette {i} is not the renamed original plaquette"))
                    break
    return bad, new


def crossing_free(P, Q, margin=1e-12):
    """segments P[i]->Q[i] on the torus (unit cell): True / False / None (= within margin of degenerate).
    Proper crossings only; segments sharing an end point (after translation) are allowed to touch there."""
    n = len(P)
    if n < 2:
        return True
    degenerate = False
    for sx in (-1, 0, 1):
        for sy in (-1, 0, 1):
            s = np.array([sx, sy], dtype=float)
            A, B = P[:, None, :], Q[:, None, :]
            C, D = (P + s)[None, :, :], (Q + s)[None, :, :]

            def orient(a, b, c):
                return (b[..., 0] - a[..., 0]) * (c[..., 1] - a[..., 1]) - (b[..., 1] - a[..., 1]) * (c[..., 0] - a[..., 0])
            o1, o2, o3, o4 = orient(A, B, C), orient(A, B, D), orient(C, D, A), orient(C, D, B)
            proper = (o1 * o2 < 0) & (o3 * o4 < 0)
            big = (np.abs(o1) > margin) & (np.abs(o2) > margin) & (np.abs(o3) > margin) & (np.abs(o4) > margin)
            if sx == 0 and sy == 0:
                proper &= ~np.eye(n, dtype=bool)
            if np.any(proper & big):
                return False
            # collinear overlaps / touching in the interior: treat tiny orientations with overlapping boxes as degenerate
            near = (~big) & (o1 * o2 <= margin) & (o3 * o4 <= margin)
            if sx == 0 and sy == 0:
                near &= ~np.eye(n, dtype=bool)
            # sharing an end point is fine
            def same(a, b):
                return np.all(np.abs(a - b) < 1e-12, axis=-1)
            share = same(A, C) | same(A, D) | same(B, C) | same(B, D)
            if np.any(near & ~share):
                degenerate = True
    return None if degenerate else True


def classify_new_plaquettes(k, new, emap, faces):
    """lead's rule: a NEW output plaquette P is the known finding iff the input face walk (phi-orbit, from
    the lat driver) through P's first dart, with all steps on removed edges deleted, is cyclically equal to
    P, that input face failed ONLY the repeated-edge filter (in the property's wording of legitimacy: no edge
    twice, net crossing zero, POSITIVE AREA; the coded winding-number filter rejects such a face too, but only
    because every U-turn at a dangling tip counts as -pi: exact winding -1 - #tips), and every repeated edge in it
    is a removed edge.
    Anything else is '<op>:new-plaquette-other'."""
    back = {i: e for e, i in emap.items()}
    by_dart = {}
    if faces is not None:
        for f in faces:
            for (e, v, d) in f["walk"]:
                by_dart[(e, 1 if d else -1)] = f
    out = []
    for q in new:
        P = [(back[e], d) for e, d in zip(q["e"], q["d"])]
        f = by_dart.get(P[0])
        known = False
        if f is not None:
            walk = [(e, 1 if d else -1) for (e, v, d) in f["walk"]]
            kept = [x for x in walk if x[0] in emap]
            es = [e for e, _ in walk]
            repeated = {e for e in es if es.count(e) > 1}
            known = (bool(kept) and canon(kept) == canon(P) and (not f["nodup"]) and f["netzero"] and f["area2"] > 0
                     and all(e not in emap for e in repeated))
        if known:
            out.append((f"{k}:new-plaquette-from-face-with-dangling-tree",
                        f"{k}: face whose boundary walk used a dangling edge twice becomes a plaquette once the dangling tree is removed (output edges {q['e'][:8]})"))
        else:
            out.append((f"{k}:new-plaquette-other", f"{k}: output has a plaquette that is not a plaquette of the input, on output edges {q['e'][:8]} (input edges {[e for e, _ in P][:8]})"))
    return out


def parse_faces(d):
    if d["faces"][0] == "ERR":
        return None
    out = []
    for i in range(int(d["faces"][0])):
        c = Cursor(d[f"f{i}"])
        walk = c.list(lambda: (c.int(), c.int(), c.next() == "1"))
        out.append({"walk": walk, "nodup": c.next() == "1", "netzero": c.next() == "1", "winding": c.z(), "area2": c.z()})
    return out


# ------------------------------------------------------------------ model side
def ser_ops(ops):
    t = [str(len(ops))]
    for op in ops:
        k = op["op"]
        if k == "cut":
            t += ["cut", "1" if op["b"][0] else "0", "1" if op["b"][1] else "0"]
        elif k == "rmv":
            t += ["rmv", str(len(op["idx"]))] + [str(int(i)) for i in op["idx"]]
        elif k == "trail":
            t += ["trail"]
        elif k == "perm":
            t += ["perm", str(len(op["ord"]))] + [str(int(i)) for i in op["ord"]]
        elif k == "reord":
            t += ["reord", str(len(op["perm"]))] + [str(int(i)) for i in op["perm"]]
    return " ".join(t)


def parse_lat(c):
    assert c.next() == "L"
    P = c.list(lambda: (c.z(), c.z()))
    Ed = c.list(lambda: (c.int(), c.int()))
    Cr = c.list(lambda: (c.z(), c.z()))
    return P, Ed, Cr


def parse_op(toks, op):
    if toks[0] in ("ERR", "FUEL", "BADINDEX"):
        return {"err": toks[0]}
    c = Cursor(toks)
    m = {"lat": parse_lat(c)}
    if op["op"] == "rmv":
        m["rep"] = c.list(c.int)
    if op["op"] == "trail":
        assert c.next() == "KV"; m["kv"] = c.list(c.int)
        assert c.next() == "KE"; m["ke"] = c.list(c.int)
    return m


def k_compare(m, out, rep, scaled_of):
    """exact comparison of the model's lattice with the implementation's arrays"""
    if "err" in m:
        return f"model returned {m['err']}, implementation returned a lattice"
    P, Ed, Cr = m["lat"]
    p2, e2, c2 = out
    if len(P) != len(p2):
        return f"n_vertices model {len(P)} impl {len(p2)}"
    for i, row in enumerate(p2):
        s = scaled_of.get((float(row[0]), float(row[1])))
        if s is None or s != P[i]:
            return f"position {i}: model {P[i]} impl {row.tolist()}"
    if [tuple(int(x) for x in r) for r in e2] != [tuple(r) for r in Ed]:
        return f"edge indices differ (model {Ed[:4]}, impl {e2[:4].tolist()})"
    if [tuple(int(x) for x in r) for r in c2] != [tuple(r) for r in Cr]:
        return "crossings differ"
    if rep is not None and set(rep) != set(m["rep"]):
        return f"removed-edge report differs as a set (model {sorted(set(m['rep']))[:6]}, impl {sorted(set(rep))[:6]})"
    return None


# ------------------------------------------------------------------ operation generators
def neighbours(V, edges):
    nb = [set() for _ in range(V)]
    for j, k in edges:
        nb[int(j)].add(int(k)); nb[int(k)].add(int(j))
    return nb


def make_ops(pos, edges, rng, tier, small):
    """operations for one lattice: 4 boundary selections, vertex subsets of every size (V<=8) or a spread
    of sizes, none / all / isolating subsets, repeated and unsorted index lists, trailing-edge removal,
    all permutations for V<=6 (V<=5 in the quick tier) else random non-involutive ones.
    small: lattice comes from the exhaustive tiny-lattice stream -> fewer ops."""
    V, E = len(pos), len(edges)
    lean = V > 120                      # very large lattices: fewer operations (cost of the implementation)
    ops = [{"op": "cut", "b": [bx, by]} for bx in (False, True) for by in (False, True)]
    ops.append({"op": "trail"})
    sizes = set([0, V])
    if lean:
        sizes |= {1, V // 2, int(rng.integers(0, V + 1))}
    elif V <= 8 and not small:
        sizes |= set(range(V + 1))
    else:
        sizes |= {1, min(2, V), V // 2, max(V - 1, 0)}
        if not small:
            sizes |= {int(x) for x in rng.integers(0, V + 1, size=3)}
    for s in sorted(sizes):
        idx = [int(x) for x in rng.choice(V, size=s, replace=False)] if V else []
        ops.append({"op": "rmv", "idx": idx})
    if V:
        nb = neighbours(V, edges)
        v = int(rng.integers(0, V))
        if nb[v] - {v}:
            ops.append({"op": "rmv", "idx": sorted(nb[v] - {v}), "why": "isolating"})
        if V >= 3:
            idx = [int(x) for x in rng.choice(V, size=min(3, V), replace=False)]
            ops.append({"op": "rmv", "idx": idx + idx[:2], "why": "repeated"})
        ops.append({"op": "rmv", "idx": [V - 1], "why": "last"})
        ops.append({"op": "rmv", "idx": [0], "why": "first"})
    # permutations
    lim = 5 if tier == "quick" else 6
    if 0 < V <= lim and not small:
        perms = [list(p) for p in itertools.permutations(range(V))]
    else:
        perms = []
        if V:
            perms.append([(i + 1) % V for i in range(V)])          # cyclic shift: non-involutive for V >= 3
            for _ in range(1 if (small or lean) else 3):
                perms.append([int(x) for x in rng.permutation(V)])
            if not lean:
                perms.append(list(range(V)))
    for p in perms:
        ops.append({"op": "perm", "ord": p})
        ops.append({"op": "reord", "perm": p})
    return ops


def with_chain(arrs, rng, n_chains=2):
    """attach chains of 2..4 dangling edges (new vertices placed close to an existing vertex) so that
    remove_trailing_edges needs several rounds"""
    pos, edges, cr = arrs
    pos = pos.copy(); edges = edges.copy(); cr = cr.copy()
    if len(pos) == 0:
        return pos, edges, cr
    for _ in range(n_chains):
        v = int(rng.integers(0, len(pos)))
        L = int(rng.integers(2, 5))
        cur = v
        for s in range(L):
            p = pos[cur] + rng.uniform(-0.02, 0.02, size=2)
            p = np.clip(p, 0.001, 0.999)
            pos = np.vstack([pos, p])
            new = len(pos) - 1
            row = [cur, new] if rng.integers(0, 2) else [new, cur]
            edges = np.vstack([edges.reshape(-1, 2), np.array(row, dtype=int)])
            cr = np.vstack([cr.reshape(-1, 2), np.zeros(2, dtype=int)])
            cur = new
    return pos, edges, cr


def build_case(case):
    """case -> arrays, applying the optional implementation-side preparation steps"""
    arrs, why = gen.try_build(case["lattice"])
    if arrs is None:
        return None
    for step in case.get("pre", []):
        if step[0] == "chain":
            arrs = with_chain(arrs, np.random.default_rng([step[1], 77]))
        else:
            lat = mk(*arrs)
            if step[0] == "cut":
                lat = cut_boundaries(lat, list(step[1]))
            elif step[0] == "trail":
                lat = remove_trailing_edges(lat)
            arrs = arr(lat)
    return arrs


# ------------------------------------------------------------------ evaluation
def evaluate(ctx, cases, label, plaquette_budget=None):
    res = ctx.res
    built, lines = [], []
    for c in cases:
        try:
            arrs = build_case(c)
        except Exception as e:
            res.count("prep-failed")
            res.violation("preparation-raised", f"{type(e).__name__}: {e}", c)
            continue
        if arrs is None:
            res.skip("generator-could-not-build-base")
            continue
        pos, edges, cr = arrs
        if "ops" not in c:
            rng = np.random.default_rng([ctx.seed, c.get("opseed", 0), len(pos), len(edges)])
            c = dict(c, ops=make_ops(pos, edges, rng, ctx.tier, c.get("small", False)))
        line, S = ser_lattice_arrays(pos, edges, cr)
        built.append((c, arrs, S))
        lines.append("c12 " + line + " " + ser_ops(c["ops"]))
    outs = run_driver_parallel(ctx.exe["c12"], lines)
    stats = res.extra.setdefault("ops", {})
    rounds_hist = res.extra.setdefault("trailing_rounds_histogram", {})
    for (c, (pos, edges, cr), S), o in zip(built, outs):
        if "error" in o:
            raise RuntimeError(f"driver error {o['error']} on {c}")
        fam = c["lattice"]["family"] + ("+" + "+".join(s[0] for s in c["pre"]) if c.get("pre") else "")
        noloops = o["noloops"][0] == "1"
        scaled_of = {}
        for row, sc in zip(pos, scaled_ints(pos, S)):
            scaled_of[(float(row[0]), float(row[1]))] = tuple(sc)
        lat = mk(pos, edges, cr)
        hs = res.extra.setdefault("size_histogram", {})
        b = "V<=10" if len(pos) <= 10 else "V<=50" if len(pos) <= 50 else "V<=200" if len(pos) <= 200 else "V>200"
        hs[b] = hs.get(b, 0) + 1
        P_in = "unset"
        faces = "unset"
        generic = "unset"
        drawing_ok = "unset"
        truthful = flags_truthful(pos, edges, cr)
        has_cross = bool(np.any(cr != 0))
        used = {}
        for i, op in enumerate(c["ops"]):
            k = op["op"]
            one = {"lattice": c["lattice"], "pre": c.get("pre", []), "ops": [op]}
            try:
                out_lat, rep = impl_op(lat, op, res)
                out = arr(out_lat)
            except Exception as e:
                res.count(fam + "/" + k)
                res.violation(f"{k}:raised", f"{k} raised {type(e).__name__}: {e}", one)
                continue
            m = parse_op(o[f"o{i}"], op)
            # non-trivial: the operation changes something / acts on a lattice with crossing edges
            nontriv = None
            if (k == "cut" and any(op["b"]) and has_cross) or (k == "rmv" and 0 < len(set(op["idx"])) < len(pos)) \
               or (k == "trail" and len(out[1]) != len(edges)) or (k in ("perm", "reord") and list(op.get("ord", op.get("perm"))) != list(range(len(pos))) and len(edges)):
                nontriv = digest([pos.tolist(), edges.tolist(), cr.tolist(), op])
            res.count(fam + "/" + k, nontriv)
            stats[k] = stats.get(k, 0) + 1
            # K
            res.traces += 1
            diff = k_compare(m, out, rep, scaled_of)
            if diff:
                ctx.k_mismatch(f"{label}: {k}: {diff}", one)
            # S: structure
            bad, emap, vmap = spec_structure((pos, edges, cr), op, out, rep)
            if k == "trail" and "kv" in m:
                # rounds needed = visible through the model's survivor lists only indirectly; record chain depth
                removed = len(edges) - len(out[1])
                rounds_hist["removed>0" if removed else "removed=0"] = rounds_hist.get("removed>0" if removed else "removed=0", 0) + 1
                if not bad and sorted(emap) != m["ke"]:
                    ctx.k_mismatch(f"{label}: trail: surviving original edge ids differ from the model's", one)
            # repeated application
            if not bad and k == "trail":
                try:
                    again = arr(remove_trailing_edges(out_lat))
                    if not all(np.array_equal(a, b) for a, b in zip(again, out)):
                        bad.append(("trail:not-idempotent", "remove_trailing_edges applied twice differs from once"))
                except Exception as e:
                    bad.append(("trail:raised", f"second application raised {type(e).__name__}: {e}"))
            if not bad and k == "perm" and len(pos) >= 2:
                # the same ordering written with numpy's wrap-around indices (entry - V for every second entry) names the same
                # vertices: an implementation may refuse it, but if it accepts it the result must be the same lattice
                V_ = len(pos)
                wrapped = np.array([int(x) - V_ if (j + i) % 2 else int(x) for j, x in enumerate(op["ord"])], dtype=np.int64)
                st_w = res.extra.setdefault("permute_vertices_wraparound_ordering", {"accepted_and_equal": 0, "refused": 0})
                try:
                    w_out = arr(permute_vertices(Lattice(pos.copy(), edges.copy(), cr.copy()), wrapped))
                except Exception:
                    st_w["refused"] += 1
                    w_out = None
                if w_out is not None:
                    if all(np.array_equal(a, b) for a, b in zip(w_out, out)):
                        st_w["accepted_and_equal"] += 1
                    else:
                        bad.append(("perm:wraparound-ordering", f"permute_vertices accepts the ordering {wrapped.tolist()[:8]} (= {list(op['ord'])[:8]} with wrap-around "
                                    f"indices) but returns a different lattice than for the plain ordering: positions follow the ordering, edges do not"))
            if not bad and k == "cut":
                bx, by = op["b"]
                try:
                    again = arr(cut_boundaries(out_lat, arg_forms(res, "cut_boundaries.boundary_to_cut", [bx, by], "again", len(edges))))
                    if not all(np.array_equal(a, b) for a, b in zip(again, out)):
                        bad.append(("cut:not-idempotent", f"cut {op['b']} applied twice differs from once"))
                    if bx and by:
                        xy = arr(cut_boundaries(cut_boundaries(lat, [True, False]), [False, True]))
                        yx = arr(cut_boundaries(cut_boundaries(lat, [False, True]), [True, False]))
                        if not all(np.array_equal(a, b) for a, b in zip(xy, out)) or not all(np.array_equal(a, b) for a, b in zip(yx, out)):
                            bad.append(("cut:cut-after-cut", "cut x then y (or y then x) differs from cutting both"))
                except Exception as e:
                    bad.append(("cut:raised", f"repeated cut raised {type(e).__name__}: {e}"))
            # S: plaquettes (budgeted: the implementation's plaquette finder dominates the cost)
            want_pl = noloops and not bad and op.get("pl", True)
            if want_pl and plaquette_budget is not None and len(edges) > 40:
                used[k] = used.get(k, 0) + 1
                want_pl = used[k] <= plaquette_budget
            if want_pl:
                if generic == "unset":
                    generic = angular_margin(lat) >= 1e-9
                if not generic:
                    # two edges leave a vertex in (almost) the same direction: the rotation system depends on how
                    # argsort breaks the tie (C01's genericity clause); plaquette clauses not evaluated
                    res.skip("plaquette clauses not evaluated: nongeneric-angular-margin<1e-9")
                    want_pl = False
            if want_pl:
                if P_in == "unset":
                    P_in = plaqs(lat)
                P_out = plaqs(out_lat)
                if P_in is not None and P_out is None:
                    bad.append((f"{k}:stuck", f"{k}: plaquette finder raises on the output but not on the input"))
                else:
                    b2, new = spec_plaquettes(op, P_in, P_out, emap, vmap, lat, out_lat, truthful)
                    bad += b2
                    if new:
                        if faces == "unset":
                            faces = parse_faces(run_driver(ctx.exe["lat"], ["faces " + ser_lattice_arrays(pos, edges, cr)[0]])[0])
                        cls = classify_new_plaquettes(k, new, emap, faces)
                        if any(key.endswith("new-plaquette-other") for key, _ in cls):
                            # the clause presupposes a proper embedding (C01's input space: straight-line drawing
                            # without crossing edges); evaluate that precondition before reporting
                            if drawing_ok == "unset":
                                A = pos[edges[:, 0]]
                                drawing_ok = crossing_free(A, pos[edges[:, 1]] + cr)
                            if drawing_ok is not True:
                                res.skip("no-new-plaquette clause not evaluated: input drawing has crossing edges or is degenerate")
                                cls = [(key, w) for key, w in cls if not key.endswith("new-plaquette-other")]
                        bad += cls
                        stats["new-plaquettes/" + k] = stats.get("new-plaquettes/" + k, 0) + len(new)
                    stats["plaquette-checked/" + k] = stats.get("plaquette-checked/" + k, 0) + 1
                    if k in ("cut", "trail") and not truthful:
                        res.skip("no-new-plaquette clause not evaluated: crossing flags not truthful")
            seen = set()
            for key, what in bad:
                if key not in seen:
                    seen.add(key)
                    res.violation(key, what, one)
            if nontriv:
                res.sample({"case": one, "V": len(pos), "E": len(edges), "out_V": len(out[0]), "out_E": len(out[1]),
                            "report": rep[:10] if rep else rep})
    if label.startswith("K("):
        coq_crosscheck(ctx, built, outs)     # extraction cross-check: a sample of the driver's answers re-derived inside Coq


def coq_crosscheck(ctx, built, outs, max_v=40):
    """Extraction cross-check (DESIGN 1.3): for a small random sample of the lattices sent to the c12 driver (V <= 40) and a few
    operations of every kind on each, the driver's answer (output lattice arrays, removed-edge report, survivor lists, ERR) is
    re-derived INSIDE Coq by vm_compute on the same lattice and operation literals and must coincide."""
    import xcheck as X
    quick = ctx.tier == "quick"
    rng = np.random.default_rng([ctx.seed, 12, 99])
    small = [i for i, ((c, (pos, edges, cr), S), o) in enumerate(zip(built, outs)) if "error" not in o and 4 <= len(pos) <= max_v]
    idx = sorted(rng.choice(small, size=min(len(small), 6 if quick else 60), replace=False).tolist()) if small else []
    nl = X.natlist
    lat3 = lambda t: f"({X.lst(X.zpair, t[0])}, {X.lst(X.natpair, t[1])}, {X.lst(X.zpair, t[2])})"
    body = [
        "Definition lat3 (L : lattice) := (pos L, edges L, crossing L).",
        # FUEL / BADINDEX / the lattice, as the driver prints the three cases of remove_trailing_edges
        "Definition trail3 (L : lattice) := match remove_trailing_edges L with",
        "  | TrailOutOfFuel => inl 0%nat | TrailBadIndex => inl 1%nat | TrailDone L' => inr (lat3 L') end.",
    ]
    g = lambda lhs, rhs: body.append(X.goal(lhs, rhs))
    n_ops = {}
    for n, i in enumerate(idx):
        (c, (pos, edges, cr), S), o = built[i], outs[i]
        L = f"L{n}"
        body.append(f"Definition {L} : lattice := {X.lattice(pos, edges, cr, S)}.")
        g(f"(wf_lattice {L}, no_self_loops {L})", f"({X.boolean(o['wf'][0] == '1')}, {X.boolean(o['noloops'][0] == '1')})")
        by_kind = {}
        for j, op in enumerate(c["ops"]):
            by_kind.setdefault(op["op"], []).append(j)
        for k, js in by_kind.items():
            for j in sorted(rng.choice(js, size=min(len(js), 2), replace=False).tolist()):
                op, toks = c["ops"][j], o[f"o{j}"]
                m = parse_op(toks, op)
                if k == "cut":
                    g(f"lat3 (cut_boundaries {L} {X.boolean(op['b'][0])} {X.boolean(op['b'][1])})", lat3(m["lat"]))
                elif k == "rmv":
                    g(f"option_map (fun r => (lat3 (fst r), snd r)) (remove_vertices {L} {nl(op['idx'])})",
                      "None" if "err" in m else f"Some ({lat3(m['lat'])}, {nl(m['rep'])})")
                elif k == "trail":
                    if m.get("err") == "FUEL":
                        continue      # printed for two different model outcomes; not told apart here
                    g(f"trail3 {L}", "inl 1%nat" if "err" in m else f"inr {lat3(m['lat'])}")
                    if "err" not in m:
                        g(f"trailing_survivors {L}", f"Some ({nl(m['kv'])}, {nl(m['ke'])})")
                else:
                    f, arg = ("permute_vertices", op["ord"]) if k == "perm" else ("reorder_vertices", op["perm"])
                    g(f"option_map lat3 ({f} {L} {nl(arg)})", "None" if "err" in m else f"Some {lat3(m['lat'])}")
                n_ops[k] = n_ops.get(k, 0) + 1
    res = ctx.res
    res.extra["extraction_crosscheck_goals_vm_compute"] = X.compile_goals("c12", "Model.Lattice Model.Surgery", body, "c12")
    res.extra["extraction_crosscheck_cases"] = dict(n_ops, lattices=len(idx))
    res.extra["extraction_crosscheck_wall_s"] = X.LAST_WALL


SMALL_FAMILIES = ("edge_subset", "relabel", "face_last")


def case_list(tier, seed, n_vor=None):
    base = gen.lattice_cases(tier, seed)
    if tier != "quick":
        # budget (<= 30 min): every k-th of the tiny-lattice streams (about 3500 of them), 120 of the 400 Voronoi
        # lattices with everything derived from them
        small = [b for b in base if b["family"] in SMALL_FAMILIES]
        big = [b for b in base if b["family"] not in SMALL_FAMILIES]
        stride = max(1, len(small) // 3500)
        vor = [b for b in big if b["family"] == "voronoi"]
        keep_seeds = {b["seed"] for b in vor[:120]}

        def root(b):
            while "base" in b:
                b = b["base"]
            return b
        big = [b for b in big if root(b)["family"] != "voronoi" or root(b)["seed"] in keep_seeds]
        base = big + small[::stride]
    cases = []
    for i, b in enumerate(base):
        small = b["family"] in SMALL_FAMILIES
        cases.append({"lattice": b, "opseed": i, "small": small})
    # derived inputs: trailing-edge removal after cutting (chains of dangling edges), with attached chains
    rng = np.random.default_rng([seed, 12])
    per = [b for b in base if b["family"] in ("voronoi", "example", "tiled", "dual")]
    for i, b in enumerate(per):
        if i % 3 == 0:
            cases.append({"lattice": b, "pre": [["cut", [True, True]]], "opseed": 1000 + i})
        elif i % 3 == 1:
            cases.append({"lattice": b, "pre": [["chain", int(rng.integers(0, 2**31))]], "opseed": 2000 + i})
        else:
            cases.append({"lattice": b, "pre": [["cut", [bool(i % 2), True]], ["chain", int(rng.integers(0, 2**31))]], "opseed": 3000 + i})
    return cases


def run(ctx):
    ctx.res.rule = ("C01's lattice families (gen.lattice_cases) plus the same after cutting / with attached chains of 2-4 dangling edges; per lattice: 4 boundary selections, "
                    "trailing-edge removal, vertex subsets of every size for V<=8 else {0,1,2,V/2,V-1,V,3 random sizes}, isolating / repeated-index / first / last subsets, "
                    "all permutations for V<=5 (quick) or 6 (thorough) else cyclic shift + random + identity, for permute_vertices and reorder_vertices. "
                    "non-trivial = operation that changes the lattice (cut of a lattice with crossing edges, proper non-empty subset, trailing removal that removes an edge, non-identity relabelling of a lattice with edges)")
    cases = case_list(ctx.tier, ctx.seed)
    evaluate(ctx, cases, "K(surgery)", plaquette_budget=(3 if ctx.tier == "quick" else 8))


def search(ctx):
    cases = case_list("thorough" if ctx.tier != "quick" else "quick", ctx.seed + 1)
    evaluate(ctx, cases, "search", plaquette_budget=2)


def replay(ctx, payload):
    evaluate(ctx, [payload["case"]], "replay")
