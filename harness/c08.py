"""C08 — Bloch Hamiltonian of a unit cell reproduces the spectrum of the tiled system.

S (on the implementation): sorted union over the nx*ny allowed momenta of eigvalsh(H(k)) vs eigvalsh of the
   real-space Majorana Hamiltonian of tile_unit_cell(cell, nx, ny) (tol 1e-8); Hermiticity, 2*pi-periodicity,
   H(0) = majorana_hamiltonian; analyse_hk / gap_over_phase_space vs recomputation from eigvalsh on the
   independently constructed grid 2*pi*m/n.
K (model vs implementation): every entry of H(k) at the 16 momenta k in (pi/2)*{0,1,2,3}^2 against the exact
   Gaussian-integer model hk_gauss (formal phases w = i^q), and majorana_hamiltonian against ham_gauss.  The
   property does not fix the sign convention of k (the momentum grid is closed under k -> -k), so K accepts the
   model at (w_x^+-1, w_y^+-1), one choice for the whole cell.  Helper functionals vs the Q model."""
from lib import *  # noqa
import gen
import argforms as AF
from koala import example_graphs as eg
from koala.lattice import Lattice
from koala.phase_space import k_hamiltonian_generator, analyse_hk, gap_over_phase_space
from koala.hamiltonian import majorana_hamiltonian

DRIVERS = ("c08",)
TRANSLATORS = ("tiling_helpers",)
MODEL_TARGETS = ["Gen/TilingGen.vo", "Model/Lattice.vo", "Model/Tiling.vo", "Model/Examples.vo", "Model/Bloch.vo"]
TARGETS = ["Proofs/TilingFacts.vo", "Proofs/BlochFacts.vo", "Proofs/BlochCompleteAlg.vo", "Proofs/BlochComplete.vo"]
LEVEL = "proof"
TRUST = [
    "LAPACK eigvalsh and float exp/cos/sin (shell): the spectral clause is checked numerically (tol 1e-8) on the implementation; the theorem proves the algebraic intertwining A_tiled.Phi = Phi.H(w) over any commutative ring, not the diagonalisation",
    "the step from the intertwining relation to equality of spectra as multisets is proved (C08_bloch_complete: char_poly A_tiled = prod_k char_poly H(k), over any field with primitive nx-th / ny-th roots of unity in which nx*ny is invertible; MathComp, closed under the global context); what stays numerical is that LAPACK's eigenvalues are the roots of those characteristic polynomials",
    "hand-written Gallina model coq/Model/Bloch.v of k_hamiltonian / majorana_hamiltonian (bond sums, accumulating parallel edges): modelled, not verified; tied to the code by the exact entry comparison at w in {1,i,-1,-i}^2",
    "coq/Model/Tiling.v (tile_unit_cell over the generated helpers) is tied to the code by C10's correspondence run",
]
ASSUMPTIONS = ["real couplings J and bond variables u (so conj(0.5i J u) = -0.5i J u)", "unit cells with crossings in {-1,0,1}^2"]


# ------------------------------------------------------------------ argument forms (argforms.py)
# dtype / container / memory layout of u, J, the colouring, the momentum k and k_num are not part of their value.  Only what is
# handed to koala is re-formed (form chosen from the values, so a failure replays); the model and the recomputation get the values.
AF_FORMS = {
    "ujk": ["int64", "int8", "int16", "int32", "float64", "float32", "int64+readonly", "int8+readonly", "int64+strided", "int8+strided", "float64+strided"],
    "coloring": ["int64", "int8", "uint8", "int16", "int32", "intp", "int64+readonly", "int64+strided", "uint8+strided"],
    "J": ["float64", "float32", "float64+readonly", "float64+strided", "float32+strided"],
    "k": ["float64", "float64+readonly", "float64+strided", "float64+list", "float64+tuple", "float32", "float32+list"],   # float32 only when exact (e.g. k = 0)
    "k_num(pair)": ["int64+list", "int64+tuple", "int64", "int8", "uint8", "int32+readonly", "int64+strided"],
}
AF_KNUM_SCALAR = ["int", "np.int64", "np.int32", "np.int8", "np.uint8", "np.intp"]
AF_EXCLUDED = {
    ("k_hamiltonian_generator.ujk", "list/tuple"): "type hint np.ndarray; with coloring=None `0.5j*J[0]*ujk` raises TypeError for a sequence (works by broadcasting only when a colouring is given)",
    ("k_hamiltonian_generator.coloring", "list/tuple"): "type hint np.ndarray; J[tuple] is multi-axis indexing (IndexError)",
    ("k_hamiltonian_generator.J", "list/tuple"): "type hint np.ndarray; J[coloring] on a list raises TypeError",
    ("analyse_hk.k_num", "0-d array / length-1 sequence"): "documented as an int or a list for x and y; a 0-d array has __len__ but no [0] (IndexError)",
    ("gap_over_phase_space.k_num", "list/tuple/array"): "type hint and docstring say int (one number for both directions)",
}


def arg_forms(res, arg, values, *key):
    """`values` in the form handed to koala for argument `arg` (None stays None)"""
    for (a, f), why in AF_EXCLUDED.items():
        AF.exclude(res, a, f, why)
    if values is None:
        AF.note(res, arg, "None")
        return None
    if arg == "k_num":
        if isinstance(values, int):
            return AF.choose_scalar(res, "k_num(scalar)", values, AF_KNUM_SCALAR, *key)
        return AF.choose(res, "k_num(pair)", values, AF_FORMS["k_num(pair)"], *key, base=np.int64)
    base = {"ujk": np.int64, "coloring": np.int64, "J": np.float64, "k": np.float64}[arg]
    return AF.choose(res, arg, values, AF_FORMS[arg], *key, base=base)


def unit_cells(tier, seed, big=False):
    rng = np.random.default_rng([seed, 8])
    ex = lambda name, *a: {"family": "example", "name": name, "args": list(a)}
    cells = [ex("honeycomb_lattice", 1), ex("honeycomb_lattice", 2), ex("hex_square_oct_lattice", 1), ex("hex_square_oct_lattice", 2),
             ex("tri_non_lattice", 1), ex("tri_non_lattice", 2), ex("tri_non_lattice", [2, 1]),
             ex("square_lattice", 1, 1), ex("square_lattice", 2, 2), ex("square_lattice", 1, 2), ex("square_lattice", 3, 2),
             {"family": "example", "name": "star_lattice_sheared"}, {"family": "example", "name": "multi_graph"}]
    nvor = 24 if tier == "quick" else 160
    if big:
        nvor *= 2
    for i in range(nvor):
        n = int(rng.integers(3, 9)) if i % 2 == 0 else int(rng.integers(9, 31))
        cells.append({"family": "voronoi", "style": gen.POINT_STYLES[i % len(gen.POINT_STYLES)], "n": n,
                      "seed": int(rng.integers(0, 2**31)), "shift": bool(i % 2)})
    ntiled = 8 if tier == "quick" else 40
    for i in range(ntiled):
        base = {"family": "voronoi", "style": gen.POINT_STYLES[i % 3], "n": int(rng.integers(2, 6)),
                "seed": int(rng.integers(0, 2**31)), "shift": True}
        cells.append({"family": "tiled", "base": base, "nxy": [[2, 1], [1, 2], [2, 2], [3, 1]][i % 4]})
    return cells


def cases_for(tier, seed, big=False):
    rng = np.random.default_rng([seed, 9])
    out = []
    all_sizes = [(a, b) for a in range(1, 5) for b in range(1, 5)]
    for ci, cell in enumerate(unit_cells(tier, seed, big)):
        for rep, colmode in enumerate(["random", "none"] if (ci < 13 or ci % 3 == 0) else ["random"]):
            out.append({"cell": cell, "colmode": colmode, "seed": int(rng.integers(0, 2**31)), "sizes": all_sizes,
                        "gauge": ["random", "ones", "random"][(ci + rep) % 3]})
    return out


def setup(case):
    arr, why = gen.try_build(case["cell"])
    if arr is None:
        return None
    P, E, C = arr
    if len(E) == 0 or np.max(np.abs(C)) > 1:
        return None
    rng = np.random.default_rng([case["seed"], len(E)])
    u = rng.choice([-1, 1], size=len(E)) if case["gauge"] == "random" else np.ones(len(E), dtype=int)
    J = np.round(rng.uniform(0.3, 1.7, size=3) * 1024) / 1024      # dyadic, enters the model exactly
    col = rng.integers(0, 3, size=len(E)) if case["colmode"] == "random" else None
    return P, E, C, u, J, col


def allowed_momenta(nx, ny):
    return [(2 * np.pi * mx / nx, 2 * np.pi * my / ny) for my in range(ny) for mx in range(nx)]


def ser_hk(n, E, C, J, col, u, SJ, qa=None, qb=None, ham=False):
    toks = ["ham" if ham else "hk", hx(n), str(len(E))] + [hx(v) for e in E for v in e]
    if not ham:
        toks += [str(len(C))] + [hx(v) for c in C for v in c]
    toks += ["3"] + [hx(int(Fraction(float(j)) * SJ)) for j in J]
    toks += ["0"] if col is None else ["1", str(len(col))] + [hx(int(c)) for c in col]
    toks += [str(len(u))] + [hx(int(x)) for x in u]
    if not ham:
        toks += [hx(qa), hx(qb)]
    return " ".join(toks)


def parse_matrix(toks, n, SJ):
    v = [unhx(t) for t in toks]
    a = np.array(v, dtype=float).reshape(n, n, 2)
    return (a[:, :, 0] + 1j * a[:, :, 1]) / (2 * SJ)


QUARTERS = [(a, b) for a in range(4) for b in range(4)]


def evaluate(ctx, cases, label, size_cap=700):
    res = ctx.res
    exe = ctx.exe["c08"]
    built, lines = [], []
    for case in cases:
        s = setup(case)
        if s is None:
            res.skip("unit-cell-not-buildable-or-empty")
            continue
        P, E, C, u, J, col = s
        SJ = 1024
        n = len(P)
        built.append((case, s))
        for qa, qb in QUARTERS:
            lines.append(ser_hk(n, E, C, J, col, u, SJ, qa, qb))
        lines.append(ser_hk(n, E, C, J, col, u, SJ, ham=True))
    outs = run_driver_parallel(exe, lines)
    per = len(QUARTERS) + 1
    helper_lines, helper_meta = [], []
    for bi, (case, (P, E, C, u, J, col)) in enumerate(built):
        n = len(P)
        SJ = 1024
        cell = case["cell"]
        fam = "cell/" + cell["family"] + ("/" + cell["name"] if "name" in cell else "")
        multigraph = len({(min(a, b), max(a, b)) for a, b in E.tolist()}) < len(E)
        res.count(fam, digest([P.tolist(), E.tolist(), C.tolist(), u.tolist(), J.tolist(), None if col is None else col.tolist()]))
        res.hist["cell/multigraph"] = res.hist.get("cell/multigraph", 0) + bool(multigraph)
        res.hist["coloring/" + case["colmode"]] = res.hist.get("coloring/" + case["colmode"], 0) + 1
        lat = Lattice(P.copy(), E.copy(), C.copy())
        a_col, a_u, a_J = arg_forms(res, "coloring", col), arg_forms(res, "ujk", u), arg_forms(res, "J", J)
        Hk_ = k_hamiltonian_generator(lat, a_col, a_u, a_J)
        Hk = lambda k, n_=[0]: Hk_(arg_forms(res, "k", k, n_.__setitem__(0, n_[0] + 1) or n_[0]))     # every momentum in a form of its own
        rng = np.random.default_rng([case["seed"], 77])
        tag = f"{cell.get('name', cell['family'])}{cell.get('args', '')} (n={n}, colouring {case['colmode']})"
        # ---------------- S: Hermitian, periodic, k = 0
        H0 = majorana_hamiltonian(lat, col, u, J)
        if Hk(np.array([0, 0])).shape != (n, n) or np.max(np.abs(Hk(np.array([0.0, 0.0])) - H0)) > 1e-12:
            res.violation("k=0", f"{tag}: H(k=0) differs from majorana_hamiltonian by {np.max(np.abs(Hk(np.array([0.0, 0.0])) - H0)):.3g}", case)
        for _ in range(3):
            k = rng.uniform(-7, 7, size=2)
            H = Hk(k)
            if np.max(np.abs(H - H.conj().T)) > 1e-12:
                res.violation("hermitian", f"{tag}: H(k) is not Hermitian at k={k.tolist()}", case)
            sh = 2 * np.pi * rng.integers(-2, 3, size=2)
            if np.max(np.abs(Hk(k + sh) - H)) > 1e-9:
                res.violation("periodic", f"{tag}: H(k + {sh.tolist()}) differs from H(k) at k={k.tolist()}", case)
        # ---------------- a result stays what it was: callers collect [Hk(k) for k in grid] and diagonalise afterwards
        kA, kB = rng.uniform(-3, 3, size=2), rng.uniform(-3, 3, size=2)
        HA = Hk_(kA)
        HA0 = np.array(HA, copy=True)
        HB = Hk_(kB)
        if HB is HA or np.shares_memory(HA, HB) or not np.array_equal(HA, HA0):
            res.violation("hk-result-changed-by-later-call", f"{tag}: the matrix returned for k={kA.tolist()} changed (or is the same array object) after the "
                          f"generator was called again with k={kB.tolist()}: a list of H(k) over the momentum grid then holds the last matrix only", case)
        # ---------------- K: exact entries at w in {1,i,-1,-i}^2 (modulo the global convention k -> -k)
        mods = [parse_matrix(outs[bi * per + qi]["hk"], n, SJ) for qi in range(len(QUARTERS))]
        hamm = parse_matrix(outs[bi * per + len(QUARTERS)]["ham"], n, SJ)
        imps = [Hk(np.array([qa * np.pi / 2, qb * np.pi / 2])) for qa, qb in QUARTERS]
        idx = {q: i for i, q in enumerate(QUARTERS)}
        # the property fixes H only up to the sign convention of each momentum component (the allowed grid is
        # closed under kx -> -kx and ky -> -ky separately): accept the model at (w_x^sx, w_y^sy), one choice
        # of (sx, sy) for the whole cell
        errs = {}
        for sx in (1, -1):
            for sy in (1, -1):
                errs[(sx, sy)] = max(np.max(np.abs(mods[idx[((sx * qa) % 4, (sy * qb) % 4)]] - imps[idx[(qa, qb)]])) for qa, qb in QUARTERS)
        best = min(errs, key=errs.get)
        res.traces += 1
        res.hist[f"convention/{best}"] = res.hist.get(f"convention/{best}", 0) + 1
        if errs[best] > 1e-12:
            ctx.k_mismatch(f"{label}: H(k) entries at the quarter-turn momenta differ from hk_gauss under every sign convention (max {errs[best]:.3g}) for {tag}", case)
        if np.max(np.abs(hamm - H0)) > 1e-12:
            ctx.k_mismatch(f"{label}: majorana_hamiltonian differs from ham_gauss for {tag}", case)
        # ---------------- S: union of Bloch spectra = spectrum of the tiling
        worst = 0.0
        for nx, ny in case["sizes"]:
            if nx * ny * n > size_cap:
                res.skip("tiling-larger-than-cap")
                continue
            bloch = np.sort(np.concatenate([np.linalg.eigvalsh(Hk(np.array(k))) for k in allowed_momenta(nx, ny)]))
            tl = eg.tile_unit_cell(P.copy(), E.copy(), C.copy(), [nx, ny])
            colt = None if col is None else np.tile(col, nx * ny)
            ut = np.tile(u, nx * ny)
            Ht = majorana_hamiltonian(tl, colt, ut, J)
            real = np.sort(np.linalg.eigvalsh(Ht))
            res.hist["tilings"] = res.hist.get("tilings", 0) + 1
            res.hist["tilings/nx!=ny"] = res.hist.get("tilings/nx!=ny", 0) + (nx != ny)
            d = np.max(np.abs(bloch - real)) if bloch.shape == real.shape else np.inf
            worst = max(worst, d)
            if d > 1e-8:
                res.violation("bloch-spectrum", f"{tag}: union of Bloch spectra differs from the spectrum of the {nx}x{ny} tiling by {d:.3g}",
                              dict(case, sizes=[[nx, ny]]))
                break
        res.extra["max_spectrum_difference"] = max(res.extra.get("max_spectrum_difference", 0.0), float(worst))
        # ---------------- S: helpers vs recomputation
        if n < 2:
            # n_states // 2 == 0: the "lower half" is empty, min over it is undefined (np.min raises ValueError);
            # the helpers clause of the property presupposes at least one level in the lower half
            res.skip("helpers: one-site cell has an empty lower half")
        for knum in ([] if n < 2 else [3, [2, 3]] if n <= 40 else [2]):
            try:
                gs, gap, klist, en = analyse_hk(Hk_, arg_forms(res, "k_num", knum, n, 0), return_all_results=True)
                gs2, gap2 = analyse_hk(Hk_, arg_forms(res, "k_num", knum, n, 1))
            except Exception as e:
                res.violation("analyse_hk-raises", f"{tag}: analyse_hk(k_num={knum}) raised {type(e).__name__}: {e}", case)
                continue
            kx, ky = (knum, knum) if isinstance(knum, int) else knum
            grid = np.array(allowed_momenta(kx, ky)).reshape(-1, 2)
            spectra = [np.linalg.eigvalsh(Hk(k)) for k in grid]
            low = np.array([s[: n // 2] for s in spectra])
            ok = klist.shape == grid.shape and np.max(np.abs(klist - grid)) < 1e-12
            if not ok:
                res.violation("k-grid", f"{tag}: analyse_hk(k_num={knum}) samples {klist.tolist()[:4]}.., not the grid 2*pi*m/n", case)
                continue
            want_gs = 2 * np.sum(low) / (len(grid) * n)
            want_gap = np.min(np.abs(low)) if low.size else None
            if en.shape != low.shape or (low.size and np.max(np.abs(en - low)) > 1e-9):
                res.violation("analyse-energies", f"{tag}: analyse_hk energies are not the lower halves of eigvalsh on the grid", case)
            if abs(gs - want_gs) > 1e-9 or abs(gs2 - gs) > 1e-12:
                res.violation("analyse-mean", f"{tag}: ground_state_per_site {gs} is not the mean of the lower half {want_gs}", case)
            if want_gap is not None and (abs(gap - want_gap) > 1e-9 or abs(gap2 - gap) > 1e-12):
                res.violation("analyse-gap", f"{tag}: gap_size {gap} is not min|E| = {want_gap}", case)
            # model of the functionals on the implementation's own eigenvalues (exact dyadics)
            S = common_scale(np.concatenate(spectra))
            helper_lines.append(" ".join(["helpers", hx(S), str(len(spectra))] +
                                         [" ".join([str(len(s))] + [hx(int(Fraction(float(x)) * S)) for x in s]) for s in spectra] + [hx(n)]))
            helper_meta.append((case, tag, knum, gs, gap, [float(np.min(np.abs(s))) for s in spectra]))
        if n <= 40:
            knum = 3
            gaps, kv = gap_over_phase_space(Hk_, arg_forms(res, "k_num", knum, n, 2), return_k_values=True)
            gaps1 = gap_over_phase_space(Hk_, arg_forms(res, "k_num", knum, n, 3))
            kvals = 2 * np.pi * np.arange(knum) / knum
            wantk = np.array([[[kvals[b], kvals[a]] for b in range(knum)] for a in range(knum)])
            if kv.shape != wantk.shape or np.max(np.abs(kv - wantk)) > 1e-12:
                res.violation("k-grid", f"{tag}: gap_over_phase_space samples a grid other than 2*pi*m/n", case)
            else:
                want = np.array([[np.min(np.abs(np.linalg.eigvalsh(Hk(wantk[a, b])))) for b in range(knum)] for a in range(knum)])
                if gaps.shape != want.shape or np.max(np.abs(gaps - want)) > 1e-9 or np.max(np.abs(gaps1 - gaps)) > 1e-12:
                    res.violation("gap-grid", f"{tag}: gap_over_phase_space is not the per-momentum min|E|", case)
        if not (np.array_equal(a_u, u) and np.array_equal(a_J, J) and (col is None or np.array_equal(a_col, col))):
            res.violation("argument-modified", f"{tag}: k_hamiltonian_generator / its closure modified coloring / ujk / J", case)
        res.sample({"case": {k: v for k, v in case.items() if k != "sizes"}, "n_sites": n, "n_edges": int(len(E)), "multigraph": bool(multigraph),
                    "H(pi/2,0)[0]": [str(x) for x in imps[idx[(1, 0)]][0][:4]], "max_spectrum_difference": float(worst)})
    # helper functionals: model vs implementation
    houts = run_driver_parallel(exe, helper_lines)
    for (case, tag, knum, gs, gap, gaps_want), o in zip(helper_meta, houts):
        if "error" in o:
            raise RuntimeError("driver: " + " ".join(o["error"]))
        q = lambda a, b: float(Fraction(unhx(a), unhx(b)))
        mgs = q(*o["gs"])
        res.traces += 1
        if abs(mgs - gs) > 1e-9:
            ctx.k_mismatch(f"{label}: ground_state_per_site {gs} vs model {mgs} for {tag} k_num={knum}", case)
        if o["gap"][0] != "N" and abs(q(*o["gap"]) - gap) > 1e-9:
            ctx.k_mismatch(f"{label}: gap_size {gap} vs model {q(*o['gap'])} for {tag} k_num={knum}", case)
        mg = [q(o["gaps"][1 + 2 * i], o["gaps"][2 + 2 * i]) for i in range(int(o["gaps"][0]))]
        if len(mg) != len(gaps_want) or max(abs(a - b) for a, b in zip(mg, gaps_want)) > 1e-12:
            ctx.k_mismatch(f"{label}: per-momentum gaps differ from the model for {tag}", case)


def grid_check(ctx):
    """model k_grid vs analyse_hk's k_list (units of 2 pi)"""
    res = ctx.res
    lat = eg.tri_non_lattice(1)
    Hk = k_hamiltonian_generator(lat, None, np.ones(lat.n_edges), np.array([1.0, 1.0, 1.0]))
    shapes = [(1, 1), (2, 3), (3, 2), (4, 4), (5, 1), (1, 4)]
    outs = run_driver(ctx.exe["c08"], [f"kgrid {hx(a)} {hx(b)}" for a, b in shapes])
    for (a, b), o in zip(shapes, outs):
        t = o["kgrid"]
        pts = [(Fraction(unhx(t[1 + 4 * i]), unhx(t[2 + 4 * i])), Fraction(unhx(t[3 + 4 * i]), unhx(t[4 + 4 * i]))) for i in range(int(t[0]))]
        _, _, kl, _ = analyse_hk(Hk, [a, b], return_all_results=True)
        m = np.array([[2 * np.pi * float(x), 2 * np.pi * float(y)] for x, y in pts])
        res.traces += 1
        res.count("k-grid", None)
        if m.shape != kl.shape or np.max(np.abs(m - kl)) > 1e-12:
            ctx.k_mismatch(f"analyse_hk k_list for k_num={[a, b]} differs from the model grid", {"kind": "kgrid", "knum": [a, b]})
        if a == b:
            _, _, kl2, _ = analyse_hk(Hk, a, return_all_results=True)
            if kl2.shape != kl.shape or np.max(np.abs(kl2 - kl)) > 1e-12:
                res.violation("k-grid", f"analyse_hk scalar k_num={a} and [a,a] sample different grids", {"kind": "kgrid", "knum": [a, b]})


def crosscheck(ctx):
    """thorough tier: a sample of hk_gauss / ham_gauss matrices re-evaluated inside Coq (vm_compute)"""
    import c10
    exe = ctx.exe["c08"]
    ex, lines, meta = [], [], []
    for case in cases_for("quick", ctx.seed)[:14]:
        s = setup(case)
        if s is None:
            continue
        P, E, C, u, J, col = s
        if len(P) > 8:
            continue
        for qa, qb in [(1, 0), (3, 2)]:
            lines.append(ser_hk(len(P), E, C, J, col, u, 1024, qa, qb))
            meta.append((len(P), E, C, u, J, col, qa, qb))
    for (n, E, C, u, J, col, qa, qb), o in zip(meta, run_driver(exe, lines)):
        v = [unhx(t) for t in o["hk"]]
        rows = ["[" + "; ".join(f"({c10.gz(v[2 * (a * n + b)])}, {c10.gz(v[2 * (a * n + b) + 1])})" for b in range(n)) + "]" for a in range(n)]
        Js = "[" + "; ".join(c10.gz(int(Fraction(float(j)) * 1024)) for j in J) + "]"
        cs = "None" if col is None else "(Some [" + "; ".join(c10.gz(c) for c in col) + "])"
        us = "[" + "; ".join(c10.gz(x) for x in u) + "]"
        ex.append((f"matrix_of {n} (hk_gauss {c10.gpairs(E.tolist())} {c10.gpairs(C.tolist())} {Js} {cs} {us} {c10.gz(qa)} {c10.gz(qb)})",
                   "[" + "; ".join(rows) + "]"))
    c10.coq_crosscheck(ctx, "c08_cases", "Gen.TilingGen Model.Lattice Model.Tiling Model.Bloch", ex)


def helpers_sweep(ctx, count, seed):
    """S only, cheap: analyse_hk / gap_over_phase_space against a recomputation from eigvalsh on many TILED random cells used as
    unit cells (several bands overlap zero there: the level nearest to zero need not be the top of the lower half)"""
    res = ctx.res
    rng = np.random.default_rng([seed, 88])
    st = res.extra.setdefault("helpers_sweep", {"cells": 0, "nearest_level_is_not_top_of_lower_half": 0})
    for i in range(count):
        cell = {"family": "tiled", "base": {"family": "voronoi", "style": gen.POINT_STYLES[i % 3], "n": int(rng.integers(2, 6)),
                                            "seed": int(rng.integers(0, 2**31)), "shift": True},
                "nxy": [[2, 3], [3, 2], [2, 2], [3, 3], [1, 3]][i % 5]}
        case = {"cell": cell, "colmode": "random", "seed": int(rng.integers(0, 2**31)), "sizes": [], "gauge": ["random", "ones"][i % 2], "helpers_only": True}
        s = setup(case)
        if s is None:
            continue
        P, E, C, u, J, col = s
        n = len(P)
        if n < 2 or n > 120:
            continue
        lat = Lattice(P.copy(), E.copy(), C.copy())
        Hk_ = k_hamiltonian_generator(lat, col, u, J)
        st["cells"] += 1
        res.count("helpers-sweep/tiled", digest([P.tolist(), E.tolist(), C.tolist(), u.tolist(), J.tolist(), col.tolist()]))
        for knum in (3, [3, 2]):
            kx, ky = (knum, knum) if isinstance(knum, int) else knum
            grid = np.array(allowed_momenta(kx, ky)).reshape(-1, 2)
            spectra = [np.linalg.eigvalsh(Hk_(k)) for k in grid]
            low = np.array([sp[: n // 2] for sp in spectra])
            want_gap = float(np.min(np.abs(low)))
            if abs(float(np.min(np.abs(low[:, -1]))) - want_gap) > 1e-9:
                st["nearest_level_is_not_top_of_lower_half"] += 1
            try:
                gs, gap = analyse_hk(Hk_, knum)
                gaps = gap_over_phase_space(Hk_, kx) if kx == ky else None
            except Exception as e:
                res.violation("analyse_hk-raises", f"tiled cell n={n}: analyse_hk(k_num={knum}) raised {type(e).__name__}: {e}", case)
                continue
            if abs(gap - want_gap) > 1e-9:
                res.violation("analyse-gap", f"tiled random cell (n={n}, {cell['nxy']} copies of a {cell['base']['n']}-seed Voronoi cell), k_num={knum}: gap_size {gap} is not min|E| = {want_gap} "
                              f"over the lower halves on the grid", case)
            if abs(gs - 2 * np.sum(low) / (len(grid) * n)) > 1e-9:
                res.violation("analyse-mean", f"tiled random cell (n={n}), k_num={knum}: ground_state_per_site {gs} is not the mean of the lower half", case)
            if gaps is not None:
                # gap_over_phase_space samples its own grid: compare value sets only through the helper's own k values
                g2, kv = gap_over_phase_space(Hk_, kx, return_k_values=True)
                g2, kv = np.asarray(g2), np.asarray(kv)
                if kv.shape == g2.shape + (2,):
                    want = np.array([np.min(np.abs(np.linalg.eigvalsh(Hk_(k)))) for k in kv.reshape(-1, 2)])
                    if np.max(np.abs(g2.ravel() - want)) > 1e-9:
                        res.violation("gap-grid", f"tiled random cell (n={n}): gap_over_phase_space is not the per-momentum min|E|", case)


def run(ctx):
    ctx.res.rule = ("unit cells: regular tilings at size 1 and 2 (4-site honeycomb cell, square 1x1 with self-loops, multi_graph), Voronoi cells 3..30 seeds "
                    "(six point styles), tiled random cells; each with random J (dyadic), random or all-ones u, random colouring or None; tilings 1x1..4x4 "
                    "(all 16, capped at 700 sites); non-trivial = distinct (cell, u, J, colouring)")
    grid_check(ctx)
    evaluate(ctx, cases_for(ctx.tier, ctx.seed), "K(bloch)", 500 if ctx.tier == "quick" else 1500)
    helpers_sweep(ctx, 400 if ctx.tier == "quick" else 3000, ctx.seed)
    if ctx.tier != "quick":
        crosscheck(ctx)


def search(ctx):
    evaluate(ctx, cases_for("thorough" if ctx.tier != "quick" else "quick", ctx.seed + 1, big=True), "search", 500 if ctx.tier == "quick" else 1200)


def replay(ctx, payload):
    case = payload["case"]
    if case.get("helpers_only"):
        helpers_sweep(ctx, 400, ctx.seed)
    elif case.get("kind") == "kgrid":
        grid_check(ctx)
    elif case.get("kind") == "crosscheck":
        crosscheck(ctx)
    else:
        case["sizes"] = [tuple(s) for s in case["sizes"]]
        evaluate(ctx, [case], "replay", 2000)
