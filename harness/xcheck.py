"""Extraction cross-check (DESIGN 1.3), shared plumbing: Gallina literals and the coqc run of a generated cases.v.

The extracted OCaml model + the hand-written drivers are in the trusted base of every correspondence run.  To shrink
that trust each harness re-derives a sample of its driver's answers INSIDE Coq: one
    Goal <model function applied to the Gallina literal of the input> = <Gallina literal of the driver's answer>.
    Proof. vm_compute. reflexivity. Qed.
per answer, in a generated cases.v compiled against the current tree.  A wrong Extract directive, a miscompiled
model.ml or a driver/hexio bug then makes coqc fail -> RuntimeError -> the runner reports a broken harness.
Pattern: latmodel.coq_crosscheck (C01).  Integers travel as Z literals, indices as small nat literals."""
import os, shutil, subprocess, tempfile, time
from lib import VERIF, scaled_ints

LAST_WALL = 0.0     # seconds spent in the last compile_goals (generation excluded)
NAT_MAX = 4000      # never write a nat numeral above a few thousand (unary)


def z(n):
    return f"({int(n)})%Z"


def nat(n):
    n = int(n)
    if not 0 <= n <= NAT_MAX:
        raise ValueError(f"nat literal {n} out of the range written out in a cross-check")
    return f"{n}%nat"


def boolean(b):
    return "true" if b else "false"


def lst(f, xs):
    return "[" + "; ".join(f(x) for x in xs) + "]"


def natlist(xs):
    return lst(nat, xs)


def zlist(xs):
    return lst(z, xs)


def pair(f, g):
    return lambda ab: f"({f(ab[0])}, {g(ab[1])})"


def option(f, ty=None):
    """None -> None (with a type annotation when given, for lists that may hold nothing else)"""
    return lambda x: ("None" if ty is None else f"(@None {ty})") if x is None else f"(Some {f(x)})"


onat = option(nat)
zpair = pair(z, z)
natpair = pair(nat, nat)


def lattice_ints(S, P, edges, crossing):
    """Model/Lattice.v literal from integers: scale, scaled positions, edge index pairs, crossing pairs"""
    return ("(mkLattice " + z(S) + " " + lst(zpair, P) + " " + lst(natpair, [(int(j), int(k)) for j, k in edges]) + " "
            + lst(zpair, [(int(a), int(b)) for a, b in crossing]) + ")")


def lattice(pos, edges, crossing, S):
    """Model/Lattice.v literal of the arrays exactly as lib.ser_lattice_arrays sends them to a driver"""
    return lattice_ints(S, scaled_ints(pos, S), edges, crossing)


def read_lattice(c):
    """read '<scale> <nV> x y .. <nE> j k .. <nE> cx cy ..' (lib.ser_lattice_arrays) back from a lib.Cursor: (S, P, edges, crossing)"""
    S = c.z()
    return S, c.list(lambda: (c.z(), c.z())), c.list(lambda: (c.int(), c.int())), c.list(lambda: (c.z(), c.z()))


def goal(lhs, rhs):
    return f"Goal {lhs} = {rhs}. Proof. vm_compute. reflexivity. Qed."


def compile_goals(tag, imports, body, what, timeout=900, stdlib="List ZArith Bool"):
    """write cases.v (header + body) under a fresh /var/tmp directory, compile it with coqc against /verif/coq, remove the
    directory; RuntimeError when coqc fails.  Returns the number of Goal sentences."""
    global LAST_WALL
    LAST_WALL, t0 = 0.0, time.time()
    goals = sum(1 for ln in body if ln.startswith("Goal "))
    if not goals:
        return 0
    head = [f"From Coq Require Import {stdlib}.", f"From Koala Require Import {imports}.",
            "Import ListNotations.", "Open Scope Z_scope."]
    d = tempfile.mkdtemp(prefix=f"{tag}x-", dir="/var/tmp")
    try:
        path = os.path.join(d, "cases.v")
        with open(path, "w") as f:
            f.write("\n".join(head + body) + "\n")
        cmd = ["timeout", str(timeout), "coqc", "-Q", os.path.join(VERIF, "coq"), "Koala", "cases.v"]
        p = subprocess.run(cmd, cwd=d, stdout=subprocess.PIPE, stderr=subprocess.STDOUT, text=True)
        if p.returncode not in (0, 124) and "Unable to unify" not in p.stdout:
            # not a disagreement (that is reflexivity's "Unable to unify"): e.g. a .vo being rewritten by a concurrent
            # ./check at the moment it was loaded.  One retry; a real breakage (renamed model function, ...) fails again.
            time.sleep(15)
            p = subprocess.run(cmd, cwd=d, stdout=subprocess.PIPE, stderr=subprocess.STDOUT, text=True)
        if p.returncode != 0:
            msg = p.stdout[-900:]
            m = __import__("re").search(r'line (\d+)', p.stdout)
            if m:
                src = open(path).read().splitlines()
                ln = int(m.group(1))
                if 1 <= ln <= len(src):
                    msg += "\n  at: " + src[ln - 1][:400]
            raise RuntimeError(f"extraction cross-check: the {what} driver's answer is not what vm_compute gives inside Coq"
                               f" (coqc exit {p.returncode}): " + msg)
    finally:
        shutil.rmtree(d, ignore_errors=True)
        LAST_WALL = round(time.time() - t0, 1)
    return goals
