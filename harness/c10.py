"""C10 — built-in lattice generators produce the tilings they are named after; tile_unit_cell.

S (spec on the implementation's outputs): census / areas / two-sidedness / Euler / degrees through the
   extracted Gallina checker closed_tiling (Model/Tiling.v) run on the implementation's exact arrays AND
   restated in Python on the implementation's own lattice.plaquettes; proper 3-edge-colouring;
   tile_structure restated directly on tile_unit_cell's output (copies, joins, wrap crossings, positions,
   translated edge vectors); sizes and flux sector of the helpers.
K (model vs implementation): every generator's (positions~, edges, crossing, colouring) exactly, for the
   sizes of the property's quantifier; tile_unit_cell on regular and random Voronoi cells; the seven fixed fixture
   graphs (two_triangles .. star_lattice_sheared) against the records TRANSLATED from their source literals
   (translate/fixtures.py -> Gen/FixturesGen.v: positions exactly as dyadics, edges, crossings, colouring, ujk;
   tutte_graph recentres its vertices with float arithmetic: its positions are not translated), and their
   plaquette census three ways (implementation, plaquette model on the implementation's arrays, on the model's).
Translator tie: generated Gallina helpers vs the Python functions on an exhaustive grid, every run."""
from lib import *  # noqa
import gen
import sys
sys.path.insert(0, os.path.join(VERIF, "translate"))
import tiling_helpers
from koala import example_graphs as eg
from koala import voronization
from koala.lattice import Lattice, LatticeException
from koala.flux_finder import fluxes_from_bonds

DRIVERS = ("c10",)
TRANSLATORS = ("tiling_helpers", "fixtures")
MODEL_TARGETS = ["Gen/TilingGen.vo", "Model/Lattice.vo", "Model/Tiling.vo", "Model/Examples.vo", "Gen/FixturesGen.vo"]
TARGETS = ["Proofs/TilingFacts.vo", "Proofs/TilingCount.vo", "Proofs/ExamplesFacts.vo", "Proofs/ExamplesIndex.vo", "Proofs/ExamplesCensus.vo", "Proofs/ExamplesCensusHC1.vo", "Proofs/ExamplesCensusHC2.vo", "Proofs/ExamplesCensusHC3.vo", "Proofs/ExamplesClaims.vo",
           "Proofs/PeriodicRot.vo", "Proofs/PeriodicFaces.vo", "Proofs/PeriodicTile.vo", "Proofs/PeriodicExamples.vo",
           "Proofs/PeriodicBlock.vo", "Proofs/PeriodicGenerators.vo", "Proofs/TileDegree.vo", "Proofs/FixturesFacts.vo", "Proofs/PeriodicClosed.vo"]
LEVEL = "proof"
TRUST = [
    "translate/fixtures.py reads the literal arrays of the seven fixed fixture graphs (fail closed on anything but np.array literals, zeros_like, [[0,0]]*n, int -= k; float arithmetic on positions makes them opaque = taken from the implementation)",
    "translate/tiling_helpers.py maps Python int //, %, comparisons, bool*int of _next_cell_number, _crossing and the two nested next_direction closures to Z.div, Z.modulo, Z.eqb, b2z (validated on an exhaustive grid of small arguments on every run, divisors != 0; not proved)",
    "hand-written Gallina models coq/Model/Tiling.v (tile_unit_cell's double loop) and coq/Model/Examples.v (numpy index arithmetic of the generators): modelled, not verified; tied to the code by the correspondence run for every size in the property's quantifier",
    "plaquette census theorems use coq/Model/Lattice.v's find_all_plaquettes (C01's model, tied to lattice.py by C01's correspondence); they hold for ALL sizes >= 2 (Proofs/Periodic*.v: faces of a periodic lattice = translates of the faces of its cell; per-cell certificates computed and checked in Coq) and, independently, by vm_compute for the quantifier's size ranges; ladder census and make_honeycomb flux sector remain bounded (vm_compute)",
    "honeycomb y-positions contain the irrational uniform shift 0.01/(sqrt3*nv): the model uses it to 18 decimals (census, areas, rotation system are invariant under a uniform translation); single_plaquette / wheel / wobbling ladder positions (cos, sin) are taken from the implementation as exact dyadics",
    "float positions of the implementation are compared with the exact rational model values to 1e-12; combinatorics exactly",
]
ASSUMPTIONS = ["sizes as in the property's quantifier; unit cells with crossings in {-1,0,1}^2 (what Lattice edges of a unit cell are)"]

TOL = 1e-12


# ------------------------------------------------------------------ serialisation
SHARED_CELL_ARGS = {}      # caller-owned unit-cell arrays reused across tile_unit_cell calls (see evaluate of the tile jobs)


def ser_z(positions, edges, crossing, S=None):
    positions = np.asarray(positions, dtype=float).reshape(-1, 2)
    edges = np.asarray(edges).reshape(-1, 2)
    crossing = np.asarray(crossing).reshape(-1, 2)
    if S is None:
        S = max(common_scale(positions), 2)
    P = scaled_ints(positions, S)
    toks = [hx(S), str(len(P))]
    for x, y in P:
        toks += [hx(x), hx(y)]
    toks.append(str(len(edges)))
    for j, k in edges:
        toks += [hx(j), hx(k)]
    toks.append(str(len(crossing)))
    for a, b in crossing:
        toks += [hx(a), hx(b)]
    return " ".join(toks), S


def ser_pos(positions):
    positions = np.asarray(positions, dtype=float).reshape(-1, 2)
    S = max(common_scale(positions), 2)
    P = scaled_ints(positions, S)
    return " ".join([hx(S), str(len(P))] + [hx(v) for p in P for v in p])


def parse_zl(d):
    if "error" in d:
        raise RuntimeError("driver: " + " ".join(d["error"]))
    S = unhx(d["scale"][0])
    c = Cursor(d["pos"]); pos = c.list(lambda: (c.z(), c.z()))
    c = Cursor(d["edges"]); edges = c.list(lambda: (c.z(), c.z()))
    c = Cursor(d["crossing"]); cr = c.list(lambda: (c.z(), c.z()))
    out = {"scale": S, "pos": pos, "edges": edges, "crossing": cr}
    for k in ("col", "ujk"):
        if k in d:
            c = Cursor(d[k]); out[k] = c.list(c.z)
    if "nv" in d:
        out["nv"] = unhx(d["nv"][0])
    return out


# ------------------------------------------------------------------ generators under test
def size_lists(tier, big=False):
    """the property's quantifier, all of it in both tiers (it is cheap); big=True: the search's enlarged ranges"""
    if big:
        return dict(honeycomb=list(range(1, 23)), hso=list(range(1, 11)),
                    tri=[(a, b) for a in range(1, 8) for b in range(1, 8)], tri_scalar=list(range(1, 8)),
                    square=[(a, b) for a in range(2, 10) for b in range(2, 10)],
                    polygon=list(range(3, 49)), ladder=list(range(3, 37)), make_hc=list(range(1, 15)))
    return dict(
        honeycomb=list(range(2, 17)),
        hso=list(range(2, 9)),
        tri=[(a, b) for a in range(2, 7) for b in range(2, 7)],
        tri_scalar=list(range(2, 7)),
        square=[(a, b) for a in range(2, 9) for b in range(2, 9)],
        polygon=list(range(3, 41)),
        ladder=list(range(3, 31)),
        make_hc=list(range(2, 13)),
    )


def generator_cases(tier, big=False):
    s = size_lists(tier, big)
    out = []
    for n in s["honeycomb"]:
        out.append({"kind": "gen", "name": "honeycomb_lattice", "args": [n]})
    for n in s["hso"]:
        out.append({"kind": "gen", "name": "hex_square_oct_lattice", "args": [n]})
    for a, b in s["tri"]:
        out.append({"kind": "gen", "name": "tri_non_lattice", "args": [[a, b]]})
    for n in s["tri_scalar"]:
        out.append({"kind": "gen", "name": "tri_non_lattice", "args": [n]})
    for a, b in s["square"]:
        out.append({"kind": "gen", "name": "square_lattice", "args": [a, b]})
    for n in s["polygon"]:
        out.append({"kind": "gen", "name": "single_plaquette", "args": [n]})
        out.append({"kind": "gen", "name": "higher_coordination_number_example", "args": [n]})
    for n in s["ladder"]:
        out.append({"kind": "gen", "name": "n_ladder", "args": [n, False]})
        out.append({"kind": "gen", "name": "n_ladder", "args": [n, True]})
    for n in s["make_hc"]:
        out.append({"kind": "gen", "name": "make_honeycomb", "args": [n]})
    return out


def run_impl(case):
    """-> dict(pos, edges, crossing, col, ujk, lat)"""
    name, args = case["name"], case["args"]
    col = ujk = None
    if name == "honeycomb_lattice":
        lat, col = eg.honeycomb_lattice(args[0], return_coloring=True)
        lat2 = eg.honeycomb_lattice(args[0])
        if not (np.array_equal(lat.edges.indices, lat2.edges.indices) and np.array_equal(lat.vertices.positions, lat2.vertices.positions)):
            raise AssertionError("return_coloring changes the lattice")
    elif name == "tri_non_lattice":
        lat, col = eg.tri_non_lattice(args[0], return_coloring=True)
    elif name == "make_honeycomb":
        lat, col, ujk = eg.make_honeycomb(args[0])
    else:
        lat = getattr(eg, name)(*args)
    return {"lat": lat, "pos": np.array(lat.vertices.positions, dtype=float), "edges": np.array(lat.edges.indices, dtype=int),
            "crossing": np.array(lat.edges.crossing, dtype=int), "col": None if col is None else np.asarray(col),
            "ujk": None if ujk is None else np.asarray(ujk)}


def model_line(case, r):
    name, a = case["name"], case["args"]
    if name in ("honeycomb_lattice", "make_honeycomb"):
        return f"gen honeycomb {hx(a[0])}"
    if name == "hex_square_oct_lattice":
        return f"gen hso {hx(a[0])}"
    if name == "tri_non_lattice":
        nx, ny = (a[0], a[0]) if isinstance(a[0], int) else a[0]
        return f"gen tri_non {hx(nx)} {hx(ny)}"
    if name == "square_lattice":
        return f"gen square {hx(a[0])} {hx(a[1])}"
    if name == "single_plaquette":
        return f"genpos single_plaquette {hx(a[0])} {ser_pos(r['pos'])}"
    if name == "higher_coordination_number_example":
        return f"genpos higher_coordination {hx(a[0])} {ser_pos(r['pos'][:-1])}"
    if name == "n_ladder":
        return f"genpos ladder {hx(a[0])} {ser_pos(r['pos'])}" if a[1] else f"gen ladder {hx(a[0])}"
    raise ValueError(name)


def expected(case):
    """(closed?, census {sides: count}, degree or None, V, E) as advertised by the property"""
    name, a = case["name"], case["args"]
    if name in ("honeycomb_lattice", "make_honeycomb"):
        n = a[0]
        nv = (math.isqrt(12 * n * n) + 3) // 6      # the integer nearest to n / sqrt(3), exactly
        assert 3 * (2 * nv - 1) ** 2 < 4 * n * n < 3 * (2 * nv + 1) ** 2
        return True, {6: 2 * n * nv}, 3, 4 * n * nv, 6 * n * nv
    if name == "hex_square_oct_lattice":
        n = a[0]
        return True, {4: n * n, 6: n * n, 8: n * n}, 3, 6 * n * n, 9 * n * n
    if name == "tri_non_lattice":
        nx, ny = (a[0], a[0]) if isinstance(a[0], int) else a[0]
        return True, {3: nx * ny, 9: nx * ny}, 3, 4 * nx * ny, 6 * nx * ny
    if name == "square_lattice":
        return True, {4: a[0] * a[1]}, 4, a[0] * a[1], 2 * a[0] * a[1]
    if name == "single_plaquette":
        return False, {a[0]: 1}, 2, a[0], a[0]
    if name == "higher_coordination_number_example":
        return False, {3: a[0]}, None, a[0] + 1, 2 * a[0]
    if name == "n_ladder":
        return False, {4: a[0]}, 3, 2 * a[0], 3 * a[0]
    raise ValueError(name)


def in_quantifier(case):
    """sizes below 'two cells per direction' are outside the property (degenerate tori): K only"""
    name, a = case["name"], case["args"]
    if name in ("honeycomb_lattice", "make_honeycomb", "hex_square_oct_lattice"):
        return a[0] >= 2
    if name == "tri_non_lattice":
        nx, ny = (a[0], a[0]) if isinstance(a[0], int) else a[0]
        return nx >= 2 and ny >= 2
    if name == "square_lattice":
        return a[0] >= 2 and a[1] >= 2
    return True


def exact_area2(pos, edges, crossing, p):
    """twice the exact signed area of an implementation plaquette (Fractions)"""
    cur = (Fraction(0), Fraction(0))
    pts = []
    for e, d in zip(p.edges, p.directions):
        j, k = int(edges[e][0]), int(edges[e][1])
        v = (Fraction(float(pos[k][0])) - Fraction(float(pos[j][0])) + int(crossing[e][0]),
             Fraction(float(pos[k][1])) - Fraction(float(pos[j][1])) + int(crossing[e][1]))
        cur = (cur[0] + int(d) * v[0], cur[1] + int(d) * v[1])
        pts.append(cur)
    n = len(pts)
    return sum(pts[i][0] * pts[(i + 1) % n][1] - pts[(i + 1) % n][0] * pts[i][1] for i in range(n))


def python_spec(case, r, closed, census, degree, V, E):
    """the property restated on the implementation's own Lattice object -> list of (key, what)"""
    bad = []
    lat = r["lat"]
    if lat.n_vertices != V or lat.n_edges != E:
        bad.append(("size", f"{case['name']}{case['args']}: V={lat.n_vertices} E={lat.n_edges}, advertised {V}, {E}"))
    try:
        pl = lat.plaquettes
    except LatticeException as e:
        return bad + [("plaquettes-raise", f"{case['name']}{case['args']}: {e}")]
    got = {}
    for p in pl:
        got[int(p.n_sides)] = got.get(int(p.n_sides), 0) + 1
    if got != census:
        bad.append(("census", f"{case['name']}{case['args']}: polygons {got}, advertised {census}"))
    coord = np.bincount(r["edges"].ravel(), minlength=lat.n_vertices)
    if degree is not None and not np.all(coord == degree):
        bad.append(("degree", f"{case['name']}{case['args']}: coordination numbers {sorted(set(coord.tolist()))}, advertised {degree}"))
    if case["name"] == "higher_coordination_number_example":
        n = case["args"][0]
        if coord[n] != n or not np.all(coord[:n] == 3):
            bad.append(("degree", f"wheel {n}: centre degree {coord[n]}, rim {sorted(set(coord[:n].tolist()))}"))
    areas = [exact_area2(r["pos"], r["edges"], r["crossing"], p) for p in pl]
    if any(a <= 0 for a in areas):
        bad.append(("area-sign", f"{case['name']}{case['args']}: plaquette with non-positive area"))
    if closed:
        if lat.n_vertices - lat.n_edges + len(pl) != 0:
            bad.append(("euler", f"{case['name']}{case['args']}: V-E+F = {lat.n_vertices - lat.n_edges + len(pl)}"))
        if abs(float(sum(areas)) / 2 - 1) > 1e-9:
            bad.append(("area-sum", f"{case['name']}{case['args']}: plaquette areas sum to {float(sum(areas)) / 2}"))
        ep = np.asarray(lat.edges.adjacent_plaquettes)
        if ep.size and np.any(ep == INVALID):
            bad.append(("two-sided", f"{case['name']}{case['args']}: an edge has no plaquette on one side"))
    if r["col"] is not None:
        col = np.asarray(r["col"])
        ok = len(col) == lat.n_edges and set(np.unique(col).tolist()) <= {0, 1, 2}
        if ok:
            for v in range(lat.n_vertices):
                cs = [int(col[e]) for e in range(lat.n_edges) for t in (0, 1) if r["edges"][e][t] == v] if lat.n_vertices <= 64 else None
                if cs is not None and len(set(cs)) != len(cs):
                    ok = False
            if lat.n_vertices > 64:
                ends = np.concatenate([r["edges"][:, 0], r["edges"][:, 1]])
                cc = np.concatenate([col, col])
                key = ends * 3 + cc
                ok = len(np.unique(key)) == len(key)
        if not ok:
            bad.append(("colouring", f"{case['name']}{case['args']}: the supplied colouring is not a proper 3-edge-colouring"))
    if r["ujk"] is not None:
        u = r["ujk"]
        if len(u) != lat.n_edges or not np.all(u == 1):
            bad.append(("ujk", f"make_honeycomb{case['args']}: ujk is not all +1 of length E"))
        fl = fluxes_from_bonds(lat, u)
        want = np.array([eg.ground_state_ansatz(p.n_sides) for p in pl])
        if len(fl) != len(want) or not np.all(fl == want):
            bad.append(("flux-sector", f"make_honeycomb{case['args']}: fluxes {sorted(set(np.asarray(fl).tolist()))} are not the ground-state sector"))
        if r["col"].dtype != np.int8 or u.dtype != np.int8:
            bad.append(("dtype", f"make_honeycomb{case['args']}: colouring/ujk not int8"))
    return bad


def convex_ccw(pos):
    P = [(Fraction(float(x)), Fraction(float(y))) for x, y in pos]
    n = len(P)
    for i in range(n):
        a, b, c = P[i], P[(i + 1) % n], P[(i + 2) % n]
        if (b[0] - a[0]) * (c[1] - b[1]) - (b[1] - a[1]) * (c[0] - b[0]) <= 0:
            return False
    return True


def evaluate_generators(ctx, cases, label):
    res = ctx.res
    impl = []
    for c in cases:
        try:
            impl.append(run_impl(c))
        except Exception as e:
            impl.append(None)
            res.count("generator/" + c["name"])
            res.violation("generator-raises:" + c["name"], f"{c['name']}{c['args']} raised {type(e).__name__}: {e}", c)
    todo = [(c, r) for c, r in zip(cases, impl) if r is not None]
    mlines = [model_line(c, r) for c, r in todo]
    slines, plines, flines = [], [], []
    for c, r in todo:
        closed, census, degree, V, E = expected(c)
        zl, S = ser_z(r["pos"], r["edges"], r["crossing"])
        cen = " ".join(f"{k} {v}" for k, v in sorted(census.items()))
        slines.append(f"spec {zl} {degree if degree is not None else 0} {len(census)} {cen}")
        if r["col"] is not None:
            plines.append("proper " + " ".join([hx(len(r["pos"])), str(len(r["edges"]))] + [hx(v) for e in r["edges"] for v in e]
                                               + [str(len(r["col"]))] + [hx(int(v)) for v in r["col"]]))
        else:
            plines.append(None)
        flines.append(f"flux {zl} {len(r['ujk'])} " + " ".join(hx(int(v)) for v in r["ujk"]) if r["ujk"] is not None else None)
    exe = ctx.exe["c10"]
    mout = run_driver_parallel(exe, mlines)
    sout = run_driver_parallel(exe, slines)
    pidx = [i for i, l in enumerate(plines) if l]
    pout = dict(zip(pidx, run_driver_parallel(exe, [plines[i] for i in pidx])))
    fidx = [i for i, l in enumerate(flines) if l]
    fout = dict(zip(fidx, run_driver_parallel(exe, [flines[i] for i in fidx])))
    for i, (c, r) in enumerate(todo):
        name = c["name"]
        closed, census, degree, V, E = expected(c)
        inq = in_quantifier(c)
        nontriv = (name, json.dumps(c["args"])) if inq else None
        res.count("generator/" + name, nontriv)
        # ---------------- K
        m = parse_zl(mout[i])
        diffs = []
        if [tuple(map(int, e)) for e in r["edges"]] != m["edges"]:
            bad = [k for k in range(min(len(m["edges"]), len(r["edges"]))) if tuple(map(int, r["edges"][k])) != m["edges"][k]]
            diffs.append(f"edges differ (model {len(m['edges'])}, impl {len(r['edges'])}; first at {bad[:3]})")
        if [tuple(map(int, e)) for e in r["crossing"]] != m["crossing"]:
            bad = [k for k in range(min(len(m["crossing"]), len(r["crossing"]))) if tuple(map(int, r["crossing"][k])) != m["crossing"][k]]
            diffs.append(f"crossing differs (first at {bad[:3]})")
        mp = np.array([[float(Fraction(x, m["scale"])), float(Fraction(y, m["scale"]))] for x, y in m["pos"]]).reshape(-1, 2)
        if mp.shape != r["pos"].shape or (mp.size and np.max(np.abs(mp - r["pos"])) > TOL):
            diffs.append(f"positions differ (max {np.max(np.abs(mp - r['pos'])) if mp.shape == r['pos'].shape else 'shape'})")
        if r["col"] is not None and [int(x) for x in r["col"]] != m.get("col"):
            diffs.append("colouring differs")
        if r["ujk"] is not None and [int(x) for x in r["ujk"]] != m.get("ujk"):
            diffs.append("ujk differs")
        res.traces += 1
        if diffs:
            ctx.k_mismatch(f"{label} {name}{c['args']}: {diffs}", c)
        # ---------------- S
        if not inq:
            continue
        for key, what in python_spec(c, r, closed, census, degree, V, E):
            res.violation(key + ":" + name, what, c)
        so = sout[i]
        if "error" in so:
            raise RuntimeError(f"driver error {so['error']} on {c}")
        g_ok = so["wf"][0] == "1" and (so["closed"][0] == "1" if closed else so["open"][0] == "1")
        if degree is not None and so["degree"][0] != "1":
            g_ok = False
        if not g_ok:
            margin = angular_margin(r["lat"])
            if margin < 1e-9:
                res.skip("gallina-checker-on-nongeneric-positions(angular margin<1e-9)")
            else:
                res.violation("gallina-spec:" + name, f"{name}{c['args']}: the Gallina checker rejects the implementation's lattice "
                              f"(closed={so['closed'][0]} open={so['open'][0]} degree={so['degree'][0]} plaquettes={so['plaquettes'][0]} "
                              f"sides={sorted(set(so.get('sides', ['?'])[1:]))})", c)
        if i in pout and pout[i]["proper"][0] != "1":
            res.violation("gallina-colouring:" + name, f"{name}{c['args']}: proper_coloring rejects the supplied colouring", c)
        if i in fout:
            fl = fout[i]["flux"]
            if fl[0] == "ERR" or any(unhx(x) != 1 for x in fl[1:]):
                res.violation("gallina-flux:" + name, f"{name}{c['args']}: fluxes of the all-ones bonds are not all +1 (ground_state_ansatz(6))", c)
        if name == "single_plaquette" and not convex_ccw(r["pos"]):
            res.violation("convex:" + name, f"single_plaquette({c['args'][0]}) is not a counter-clockwise convex polygon", c)
        res.sample({"case": c, "V": int(len(r["pos"])), "E": int(len(r["edges"])), "census": census,
                    "first_edges": r["edges"][:4].tolist(), "first_crossing": r["crossing"][:4].tolist()})


# ------------------------------------------------------------------ tile_unit_cell
def unit_cells(tier, seed, big=False):
    """unit cells: the regular generators' outputs and random Voronoi lattices"""
    rng = np.random.default_rng([seed, 10])
    out = [{"family": "example", "name": "honeycomb_lattice", "args": [1]},
           {"family": "example", "name": "honeycomb_lattice", "args": [2]},
           {"family": "example", "name": "hex_square_oct_lattice", "args": [1]},
           {"family": "example", "name": "tri_non_lattice", "args": [1]},
           {"family": "example", "name": "tri_non_lattice", "args": [[2, 1]]},
           {"family": "example", "name": "square_lattice", "args": [2, 3]},
           {"family": "example", "name": "star_lattice_sheared"},
           {"family": "example", "name": "multi_graph"},
           # brick cells: edges leaving the cell through a CORNER (crossing non-zero in x and y), both signs
           {"family": "raw", "name": "brick", "positions": [[0.2, 0.2], [0.8, 0.8]], "edges": [[0, 1], [1, 0], [1, 0]],
            "crossing": [[0, 0], [1, 1], [0, 1]]},
           {"family": "raw", "name": "brick_mixed", "positions": [[0.2, 0.7], [0.7, 0.2], [0.5, 0.5]],
            "edges": [[0, 1], [1, 0], [2, 0], [1, 2], [2, 2]], "crossing": [[1, -1], [-1, 1], [0, 0], [-1, -1], [1, 1]]}]
    if tier != "quick" or big:
        out += [{"family": "example", "name": "hex_square_oct_lattice", "args": [2]},
                {"family": "example", "name": "honeycomb_lattice", "args": [3]},
                {"family": "example", "name": "square_lattice", "args": [1, 1]},
                {"family": "example", "name": "square_lattice", "args": [3, 2]}]
    nvor = 8 if tier == "quick" else 120
    if big:
        nvor *= 3
    for i in range(nvor):
        n = int(rng.integers(2, 8)) if i % 2 == 0 else int(rng.integers(8, 31))
        out.append({"family": "voronoi", "style": gen.POINT_STYLES[i % len(gen.POINT_STYLES)], "n": n,
                    "seed": int(rng.integers(0, 2**31)), "shift": bool(i % 2)})
    return out


def tile_spec(P, E, C, nx, ny, lat):
    """tile_structure restated on the implementation's output -> list of (key, what)"""
    bad = []
    ns, ne = len(P), len(E)
    if lat.n_vertices != nx * ny * ns or lat.n_edges != nx * ny * ne:
        return [("tile-copies", f"{lat.n_vertices} vertices / {lat.n_edges} edges, expected exactly {nx * ny} copies of {ns} / {ne}")]
    m = np.arange(nx * ny)
    mx, my = m % nx, m // nx
    pos = np.asarray(lat.vertices.positions).reshape(nx * ny, ns, 2)
    want = (P[None, :, :] + np.stack([mx, my], axis=1)[:, None, :]) / np.array([nx, ny])
    if np.max(np.abs(pos - want)) > TOL:
        bad.append(("tile-positions", "a site is not (p + cell shift) / (nx, ny)"))
    if ne:
        ed = np.asarray(lat.edges.indices).reshape(nx * ny, ne, 2)
        cr = np.asarray(lat.edges.crossing).reshape(nx * ny, ne, 2)
        tx = mx[:, None] + C[None, :, 0]
        ty = my[:, None] + C[None, :, 1]
        tgt = (ty % ny) * nx + (tx % nx)
        if not np.array_equal(ed[:, :, 0], E[None, :, 0] + ns * m[:, None]):
            bad.append(("tile-join", "first end of a tiled edge is not site j of its own cell"))
        if not np.array_equal(ed[:, :, 1], E[None, :, 1] + ns * tgt):
            bad.append(("tile-join", "second end of a tiled edge is not site k of cell m + c (mod (nx, ny))"))
        if not (np.array_equal(cr[:, :, 0], tx // nx) and np.array_equal(cr[:, :, 1], ty // ny)):
            bad.append(("tile-crossing", "crossing of a tiled edge is not the wrap indicator of m + c"))
        # geometry: every copy of edge e has the unit cell's edge vector scaled by 1/(nx, ny)
        uv = (P[E[:, 1]] - P[E[:, 0]] + C) / np.array([nx, ny])
        tv = np.asarray(lat.edges.vectors).reshape(nx * ny, ne, 2)
        if np.max(np.abs(tv - uv[None, :, :])) > 1e-10:
            bad.append(("tile-vector", "a tiled edge vector is not the translated copy of the unit cell's edge vector"))
    return bad


def evaluate_tilings(ctx, cells, sizes, label, census_budget):
    res = ctx.res
    exe = ctx.exe["c10"]
    jobs = []
    for cell in cells:
        arr, why = gen.try_build(cell)
        if arr is None:
            res.skip("generator-could-not-build-unit-cell")
            continue
        P, E, C = arr
        if len(E) and np.max(np.abs(C)) > 1:
            res.skip("unit-cell-crossing-outside-{-1,0,1}")
            continue
        for (nx, ny) in sizes:
            jobs.append((cell, P, E, C, nx, ny))
    lines = []
    for cell, P, E, C, nx, ny in jobs:
        zl, S = ser_z(P, E, C)
        lines.append(f"tile {zl} {hx(nx)} {hx(ny)}")
    outs = run_driver_parallel(exe, lines)
    census_jobs = []
    for (cell, P, E, C, nx, ny), o in zip(jobs, outs):
        case = {"kind": "tile", "cell": cell, "nxy": [nx, ny]}
        fam = "tile/" + cell["family"] + ("/" + cell["name"] if "name" in cell else "")
        multigraph = len(E) and len({(min(a, b), max(a, b)) for a, b in E.tolist()}) < len(E)
        nontriv = digest([P.tolist(), E.tolist(), C.tolist(), nx, ny]) if (len(E) and np.any(C != 0)) else None
        res.count(fam, nontriv)
        res.hist["tile/nx!=ny"] = res.hist.get("tile/nx!=ny", 0) + (nx != ny)
        res.hist["tile/multigraph-cell"] = res.hist.get("tile/multigraph-cell", 0) + bool(multigraph)
        res.hist["tile/corner-crossing-cell"] = res.hist.get("tile/corner-crossing-cell", 0) + bool(len(E) and np.any((C[:, 0] != 0) & (C[:, 1] != 0)))
        try:
            # the same unit-cell arrays are tiled again and again (1..4 x 1..4): hand over ONE set of caller-owned arrays
            # per cell and check that a call leaves them unchanged, so that later tilings see the same cell
            own = SHARED_CELL_ARGS.setdefault(digest([P.tolist(), E.tolist(), C.tolist()]), (P.copy(), E.copy(), C.copy()))
            lat = eg.tile_unit_cell(own[0], own[1], own[2], [nx, ny])
            if not (np.array_equal(own[0], P) and np.array_equal(own[1], E) and np.array_equal(own[2], C)):
                res.violation("tile-modifies-its-arguments", f"tile_unit_cell(points, edges, crossing, [{nx},{ny}]) changed the arrays passed to it "
                              f"(max |delta points| = {float(np.max(np.abs(own[0] - P))) if len(P) else 0:.3g}): a later tiling of the same cell is then a tiling of another cell", case)
                own[0][...] = P; own[1][...] = E; own[2][...] = C
            if nx == ny:
                lat_s = eg.tile_unit_cell(P.copy(), E.copy(), C.copy(), nx)
                if not (np.array_equal(lat_s.edges.indices, lat.edges.indices) and np.array_equal(lat_s.edges.crossing, lat.edges.crossing)
                        and np.array_equal(lat_s.vertices.positions, lat.vertices.positions)):
                    res.violation("tile-scalar-n", f"tile_unit_cell(.., {nx}) differs from tile_unit_cell(.., [{nx},{nx}])", case)
        except Exception as e:
            # a 1x1 / tiny tiling may legitimately be a lattice whose plaquette walk is stuck only at
            # .plaquettes; construction itself must work
            res.violation("tile-raises", f"tile_unit_cell raised {type(e).__name__}: {e}", case)
            continue
        # K
        m = parse_zl(o)
        if o["wf"][0] != "1":
            raise RuntimeError(f"unit cell not well-formed for the model: {cell}")
        diffs = []
        if [tuple(map(int, e)) for e in np.asarray(lat.edges.indices).reshape(-1, 2)] != m["edges"]:
            diffs.append("edges")
        if [tuple(map(int, e)) for e in np.asarray(lat.edges.crossing).reshape(-1, 2)] != m["crossing"]:
            diffs.append("crossing")
        mp = np.array([[float(Fraction(x, m["scale"])), float(Fraction(y, m["scale"]))] for x, y in m["pos"]]).reshape(-1, 2)
        ip = np.asarray(lat.vertices.positions).reshape(-1, 2)
        if mp.shape != ip.shape or (mp.size and np.max(np.abs(mp - ip)) > TOL):
            diffs.append("positions")
        res.traces += 1
        if diffs:
            ctx.k_mismatch(f"{label} tile_unit_cell {cell} x {nx},{ny}: {diffs} differ", case)
        # S
        for key, what in tile_spec(P, E, C, nx, ny, lat):
            res.violation(key, f"tile_unit_cell of {cell.get('name', cell['family'])} {nx}x{ny}: {what}", case)
        census_jobs.append((case, P, E, C, nx, ny, lat))
        if len(res.samples) < 6 and nx != ny and len(E):
            res.sample({"case": case, "unit": [len(P), len(E)], "tiled": [lat.n_vertices, lat.n_edges],
                        "first_edges": np.asarray(lat.edges.indices)[:3].tolist(), "first_crossing": np.asarray(lat.edges.crossing)[:3].tolist()})
    # census multiplicativity: if the unit cell is itself a closed tiling (every face a valid
    # plaquette), the nx x ny tiling has exactly nx*ny copies of every polygon, area 1, V-E+F=0
    rng = np.random.default_rng([ctx.seed, 11])
    order = rng.permutation(len(census_jobs))
    done = 0
    base_cache = {}
    for idx in order:
        if done >= census_budget:
            break
        case, P, E, C, nx, ny, lat = census_jobs[idx]
        if lat.n_edges > 700 or not len(E):
            continue
        key = digest([P.tolist(), E.tolist(), C.tolist()])
        if key not in base_cache:
            try:
                b = Lattice(P.copy(), E.copy(), C.copy())
                pl = b.plaquettes
                ok = (b.n_vertices - b.n_edges + len(pl) == 0 and not np.any(np.asarray(b.edges.adjacent_plaquettes) == INVALID)
                      and angular_margin(b) >= 1e-9)
                cen = {}
                for p in pl:
                    cen[int(p.n_sides)] = cen.get(int(p.n_sides), 0) + 1
                base_cache[key] = cen if ok else None
            except Exception:
                base_cache[key] = None
        cen = base_cache[key]
        if cen is None:
            res.skip("census-of-tiling: unit cell is not itself a closed tiling (self-touching faces)")
            continue
        done += 1
        try:
            pl = lat.plaquettes
        except LatticeException as e:
            res.violation("tile-plaquettes-raise", f"plaquettes of the {nx}x{ny} tiling raise: {e}", case)
            continue
        got = {}
        for p in pl:
            got[int(p.n_sides)] = got.get(int(p.n_sides), 0) + 1
        want = {k: v * nx * ny for k, v in cen.items()}
        if got != want:
            res.violation("tile-census", f"{nx}x{ny} tiling has polygons {got}, expected {nx * ny} copies of {cen}", case)
        a2 = sum(exact_area2(np.asarray(lat.vertices.positions), np.asarray(lat.edges.indices), np.asarray(lat.edges.crossing), p) for p in pl)
        if abs(float(a2) / 2 - 1) > 1e-9:
            res.violation("tile-area", f"{nx}x{ny} tiling: areas sum to {float(a2) / 2}", case)
        res.hist["tile/census-checked"] = res.hist.get("tile/census-checked", 0) + 1


# ------------------------------------------------------------------ fixed fixture graphs (translated literals)
# what the names promise (restated in Coq on the translated records: Proofs/FixturesFacts.v, C10_fixtures_named)
FIXTURE_SPEC = {
    "two_triangles": {"census": [3, 3], "V": 4, "E": 5, "no_crossing": True},
    "tri_square_pent": {"census": [3, 4, 5], "V": 8, "E": 10, "no_crossing": True},
    "tutte_graph": {"V": 46, "E": 69, "degree": 3, "no_crossing": True},
    "multi_graph": {"V": 2, "E": 4},
    "bridge_graph": {"census": [3, 3], "V": 6, "E": 7, "no_crossing": True},
    "concave_plaquette": {"census": [4], "V": 4, "E": 4, "no_crossing": True},
    "star_lattice_sheared": {"V": 6, "E": 9, "degree": 3, "proper_coloring": True},
}

def evaluate_fixtures(ctx, label, only=None):
    """K: the implementation's fixture lattices == the records translated from the source literals (positions exactly,
    unless the function does float arithmetic on them: then edges/crossings only); colouring and ujk where returned.
    S: the plaquette census of the implementation (lattice.plaquettes), of the Gallina finder on the implementation's
    arrays and of the Gallina finder on the model's arrays agree."""
    import fixtures as fxt
    res = ctx.res
    exe = ctx.exe["c10"]
    names = list(fxt.FIXTURES)
    idx = [i for i, n in enumerate(names) if only is None or n == only]
    mout = run_driver_parallel(exe, [f"fixture {hx(i)}" for i in idx])
    for i, mo in zip(idx, mout):
        name = names[i]
        case = {"kind": "fixture", "name": name}
        res.count("fixture/" + name, (name, "fixture"))
        try:
            out = getattr(eg, name)()
        except Exception as e:
            res.violation("generator-raises:" + name, f"{name}() raised {type(e).__name__}: {e}", case)
            continue
        lat, col, ujk = (out if isinstance(out, tuple) else (out, None, None))
        pos = np.array(lat.vertices.positions, dtype=float)
        edges = np.array(lat.edges.indices, dtype=int)
        crossing = np.array(lat.edges.crossing, dtype=int)
        m = parse_zl(mo)
        from_impl = mo["pos_from_impl"][0] == "1"
        diffs = []
        if [tuple(map(int, e)) for e in edges] != m["edges"]:
            diffs.append(f"edges differ (model {len(m['edges'])}, impl {len(edges)})")
        if [tuple(map(int, e)) for e in crossing] != m["crossing"]:
            diffs.append("crossing differs")
        if not from_impl:
            mp = [(Fraction(x, m["scale"]), Fraction(y, m["scale"])) for x, y in m["pos"]]
            ip = [(Fraction(float(x)), Fraction(float(y))) for x, y in pos]
            if mp != ip:
                bad = [k for k in range(min(len(mp), len(ip))) if mp[k] != ip[k]]
                diffs.append(f"positions differ exactly (model {len(mp)}, impl {len(ip)}; first at {bad[:3]})")
        if (col is not None or m.get("col")) and [int(x) for x in (col if col is not None else [])] != m.get("col", []):
            diffs.append("colouring differs")
        if (ujk is not None or m.get("ujk")) and [int(x) for x in (ujk if ujk is not None else [])] != m.get("ujk", []):
            diffs.append("ujk differs")
        res.traces += 1
        if diffs:
            ctx.k_mismatch(f"{label} fixture {name}: {diffs}", case)
            continue
        # ---------------- S: census three ways
        zl_impl, S = ser_z(pos, edges, crossing)
        if from_impl:
            zl_model = zl_impl
        else:
            toks = [hx(m["scale"]), str(len(m["pos"]))] + [hx(v) for p_ in m["pos"] for v in p_]
            toks += [str(len(m["edges"]))] + [hx(v) for e in m["edges"] for v in e]
            toks += [str(len(m["crossing"]))] + [hx(v) for e in m["crossing"] for v in e]
            zl_model = " ".join(toks)
        so_i, so_m = run_driver_parallel(exe, [f"spec {zl_impl} 0 0", f"spec {zl_model} 0 0"])
        if "error" in so_i or "error" in so_m:
            raise RuntimeError(f"driver error on fixture {name}: {so_i.get('error')} {so_m.get('error')}")
        sides_i = None if so_i["plaquettes"][0] == "ERR" else sorted(int(x) for x in so_i.get("sides", ["0"])[1:])
        sides_m = None if so_m["plaquettes"][0] == "ERR" else sorted(int(x) for x in so_m.get("sides", ["0"])[1:])
        if sides_i != sides_m:
            ctx.k_mismatch(f"{label} fixture {name}: census of the model arrays {sides_m} != census of the implementation's arrays {sides_i}", case)
        try:
            own = sorted(int(p.n_sides) for p in lat.plaquettes)
        except LatticeException:
            own = None
        except Exception as e:
            res.violation("fixture-plaquettes-raise:" + name, f"{name}().plaquettes raised {type(e).__name__}: {e}", case)
            continue
        if so_i["wf"][0] == "1" and angular_margin(lat) >= 1e-9 and own != sides_i:
            res.violation("fixture-census:" + name, f"{name}: lattice.plaquettes has sides {own}, the plaquette model on the same arrays {sides_i}", case)
        # ---------------- S: the graph is the one it is named after
        want = FIXTURE_SPEC.get(name, {})
        deg = np.bincount(edges.flatten(), minlength=len(pos)) if len(edges) else np.zeros(len(pos), dtype=int)
        bad = []
        if "census" in want and own != want["census"]:
            bad.append(f"plaquette sides {own}, expected {want['census']}")
        if "V" in want and (len(pos), len(edges)) != (want["V"], want["E"]):
            bad.append(f"(V, E) = ({len(pos)}, {len(edges)}), expected ({want['V']}, {want['E']})")
        if "degree" in want and not all(int(x) == want["degree"] for x in deg):
            bad.append(f"not {want['degree']}-regular")
        if want.get("no_crossing") and np.any(crossing != 0):
            bad.append("has boundary-crossing edges")
        if want.get("proper_coloring") and col is not None:
            for v in range(len(pos)):
                cs = [int(col[k]) for k in range(len(edges)) for end in edges[k] if end == v]
                if len(cs) != len(set(cs)) or any(c not in (0, 1, 2) for c in cs):
                    bad.append(f"colouring not proper at vertex {v}")
                    break
        if bad:
            res.violation("fixture-named:" + name, f"{name}: " + "; ".join(bad), case)
        res.sample({"case": case, "V": int(len(pos)), "E": int(len(edges)), "census": own, "pos_from_impl": from_impl})


# ------------------------------------------------------------------ translator validation
def validate_translator(ctx, big=False):
    res = ctx.res
    try:
        fns = tiling_helpers.python_functions()
    except Exception as e:
        # The translator failed closed on today's source (the runner reports it as a broken obligation from
        # build.prepare).  S/K must go on: the model is the one built from the last successful translation, and
        # it is compared with the importable module-level helpers, so the search can pin a concrete input.
        res.extra["translator_error"] = str(e)[-400:]
        res.skip("translator-grid: nested closures not comparable (translator failed closed)")
        fns = {"py_next_cell_number": eg._next_cell_number, "py_crossing": eg._crossing,
               "honeycomb_next_direction": None, "hso_next_direction": None}
    rng_sizes = [s for s in range(-3, 6 if not big else 8) if s != 0]
    shifts = [(a, b) for a in range(-2, 3) for b in range(-2, 3)]
    cases = []
    for a in rng_sizes:
        for b in rng_sizes:
            lo, hi = -3, abs(a * b) + 3
            for n in range(lo, hi):
                for sh in shifts:
                    cases.append((a, b, n, sh))
    lines = [f"helpers {hx(a)} {hx(b)} {hx(n)} {hx(sh[0])} {hx(sh[1])}" for a, b, n, sh in cases]
    outs = run_driver_parallel(ctx.exe["c10"], lines)
    bad = 0
    for (a, b, n, sh), o in zip(cases, outs):
        want = {"ncn": [fns["py_next_cell_number"](a, b, n, list(sh))],
                "cr": [int(x) for x in fns["py_crossing"](a, b, n, list(sh))]}
        if fns["honeycomb_next_direction"] is not None:
            want["hnd"] = [fns["honeycomb_next_direction"](a, b, n, list(sh))]
            want["hso"] = [fns["hso_next_direction"](a, n, list(sh))]
        got = {k: [unhx(x) for x in o[k]] for k in want}
        if got != want:
            bad += 1
            if bad <= 3:
                ctx.k_mismatch(f"translator: generated Gallina and Python disagree at sizes ({a},{b}) n={n} shift={sh}: {got} vs {want}",
                               {"kind": "helpers", "args": [a, b, n, list(sh)]})
    res.hist["translator-grid"] = res.hist.get("translator-grid", 0) + len(cases)
    res.traces += len(cases)
    res.extra["translator_grid_points"] = res.extra.get("translator_grid_points", 0) + len(cases)
    res.extra["translator_grid_mismatches"] = res.extra.get("translator_grid_mismatches", 0) + bad
    # the module-level helpers as importable functions must be the ones translated
    for (a, b, n, sh) in cases[:: max(1, len(cases) // 500)]:
        if eg._next_cell_number(a, b, n, list(sh)) != fns["py_next_cell_number"](a, b, n, list(sh)) or \
           [int(x) for x in eg._crossing(a, b, n, list(sh))] != [int(x) for x in fns["py_crossing"](a, b, n, list(sh))]:
            ctx.k_mismatch("translator: compiled-in-isolation helper differs from the imported one", {"kind": "helpers", "args": [a, b, n, list(sh)]})
            break


# ------------------------------------------------------------------ extraction cross-check (thorough tier)
def gz(n):
    n = int(n)
    return str(n) if n >= 0 else f"({n})"


def gpairs(l):
    return "[" + "; ".join(f"({gz(a)}, {gz(b)})" for a, b in l) + "]"


def coq_crosscheck(ctx, name, imports, examples, timeout=900):
    """Re-evaluate a sample of driver answers INSIDE Coq (vm_compute): each example is (gallina term, gallina
    value printed by the extracted driver).  A wrong Extract directive or a driver bug cannot then vouch for the
    model silently.  Writes work/<name>.v (git-ignored), compiles it with coqc."""
    import subprocess
    work = os.path.join(VERIF, "work")
    os.makedirs(work, exist_ok=True)
    path = os.path.join(work, name + ".v")
    body = [f"From Coq Require Import List ZArith Bool.", f"From Koala Require Import {imports}.", "Import ListNotations.", "Open Scope Z_scope."]
    for i, (term, value) in enumerate(examples):
        body.append(f"Example x{i} : {term} = {value}.\nProof. vm_compute. reflexivity. Qed.")
    with open(path, "w") as f:
        f.write("\n".join(body) + "\n")
    p = subprocess.run(["timeout", str(timeout), "coqc", "-Q", os.path.join(VERIF, "coq"), "Koala", path],
                       stdout=subprocess.PIPE, stderr=subprocess.STDOUT, text=True, cwd=work)
    ctx.res.extra["extraction_crosscheck_cases"] = ctx.res.extra.get("extraction_crosscheck_cases", 0) + len(examples)
    if p.returncode != 0:
        ctx.k_mismatch(f"extraction cross-check {name}: in-Coq vm_compute disagrees with the extracted driver: {p.stdout[-600:]}", {"kind": "crosscheck", "file": path})


def crosscheck(ctx):
    exe = ctx.exe["c10"]
    ex = []
    # generators
    gens = [("honeycomb", [2]), ("honeycomb", [3]), ("hso", [2]), ("tri_non", [2, 3]), ("square", [3, 2]), ("ladder", [5])]
    outs = run_driver(exe, [f"gen {g} " + " ".join(hx(a) for a in args) for g, args in gens])
    term = {"honeycomb": "honeycomb", "hso": "hex_square_oct", "tri_non": "tri_non", "square": "square", "ladder": "n_ladder_straight"}
    for (g, args), o in zip(gens, outs):
        m = parse_zl(o)
        t = f"({term[g]} " + " ".join(gz(a) for a in args) + ")"
        ex.append((f"z_edges {t}", gpairs(m["edges"])))
        ex.append((f"z_crossing {t}", gpairs(m["crossing"])))
        ex.append((f"z_pos {t}", gpairs(m["pos"])))
        ex.append((f"z_scale {t}", gz(m["scale"])))
    # tilings of small cells
    cells = [c for c in unit_cells("quick", ctx.seed)][:12]
    lines, meta = [], []
    for i, cell in enumerate(cells):
        arr, why = gen.try_build(cell)
        if arr is None:
            continue
        P, E, C = arr
        if len(P) > 16 or (len(E) and np.max(np.abs(C)) > 1):
            continue
        nx, ny = [(2, 3), (1, 2), (3, 1), (2, 2)][i % 4]
        zl, S = ser_z(P, E, C)
        lines.append(f"tile {zl} {hx(nx)} {hx(ny)}")
        meta.append((P, E, C, S, nx, ny))
    for (P, E, C, S, nx, ny), o in zip(meta, run_driver(exe, lines)):
        m = parse_zl(o)
        cell = f"(mkCell {gz(S)} {gpairs(scaled_ints(P, S))} {gpairs(E.tolist())} {gpairs(C.tolist())})"
        t = f"(tile_unit_cell {cell} {gz(nx)} {gz(ny)})"
        ex.append((f"z_edges {t}", gpairs(m["edges"])))
        ex.append((f"z_crossing {t}", gpairs(m["crossing"])))
        ex.append((f"z_pos {t}", gpairs(m["pos"])))
    ex.append(("(honeycomb_ok 3, hso_ok 2, tri_non_ok 2 3, square_ok 3 2, ladder_ok 5, honeycomb_flux_sector_ok 3)", "(true, true, true, true, true, true)"))
    outs = run_driver(exe, ["ok honeycomb 3", "ok hso 2", "ok tri_non 2 3", "ok square 3 2", "ok ladder 5"])
    if any(o["ok"][0] != "1" for o in outs) or outs[0]["flux_ok"][0] != "1":
        ctx.k_mismatch("extracted *_ok checkers reject the model lattices that the in-Coq theorems accept", {"kind": "crosscheck"})
    coq_crosscheck(ctx, "c10_cases", "Gen.TilingGen Model.Lattice Model.Tiling Model.Examples", ex)


ALL_SIZES = [(a, b) for a in range(1, 5) for b in range(1, 5)]


def run(ctx):
    ctx.res.rule = ("every generator at every size of the property's quantifier (honeycomb 2..16, hex-square-oct 2..8, tri-non (2..6)^2 and scalar, "
                    "square (2..8)^2, polygon/wheel 3..40, ladder 3..30 with and without wobble, make_honeycomb 2..12); tile_unit_cell of regular "
                    "cells and random Voronoi cells (2..30 seeds, six point styles) for all (nx,ny) in 1..4; exhaustive translator grid. "
                    "non-trivial = distinct (generator, size) inside the quantifier, or a distinct tiled cell with at least one boundary-crossing edge")
    validate_translator(ctx)
    cases = generator_cases(ctx.tier)
    if ctx.tier != "quick":
        # beyond the quantifier (sizes 1 and larger ones): K always, S where the property applies
        seen = {json.dumps(c, sort_keys=True) for c in cases}
        cases += [c for c in generator_cases(ctx.tier, big=True) if json.dumps(c, sort_keys=True) not in seen]
    evaluate_generators(ctx, cases, "K(generators)")
    evaluate_fixtures(ctx, "K(fixtures)")
    sizes = ALL_SIZES if ctx.tier == "quick" else ALL_SIZES + [(5, 1), (1, 5), (5, 3), (2, 5), (5, 5), (6, 2)]
    evaluate_tilings(ctx, unit_cells(ctx.tier, ctx.seed), sizes, "K(tile)", 40 if ctx.tier == "quick" else 400)
    if ctx.tier != "quick":
        crosscheck(ctx)


def search(ctx):
    """after a proof / the translator / K broke: enlarged ranges, other seed"""
    validate_translator(ctx, big=True)
    evaluate_generators(ctx, generator_cases("thorough", big=(ctx.tier != "quick")), "search(generators)")
    evaluate_fixtures(ctx, "search(fixtures)")
    sizes = ALL_SIZES if ctx.tier == "quick" else [(a, b) for a in range(1, 6) for b in range(1, 6)]
    evaluate_tilings(ctx, unit_cells("thorough" if ctx.tier != "quick" else "quick", ctx.seed + 1, big=True), sizes, "search(tile)", 100)


def replay(ctx, payload):
    case = payload["case"]
    if case.get("kind") == "gen":
        evaluate_generators(ctx, [case], "replay")
    elif case.get("kind") == "tile":
        evaluate_tilings(ctx, [case["cell"]], [tuple(case["nxy"])], "replay", 1)
    elif case.get("kind") == "crosscheck":
        crosscheck(ctx)
    elif case.get("kind") == "fixture":
        evaluate_fixtures(ctx, "replay", only=case["name"])
    else:
        validate_translator(ctx)
