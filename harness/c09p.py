"""C09, clause "identical plaquettes and adjacency tables (positions to single precision)".

Theorem C09_roundtrip_tables (coq/Props/C09.v): two lattices with the same edges, crossings and vertex count have
identical derived tables whenever preds_agree L L' = true, i.e. whenever no geometric predicate the code branches on
(angular-sort comparator at every vertex, winding number of every face walk) changes its verdict.  This module
EVALUATES the extracted preds_agree (driver c09p) on (original, pickled-and-restored) for the generated lattices with
V <= VMAX, reports how often it holds, and confirms on the implementation that whenever it holds the tables of the
original and of the restored lattice are identical.  Called from harness/c09.py."""
from lib import *  # noqa
import gen
import pickle
from koala.lattice import Lattice

VMAX = 200
# The exact model takes EXACT differences of the restored (float32) positions as edge vectors.  The implementation's
# restored lattice holds a float32 position array, so numpy evaluates pos[k] - pos[j] in float32 arithmetic (one more
# rounding, relative 2^-24 per component) before adding the crossing; its arctan2 is float64.  A lattice whose
# smallest angular margin is below MARGIN may therefore legitimately order edges differently from the exact model:
# such a difference is counted and skipped, never reported.
MARGIN = 1e-6


def ser_at_scale(pos, idx, cross, S):
    toks = [hx(S), str(len(pos))]
    for x, y in pos:
        toks += [hx(int(Fraction(float(x)) * S)), hx(int(Fraction(float(y)) * S))]
    toks.append(str(len(idx)))
    for j, k in idx:
        toks += [str(int(j)), str(int(k))]
    toks.append(str(len(cross)))
    for a, b in cross:
        toks += [hx(int(a)), hx(int(b))]
    return " ".join(toks)


def impl_tables(lat):
    """the implementation's counterparts of the model's [tables] (integers only; exceptions are outcomes)"""
    inv = lambda x: None if int(x) == INVALID else int(x)
    t = {}
    try:
        t["adj"] = [[int(e) for e in row] for row in lat.vertices.adjacent_edges]
        t["coordination"] = [int(x) for x in lat.vertices.coordination_numbers]
        t["edge_adjacent_edges"] = [[int(e) for e in row] for row in lat.edges.adjacent_edges]
        t["adjacency"] = np.asarray(lat.adjacency_matrix).astype(int).tolist() if lat.n_vertices <= 64 else None
    except Exception as e:
        t["exc0"] = type(e).__name__
    try:
        pl = lat.plaquettes
        t["plaquettes"] = [([int(x) for x in p.vertices], [int(x) for x in p.edges], [int(x) for x in p.directions],
                            [inv(x) for x in p.adjacent_plaquettes]) for p in pl]
        t["ep"] = [[inv(a), inv(b)] for a, b in lat.edges.adjacent_plaquettes]
        t["vp"] = [[inv(x) for x in row] for row in lat.vertices.adjacent_plaquettes]
    except Exception as e:
        t["exc"] = type(e).__name__
    return t


def check_preds(ctx, cases, vmax=VMAX):
    res = ctx.res
    if "c09p" not in ctx.exe:
        res.skip("c09p driver not built")
        return
    st = res.extra.setdefault("preds_agree_across_roundtrip", {
        "rule": f"generated lattices with 1 <= V <= {vmax}; original float64 positions vs restored (float32) positions, both exact",
        "evaluated": 0, "preds_agree_fine": 0, "preds_agree": 0, "preds_agree_weak": 0, "rot_agree_false": 0,
        "wind_agree_false": 0, "walk_raises": 0, "positions_already_float32": 0,
        "agree_and_impl_tables_identical": 0, "agree_but_near_degenerate_skipped": 0,
        "disagree_and_impl_tables_differ": 0, "disagree_but_impl_tables_identical": 0, "disagreeing_cases": []})
    todo, seen = [], set()
    for i, c in enumerate(cases):
        if c.get("huge"):
            continue
        arr, _ = gen.try_build(c)
        if arr is None:
            continue
        pos, idx, cross = arr
        pos = np.asarray(pos, dtype=float).reshape(-1, 2)
        idx = np.asarray(idx).reshape(-1, 2)
        cross = np.asarray(cross).reshape(-1, 2)
        V = len(pos)
        if V < 1 or V > vmax:
            continue
        key = digest([pos.tolist(), idx.tolist(), cross.tolist()])
        if key in seen:
            continue
        seen.add(key)
        try:
            L = Lattice(pos.copy(), idx.copy(), cross.copy())
            R = pickle.loads(pickle.dumps(L, protocol=2 + i % 4))
        except Exception as e:           # reported by the main check (constructor-raised / roundtrip-raises)
            res.skip(f"preds:roundtrip-not-available:{type(e).__name__}")
            continue
        rp = np.asarray(R.vertices.positions, dtype=float).reshape(-1, 2)
        ri = np.asarray(R.edges.indices).reshape(-1, 2)
        rc = np.asarray(R.edges.crossing).reshape(-1, 2)
        if not (np.all(np.isfinite(pos)) and np.all(np.isfinite(rp))):
            res.skip("preds:non-finite-position")
            continue
        S = max(common_scale(pos), common_scale(rp))
        line = "pa " + ser_at_scale(pos, idx, cross, S) + " " + ser_at_scale(rp, ri, rc, S)
        todo.append((i, c, L, R, line, bool(np.array_equal(pos, rp)), key))
    outs = run_driver_parallel(ctx.exe["c09p"], [t[4] for t in todo])
    for (i, c, L, R, _, unchanged, key), m in zip(todo, outs):
        payload = {"kind": "preds", "case": c, "index": i}
        if "error" in m:
            raise RuntimeError(f"c09p driver: {m['error']} on {c}")
        b = lambda k: m[k][0] == "1"
        V, E = L.n_vertices, L.n_edges
        fam = "preds/" + c["family"] + ("/" + c["base"]["family"] if "base" in c else "")
        res.count(fam, key if (V >= 2 and E >= 1) else None)
        res.traces += 1
        st["evaluated"] += 1
        st["positions_already_float32"] += unchanged
        if not b("same_connectivity"):
            # "identical edges, crossings": the main check reports it (restored-values); nothing to evaluate here
            res.skip("preds:restored-connectivity-differs")
            continue
        if not b("round32_copy"):
            ctx.k_mismatch(f"V={V}: the restored positions are not Model/Pickle.v's round32 of the original positions", payload)
        for k, n in (("preds_fine", "preds_agree_fine"), ("preds", "preds_agree"), ("preds_weak", "preds_agree_weak")):
            st[n] += b(k)
        st["rot_agree_false"] += not b("rot")
        st["wind_agree_false"] += not b("wind")
        st["walk_raises"] += m["faces"][0] == "ERR"
        # the theorem, replayed on the extracted code: agreement of the predicates forces equal model tables
        if b("preds_weak") and not b("model_tables_equal"):
            ctx.k_mismatch(f"V={V}: extracted model: preds_agree_weak holds but tables L <> tables L' (contradicts C09_roundtrip_tables_weak)", payload)
        tL, tR = impl_tables(L), impl_tables(R)
        identical = tL == tR
        if b("preds"):
            if identical:
                st["agree_and_impl_tables_identical"] += 1
            else:
                try:
                    mg = min(angular_margin(L), angular_margin(R))
                except Exception:
                    mg = 0.0
                if mg < MARGIN:
                    st["agree_but_near_degenerate_skipped"] += 1
                    res.skip("preds:near-degenerate-angles")
                else:
                    diff = [k for k in sorted(set(tL) | set(tR)) if tL.get(k) != tR.get(k)]
                    res.violation("tables-differ-although-predicates-agree",
                                  f"V={V} E={E}: every geometric predicate keeps its verdict across the float32 round trip (preds_agree, angular margin {mg:.3g}) "
                                  f"but the implementation's tables of original and restored lattice differ in {diff}", payload)
        else:
            st["disagree_and_impl_tables_differ" if not identical else "disagree_but_impl_tables_identical"] += 1
            if len(st["disagreeing_cases"]) < 12:
                st["disagreeing_cases"].append({"case": c, "V": V, "rot": b("rot"), "wind": b("wind"), "valid": b("valid"),
                                                "rot_bad_vertices": [int(x) for x in m["rot_bad_vertices"][1:]][:8],
                                                "impl_tables_identical": identical})
    if st["evaluated"]:
        st["fraction_preds_agree"] = round(st["preds_agree"] / st["evaluated"], 4)
