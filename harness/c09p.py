"""C09, clause "identical plaquettes and adjacency tables (positions to single precision)".

Theorem C09_roundtrip_tables_weak (coq/Props/C09.v): two lattices with the same edges, crossings and vertex count have
identical derived tables whenever preds_agree_weak L L' = true, i.e. whenever no geometric predicate the code branches
on (angular-sort comparator at every vertex, orientation verdict of every face walk) changes its verdict.  This module
EVALUATES the extracted predicates (driver c09p) on (original, pickled-and-restored) for lattices with V <= VMAX,
reports how often they hold, and judges every difference between the implementation's tables of the original and of
the restored lattice:
  * predicates disagree -> res.violation("roundtrip:tables-differ-where-float32-flips-a-predicate") — a listed finding
    (the property has no genericity clause; not repairable without giving up the float32 state);
  * predicates agree    -> res.violation("tables-differ-although-predicates-agree") — unlisted, a real defect.
Called from harness/c09.py (check_preds over the generated cases; judge_pair from the per-operation comparison)."""
from lib import *  # noqa
import gen
import pickle
from koala.lattice import Lattice

VMAX = 200
KEY_FLIP = "roundtrip:tables-differ-where-float32-flips-a-predicate"
KEY_AGREE = "tables-differ-although-predicates-agree"
# The exact model takes EXACT differences of the restored (float32) positions as edge vectors.  The implementation's
# restored lattice holds a float32 position array, so numpy evaluates pos[k] - pos[j] in float32 arithmetic (one more
# rounding, relative 2^-24 per component) before adding the crossing; its arctan2 is float64.  A lattice whose
# smallest angular margin is below MARGIN may therefore legitimately order edges differently from the exact model:
# such a difference is counted and skipped (named), never reported.
MARGIN = 1e-6


def ser_at_scale(pos, idx, cross, S):
    toks = [hx(S), str(len(pos))]
    for x, y in pos:
        toks += [hx(int(Fraction(float(x)) * S)), hx(int(Fraction(float(y)) * S))]
    toks.append(str(len(idx)))
    for j, k in idx:
        toks += [str(int(j)), str(int(k))]
    toks.append(str(len(cross)))
    for a, b in cross:
        toks += [hx(int(a)), hx(int(b))]
    return " ".join(toks)


def arrays_of(lat):
    return (np.asarray(lat.vertices.positions, dtype=float).reshape(-1, 2), np.asarray(lat.edges.indices).reshape(-1, 2),
            np.asarray(lat.edges.crossing).reshape(-1, 2))


def pair_line(L, R):
    """driver input for (original, restored), both exact on one common scale; None when a position is not finite"""
    (pos, idx, cross), (rp, ri, rc) = arrays_of(L), arrays_of(R)
    if not (np.all(np.isfinite(pos)) and np.all(np.isfinite(rp))):
        return None
    S = max(common_scale(pos), common_scale(rp))
    return "pa " + ser_at_scale(pos, idx, cross, S) + " " + ser_at_scale(rp, ri, rc, S)


def impl_tables(lat):
    """the implementation's counterparts of the model's [tables] (integers only; exceptions are outcomes)"""
    inv = lambda x: None if int(x) == INVALID else int(x)
    t = {}
    try:
        t["vertices.adjacent_edges"] = [[int(e) for e in row] for row in lat.vertices.adjacent_edges]
        t["vertices.coordination_numbers"] = [int(x) for x in lat.vertices.coordination_numbers]
        t["edges.adjacent_edges"] = [[int(e) for e in row] for row in lat.edges.adjacent_edges]
        t["adjacency_matrix"] = np.asarray(lat.adjacency_matrix).astype(int).tolist() if lat.n_vertices <= 64 else None
    except Exception as e:
        t["exception(constructor tables)"] = type(e).__name__
    try:
        pl = lat.plaquettes
        t["plaquettes"] = [[[int(x) for x in p.vertices], [int(x) for x in p.edges], [int(x) for x in p.directions]] for p in pl]
        t["plaquette.adjacent_plaquettes"] = [[inv(x) for x in p.adjacent_plaquettes] for p in pl]
        t["edges.adjacent_plaquettes"] = [[inv(a), inv(b)] for a, b in lat.edges.adjacent_plaquettes]
        t["vertices.adjacent_plaquettes"] = [[inv(x) for x in row] for row in lat.vertices.adjacent_plaquettes]
    except Exception as e:
        t["exception(plaquettes)"] = type(e).__name__
    return t


def first_difference(tL, tR):
    """'table[row]: a vs b' for the first differing table, and the list of all differing tables"""
    keys = [k for k in list(tL) + [k for k in tR if k not in tL] if tL.get(k) != tR.get(k)]
    if not keys:
        return "", []
    k = keys[0]
    a, b = tL.get(k), tR.get(k)
    if isinstance(a, list) and isinstance(b, list):
        if len(a) != len(b):
            return f"{k}: {len(a)} rows vs {len(b)} rows", keys
        for i, (x, y) in enumerate(zip(a, b)):
            if x != y:
                return f"{k}[{i}] = {x} vs {y}", keys
    return f"{k}: {str(a)[:80]} vs {str(b)[:80]}", keys


# ------------------------------------------------------------------------------------------ which predicate flipped
def _half(v):
    X, Y = v[1], -v[0]
    return 0 if (Y > 0 or (Y == 0 and X > 0)) else 1


def _ang_lt(v, w):
    hv, hw = _half(v), _half(w)
    return hv < hw or (hv == hw and v[1] * (-w[0]) - (-v[0]) * w[1] > 0)


def _outvecs(pos, idx, cross, v):
    F = lambda x: Fraction(float(x))
    out = []
    for e, (j, k) in enumerate(idx):
        if j == v or k == v:
            w = (F(pos[k][0]) - F(pos[j][0]) + int(cross[e][0]), F(pos[k][1]) - F(pos[j][1]) + int(cross[e][1]))
            out.append((e, w if j == v else (-w[0], -w[1])))
    return out


def describe_flip(L, R, m):
    """exact (Fraction) re-evaluation of the comparator at the first vertex the model flags: names the predicate"""
    (pos, idx, cross), (rp, _, _) = arrays_of(L), arrays_of(R)
    bad = [int(x) for x in m["rot_bad_vertices"][1:]]
    msgs = []
    if bad:
        v = bad[0]
        oL, oR = _outvecs(pos, idx, cross, v), _outvecs(rp, idx, cross, v)
        done = False
        for (e, a), (_, a2) in zip(oL, oR):
            if _half(a) != _half(a2):
                side = "12 o'clock" if a[1] > 0 or a2[1] > 0 else "6 o'clock"
                msgs.append(f"edge {e} leaves vertex {v} {'exactly' if a[0] == 0 else 'almost'} at {side}, the branch cut of the angular sort: "
                            f"dx = {float(a[0]):.3g} becomes dx = {float(a2[0]):.3g} (dy = {float(a[1]):.3g}), so ang_lt changes its verdict"
                            + (f"; same at {len(bad) - 1} more vertices {bad[1:6]}" if len(bad) > 1 else ""))
                done = True
                break
        if not done:
            for (e, a), (_, a2) in zip(oL, oR):
                for (f, b), (_, b2) in zip(oL, oR):
                    if not done and e != f and _ang_lt(a, b) != _ang_lt(a2, b2):
                        cl, cr_ = a[0] * b[1] - a[1] * b[0], a2[0] * b2[1] - a2[1] * b2[0]
                        msgs.append(f"edges {e} and {f} leave vertex {v} (almost) parallel: their cross product {float(cl):.3g} becomes {float(cr_):.3g}, "
                                    f"so ang_lt changes its verdict" + (f"; same at {len(bad) - 1} more vertices {bad[1:6]}" if len(bad) > 1 else ""))
                        done = True
        if not done:
            msgs.append(f"the angular-sort comparator changes a verdict at vertices {bad[:6]}")
    vb = m.get("valid_bad_faces", ["0"])
    if int(vb[0]) > 0:
        i, w, w2, n = int(vb[1]), unhx(vb[2]), unhx(vb[3]), int(vb[4])
        msgs.append(f"face walk {i} ({n} edges) has winding number {w} in the original and {w2} in the restored lattice (orientation filter 'winding = -1' flips)"
                    + (f"; {int(vb[0]) - 1} more walks" if int(vb[0]) > 1 else ""))
    return "; ".join(msgs) if msgs else "no predicate of the model changes its verdict"


# ------------------------------------------------------------------------------------------ judging one pair
def stats(res):
    return res.extra.setdefault("preds_agree_across_roundtrip", {
        "rule": f"generated lattices with 1 <= V <= {VMAX}; original float64 positions vs restored (float32) positions, both exact",
        "evaluated": 0, "preds_agree_fine": 0, "preds_agree": 0, "preds_agree_weak": 0, "rot_agree_false": 0,
        "valid_agree_false": 0, "walk_raises": 0, "positions_already_float32": 0,
        "agree_and_impl_tables_identical": 0, "agree_but_near_degenerate_skipped": 0,
        "disagree_and_impl_tables_differ": 0, "disagree_but_impl_tables_identical": 0, "disagreeing_cases": []})


def judge(ctx, L, R, m, payload, count=True):
    """m: driver answer for (L, R).  Compares the implementation's integer tables of L and R and reports a difference
    under the key the predicates select.  Returns True when the integer tables differ (reported or named skip)."""
    res = ctx.res
    st = stats(res)
    b = lambda k: m[k][0] == "1"
    V, E = L.n_vertices, L.n_edges
    if not b("same_connectivity"):
        # "identical edges, crossings": reported by the main check (restored-values); the theorem does not apply
        res.skip("preds:restored-connectivity-differs")
        return False
    if not b("round32_copy"):
        ctx.k_mismatch(f"V={V}: the restored positions are not Model/Pickle.v's round32 of the original positions", payload)
    if b("preds_weak") and not b("model_tables_equal"):
        ctx.k_mismatch(f"V={V}: extracted model: preds_agree_weak holds but tables L <> tables L' (contradicts C09_roundtrip_tables_weak)", payload)
    tL, tR = impl_tables(L), impl_tables(R)
    where, keys = first_difference(tL, tR)
    identical = not keys
    agree = b("preds_weak")
    if count:
        st["evaluated"] += 1
        for k, n in (("preds_fine", "preds_agree_fine"), ("preds", "preds_agree"), ("preds_weak", "preds_agree_weak")):
            st[n] += b(k)
        st["rot_agree_false"] += not b("rot")
        st["valid_agree_false"] += not b("valid")
        st["walk_raises"] += m["faces"][0] == "ERR"
        if agree:
            st["agree_and_impl_tables_identical"] += identical
        else:
            st["disagree_and_impl_tables_differ" if not identical else "disagree_but_impl_tables_identical"] += 1
    if identical:
        return False
    if agree:
        try:
            mg = min(angular_margin(L), angular_margin(R))
        except Exception:
            mg = 0.0
        if mg < MARGIN:
            if count:
                st["agree_but_near_degenerate_skipped"] += 1
            res.skip("preds:tables-differ,predicates-agree,angular-margin<1e-6(float32 subtraction in the restored constructor)")
        else:
            res.violation(KEY_AGREE,
                          f"V={V} E={E}: every geometric predicate keeps its verdict across the float32 round trip (preds_agree_weak = true, angular margin {mg:.3g}) "
                          f"but the implementation's tables of original and restored lattice differ: {where} (differing tables: {keys})", payload)
        return True
    flip = describe_flip(L, R, m)
    if count and len(st["disagreeing_cases"]) < 12:
        st["disagreeing_cases"].append({"case": payload.get("case"), "V": V, "rot": b("rot"), "valid": b("valid"), "first_difference": where, "flip": flip})
    res.violation(KEY_FLIP,
                  f"V={V} E={E}: tables of original and restored lattice differ: {where} (differing tables: {keys}); flipped predicate: {flip}", payload)
    return True


def judge_pair(ctx, L, R, payload):
    """one (original, restored) pair from the per-operation comparison of harness/c09.py; returns True when the integer
    tables differ and the difference has been reported (or skipped by name) here"""
    line = pair_line(L, R)
    if line is None or "c09p" not in ctx.exe:
        return False
    m = run_driver(ctx.exe["c09p"], [line])[0]
    if "error" in m:
        raise RuntimeError(f"c09p driver: {m['error']} on {payload}")
    return judge(ctx, L, R, m, payload, count=False)


def check_preds(ctx, cases, vmax=VMAX):
    res = ctx.res
    if "c09p" not in ctx.exe:
        res.skip("c09p driver not built")
        return
    st = stats(res)
    todo, seen = [], set()
    for i, c in enumerate(cases):
        if c.get("huge"):
            continue
        arr, _ = gen.try_build(c)
        if arr is None:
            continue
        pos, idx, cross = arr
        pos = np.asarray(pos, dtype=float).reshape(-1, 2)
        idx = np.asarray(idx).reshape(-1, 2)
        cross = np.asarray(cross).reshape(-1, 2)
        V = len(pos)
        if V < 1 or V > vmax:
            continue
        key = digest([pos.tolist(), idx.tolist(), cross.tolist()])
        if key in seen:
            continue
        seen.add(key)
        try:
            L = Lattice(pos.copy(), idx.copy(), cross.copy())
            R = pickle.loads(pickle.dumps(L, protocol=2 + i % 4))
        except Exception as e:           # reported by the main check (constructor-raised / roundtrip-raises)
            res.skip(f"preds:roundtrip-not-available:{type(e).__name__}")
            continue
        line = pair_line(L, R)
        if line is None:
            res.skip("preds:non-finite-position")
            continue
        todo.append((i, c, L, R, line, bool(np.array_equal(pos, arrays_of(R)[0])), key))
    outs = run_driver_parallel(ctx.exe["c09p"], [t[4] for t in todo])
    for (i, c, L, R, _, unchanged, key), m in zip(todo, outs):
        payload = {"kind": "preds", "case": c, "index": i}
        if "error" in m:
            raise RuntimeError(f"c09p driver: {m['error']} on {c}")
        V, E = L.n_vertices, L.n_edges
        fam = "preds/" + c["family"] + ("/" + c["base"]["family"] if "base" in c else "")
        res.count(fam, key if (V >= 2 and E >= 1) else None)
        res.traces += 1
        st["positions_already_float32"] += unchanged
        judge(ctx, L, R, m, payload)
    if st["evaluated"]:
        st["fraction_preds_agree_weak"] = round(st["preds_agree_weak"] / st["evaluated"], 4)
