"""Build orchestration: regenerate translated Gallina from /repo, rebuild the Coq
development (full .vo build through coq_makefile/make), (re)extract and compile the
OCaml drivers, compile a Props/Cxx.v file and parse its Print Assumptions output.

All steps run under one file lock so that checks may be started concurrently."""
import fcntl, glob, hashlib, os, re, subprocess, sys, time

VERIF = os.path.dirname(os.path.dirname(os.path.abspath(__file__)))
COQ = os.path.join(VERIF, "coq")
OCAML = os.path.join(VERIF, "ocaml")
BIN = os.path.join(OCAML, "bin")
LOCK = os.path.join(VERIF, ".build.lock")
JOBS = os.environ.get("VERIF_JOBS", "8")

WHITELIST_AXIOMS = {
    # axioms declared by Coq's standard library; named in the trusted base when used
    "functional_extensionality_dep", "propositional_extensionality", "proof_irrelevance",
    "classic", "Eqdep.Eq_rect_eq.eq_rect_eq", "eq_rect_eq", "JMeq_eq",
    "ClassicalDedekindReals.sig_forall_dec", "ClassicalDedekindReals.sig_not_dec",
    "FunctionalExtensionality.functional_extensionality_dep",
}


class BuildError(Exception):
    def __init__(self, stage, msg, file=None, line=None):
        super().__init__(f"{stage}: {msg}")
        self.stage, self.msg, self.file, self.line = stage, msg, file, line


class lock:
    def __enter__(self):
        self.f = open(LOCK, "w")
        fcntl.flock(self.f, fcntl.LOCK_EX)
        return self

    def __exit__(self, *a):
        fcntl.flock(self.f, fcntl.LOCK_UN)
        self.f.close()


def run(cmd, cwd=None, timeout=1800, env=None):
    p = subprocess.run(cmd, cwd=cwd, stdout=subprocess.PIPE, stderr=subprocess.STDOUT,
                       text=True, timeout=timeout, env=env)
    return p.returncode, p.stdout


def write_if_changed(path, text):
    try:
        if open(path).read() == text:
            return False
    except FileNotFoundError:
        pass
    os.makedirs(os.path.dirname(path), exist_ok=True)
    with open(path, "w") as f:
        f.write(text)
    return True


def coq_sources():
    out = []
    for d in ("Model", "Gen", "Proofs"):
        out += sorted(glob.glob(os.path.join(COQ, d, "*.v")))
    return [os.path.relpath(p, COQ) for p in out]


def regen(names=None):
    """Run translators: /repo source -> coq/Gen/*.v (fail closed: exceptions propagate).
    names: module names under translate/ (each exposes regenerate_all(gen_dir) or
    regenerate(gen_dir)); None = every translate/*.py (setup)."""
    tdir = os.path.join(VERIF, "translate")
    if tdir not in sys.path:
        sys.path.insert(0, tdir)
    if names is None:
        names = sorted(os.path.basename(p)[:-3] for p in glob.glob(os.path.join(tdir, "*.py")))
    written = []
    import importlib
    for n in names:
        mod = importlib.import_module(n)
        f = getattr(mod, "regenerate_all", None) or getattr(mod, "regenerate", None)
        if f is None:
            continue
        written += list(f(os.path.join(COQ, "Gen")) or [])
    return written


def ensure_makefile():
    srcs = coq_sources()
    proj = "-Q . Koala\n-arg -w -arg -notation-overridden,-deprecated-hint-without-locality,-deprecated-instance-without-locality\n" + "\n".join(srcs) + "\n"
    changed = write_if_changed(os.path.join(COQ, "_CoqProject"), proj)
    if changed or not os.path.exists(os.path.join(COQ, "Makefile")):
        rc, out = run(["coq_makefile", "-f", "_CoqProject", "-o", "Makefile"], cwd=COQ)
        if rc != 0:
            raise BuildError("coq_makefile", out)


ERR_RE = re.compile(r'File "\./?([^"]+)", line (\d+), characters')


def make(targets=None):
    """Full .vo build of the given targets (default: everything in Model/Gen/Proofs)."""
    ensure_makefile()
    cmd = ["timeout", "3000", "make", "-j", JOBS]
    if targets:
        cmd += targets
    rc, out = run(cmd, cwd=COQ, timeout=3100)
    if rc != 0:
        m = ERR_RE.search(out)
        tail = "\n".join(out.strip().splitlines()[-25:])
        raise BuildError("coq-make", tail, file=m.group(1) if m else None,
                         line=int(m.group(2)) if m else None)
    return out


def _newest(paths):
    return max((os.path.getmtime(p) for p in paths if os.path.exists(p)), default=0)


def extract(name):
    """Extract coq/Extract/Ex<Name>.v into ocaml/gen/<name>/model.ml and link it with
    hexio.ml and <name>_driver.ml into ocaml/bin/<name>.  Rebuilt when any input is newer."""
    exv = os.path.join(COQ, "Extract", f"Ex{name.capitalize()}.v")
    drv = os.path.join(OCAML, f"{name}_driver.ml")
    hexio = os.path.join(OCAML, "hexio.ml")
    exe = os.path.join(BIN, name)
    deps = [exv, drv, hexio] + glob.glob(os.path.join(COQ, "Model", "*.vo")) + glob.glob(os.path.join(COQ, "Gen", "*.vo"))
    if os.path.exists(exe) and os.path.getmtime(exe) >= _newest(deps):
        return exe
    gen = os.path.join(OCAML, "gen", name)
    os.makedirs(gen, exist_ok=True)
    os.makedirs(BIN, exist_ok=True)
    with open(os.path.join(OCAML, "gen", f".lock-{name}"), "w") as lf:   # several checks share a driver (lat)
        fcntl.flock(lf, fcntl.LOCK_EX)
        if os.path.exists(exe) and os.path.getmtime(exe) >= _newest(deps):
            return exe
        return _extract_locked(name, exv, drv, hexio, exe, gen)


def _extract_locked(name, exv, drv, hexio, exe, gen):
    for f in glob.glob(os.path.join(gen, "*")):
        os.remove(f)
    rc, out = run(["timeout", "600", "coqc", "-Q", COQ, "Koala", "-o", os.path.join(gen, os.path.basename(exv) + "o"), exv], cwd=gen)
    if rc != 0 or not os.path.exists(os.path.join(gen, "model.ml")):
        raise BuildError("extraction", out[-3000:], file=exv)
    for src in (hexio, drv):
        with open(src) as f, open(os.path.join(gen, os.path.basename(src)), "w") as g:
            g.write(f.read())
    rc, out = run(["timeout", "600", "ocamlfind", "ocamlopt", "-O3", "-w", "-a", "-o", exe + ".new",
                   "model.mli", "model.ml", "hexio.ml", os.path.basename(drv)], cwd=gen)
    if rc != 0:
        rc, out = run(["timeout", "600", "ocamlfind", "ocamlopt", "-w", "-a", "-o", exe + ".new",
                       "model.mli", "model.ml", "hexio.ml", os.path.basename(drv)], cwd=gen)
    if rc != 0:
        raise BuildError("ocaml", out[-3000:], file=drv)
    os.replace(exe + ".new", exe)
    return exe


THM_RE = re.compile(r'^\s*(?:Theorem|Lemma|Corollary|Example)\s+([A-Za-z0-9_\']+)', re.M)


def check_props(prop):
    """Compile coq/Props/<prop>.v (always, so the kernel re-checks the property theorems
    against today's model) and parse Print Assumptions.  Returns dict."""
    pv = os.path.join(COQ, "Props", f"{prop}.v")
    res = {"file": pv, "theorems": [], "assumptions": {}, "ok": False, "error": None,
           "checker_cmd": f"make -C coq -j{JOBS} (coq_makefile, full .vo) && coqc -Q coq Koala coq/Props/{prop}.v"}
    if not os.path.exists(pv):
        res["error"] = "no Props file"
        return res
    src = open(pv).read()
    names = THM_RE.findall(src)
    res["theorems"] = names
    t0 = time.time()
    rc, out = run(["timeout", "1200", "coqc", "-Q", COQ, "Koala", pv], cwd=COQ, timeout=1300)
    res["seconds"] = round(time.time() - t0, 1)
    if rc != 0:
        m = re.search(r'line (\d+), characters', out)
        line = int(m.group(1)) if m else None
        failing = None
        if line:
            for mm in THM_RE.finditer(src):
                if src.count("\n", 0, mm.start()) + 1 <= line:
                    failing = mm.group(1)
        res["error"] = out.strip()[-2000:]
        res["failing_theorem"] = failing
        res["discharged"] = [n for n in names if failing and names.index(n) < names.index(failing)]
        return res
    # parse Print Assumptions blocks, in order
    blocks = re.split(r'(?m)^(?=Closed under the global context|Axioms:)', out)
    blocks = [b for b in blocks if b.startswith("Closed under") or b.startswith("Axioms:")]
    printed = re.findall(r'Print Assumptions\s+([A-Za-z0-9_\']+)', src)
    for n, b in zip(printed, blocks):
        if b.startswith("Closed"):
            res["assumptions"][n] = []
        else:
            ax = re.findall(r'(?m)^([A-Za-z0-9_\.\']+)\s*:', b[len("Axioms:"):])
            res["assumptions"][n] = ax
    res["discharged"] = names
    res["ok"] = True
    bad = sorted({a for axs in res["assumptions"].values() for a in axs
                  if a not in WHITELIST_AXIOMS and a.split(".")[-1] not in WHITELIST_AXIOMS})
    res["non_whitelisted_axioms"] = bad
    res["missing_print_assumptions"] = [n for n in names if n not in printed and not n.endswith("_nonvacuous") and not n.startswith("ex_")]
    return res


GATE_RE = re.compile(r'\b(Admitted|admit|Axiom|Axioms|Parameter|Parameters|Conjecture|Conjectures|Hypothesis|Hypotheses|Variable|Variables|Unset\s+Guard|bypass_check|Admit\s+Obligations|type-in-type|impredicative-set|Unset\s+Universe\s+Checking|Unset\s+Positivity)\b')


def strip_comments(s):
    out, depth, i = [], 0, 0
    while i < len(s):
        if s.startswith("(*", i):
            depth += 1; i += 2
        elif s.startswith("*)", i) and depth:
            depth -= 1; i += 2
        else:
            if depth == 0:
                out.append(s[i])
            elif s[i] == "\n":
                out.append("\n")
            i += 1
    return "".join(out)


def grep_gate():
    """No Admitted/admit/Axiom/Parameter/...; Variable/Hypothesis only inside a Section."""
    bad = []
    for p in glob.glob(os.path.join(COQ, "**", "*.v"), recursive=True):
        src = strip_comments(open(p).read())
        depth = 0
        for ln, line in enumerate(src.splitlines(), 1):
            if re.match(r'\s*Section\b', line):
                depth += 1
            if re.match(r'\s*End\b', line) and depth:
                depth -= 1
            for m in GATE_RE.finditer(line):
                w = m.group(1).split()[0]
                if w in ("Variable", "Variables", "Hypothesis", "Hypotheses") and depth > 0:
                    continue
                if w in ("Variable", "Variables", "Hypothesis", "Hypotheses", "Axioms") and not re.match(r'\s*' + w, line):
                    continue  # word used inside an identifier/comment-like context
                bad.append(f"{os.path.relpath(p, VERIF)}:{ln}: {line.strip()[:100]}")
    return bad


def prepare(prop, drivers=(), targets=None, model_targets=None, translators=()):
    """Everything a check needs before running cases.  Returns dict with build status.
    model_targets: the Model/Gen .vo files the drivers are extracted from (default: all);
    targets: the Proofs .vo files Props/<prop>.v requires (default: all).
    The lock covers only the shared `make` steps; extraction (own directory per driver) and the
    compilation of Props/<prop>.v run outside it so that concurrent checks do not wait on each other."""
    st = {"regen": [], "make_ok": False, "make_error": None, "drivers": {}, "props": None, "gate": []}
    models_ok = False
    with lock():
        try:
            st["regen"] = regen(list(translators))
        except Exception as e:  # translator fails closed
            st["make_error"] = {"stage": "translator", "msg": str(e), "file": None, "line": None}
        # models first (they do not depend on proofs)
        try:
            if model_targets is None:
                model_targets = (["Model/%s" % os.path.basename(p) + "o" for p in glob.glob(os.path.join(COQ, "Model", "*.v"))]
                                 + ["Gen/%s" % os.path.basename(p) + "o" for p in glob.glob(os.path.join(COQ, "Gen", "*.v"))])
            if model_targets:
                make(model_targets)
            models_ok = True
        except BuildError as e:
            if st["make_error"] is None:
                st["make_error"] = {"stage": e.stage, "msg": e.msg, "file": e.file, "line": e.line}
        if models_ok:
            try:
                if targets is None:
                    make()
                elif targets:
                    make(list(targets))
                st["make_ok"] = True
            except BuildError as e:
                if st["make_error"] is None:
                    st["make_error"] = {"stage": e.stage, "msg": e.msg, "file": e.file, "line": e.line}
    if not models_ok:
        return st
    try:
        for d in drivers:
            st["drivers"][d] = extract(d)
    except BuildError as e:
        if st["make_error"] is None:
            st["make_error"] = {"stage": e.stage, "msg": e.msg, "file": e.file, "line": e.line}
        return st
    st["gate"] = grep_gate()
    if st["make_ok"]:
        st["props"] = check_props(prop)
    return st


if __name__ == "__main__":
    # setup (MANIFEST.setup_cmd): best-effort pre-build of everything, so that the individual checks only
    # rebuild what changed.  It never decides anything: every check rebuilds and re-verifies its own cone,
    # so a failure here is reported but does not fail the setup.
    t0 = time.time()
    with lock():
        try:
            print("regen:", regen())
        except Exception as e:
            print("translator error (the affected check will report it):", e)
        ensure_makefile()
        rc, out = run(["timeout", "3000", "make", "-k", "-j", os.environ.get("VERIF_JOBS", "16")], cwd=COQ, timeout=3100)
        print("make rc", rc)
        if rc != 0:
            print("\n".join(l for l in out.splitlines() if "Error" in l or l.startswith("File "))[-3000:])
    for exv in sorted(glob.glob(os.path.join(COQ, "Extract", "Ex*.v"))):
        name = os.path.basename(exv)[2:-2].lower()
        try:
            print("extract", name, extract(name))
        except BuildError as e:
            print("extract", name, "FAILED:", str(e)[-500:])
    g = grep_gate()
    if g:
        print("GATE:", *g, sep="\n")
    print("setup done in %.0fs" % (time.time() - t0))
