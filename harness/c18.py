"""C18 — Chern and crosshair markers implement their defining formula and symmetries.

K  exact Gaussian-rational Hermitian projectors P = A (A^* A)^-1 A^* (python `fractions`), every rank
   0..V, V <= 12, handed to koala.chern_number as (rounded) complex floats; result / (4 pi) compared
   with the exact value num / D^3 (crosshair) or num / (D^3 S^2) (Chern) computed by the extracted
   Gallina model coq/Model/Marker.v on the exact numerators (tolerance 1e-9).
S  the property restated directly on the implementation's output:
   * exact  (same small cases): an independent python-`fractions` evaluation of
     4 pi Im diag(P a P b P) with strict step functions;
   * numeric (V up to 60, random complex projectors of every rank and spectral projectors of
     Majorana Hamiltonians): real output, formula by an independent einsum, sum = 0, x<->y swap
     antisymmetry, relabelling covariance, gauge invariance."""
from lib import *  # noqa
import gen
import argforms as AF
from koala.lattice import Lattice, permute_vertices
from koala import chern_number as cn
from koala import example_graphs as eg
from koala import voronization

DRIVERS = ("c18",)
MODEL_TARGETS = ["Model/Marker.vo"]
TARGETS = ["Proofs/MarkerFacts.vo", "Proofs/MarkerMx.vo", "Proofs/MarkerBridge.vo"]
LEVEL = "proof"
TRUST = [
    "hand-written Gallina model coq/Model/Marker.v of chern_number.py (list-of-lists matrix product, np.diag both ways, strict step function): modelled, not verified; "
    "tied to the code by the correspondence run K on exact Gaussian-rational projectors (V <= 12) and to the MathComp statements by Proofs/MarkerBridge.v",
    "float matrix products of numpy (BLAS zgemm) are the shell: the implementation's result is compared with the exact value with tolerance 1e-9 (inputs are exact projectors rounded to double)",
    "numerical S checks on V <= 60 (tolerance 1e-9 * V * (1+|a||b|)) are numerical support, not proof; the symmetries themselves are theorems over every numClosedFieldType",
    "the prefactor 4*pi is symbolic in the model (the model returns marker/(4 pi) as an exact rational); the harness divides the implementation's output by 4*math.pi",
]
ASSUMPTIONS = ["P is a Hermitian projector (P^* = P, P P = P); a, b real (positions / step functions)"]

FOURPI = 4 * math.pi
TOL = 1e-9


# ------------------------------------------------------------------ argument forms (argforms.py)
# projector: np.ndarray -- complex128 in C / Fortran order, strided, read-only; and, ONLY when the entries are exactly representable
# there (zero / identity / real dyadic projectors), complex64, float64, float32 or an integer array.  crosshair_position:
# np.ndarray in the type hint, used as position[0], position[1]: array / list / tuple, float32 or integers when exact.
# The form is chosen from the values (replayable); the model and the restatements get the values.
AF_PROJ = ["complex128", "complex128+F", "complex128+strided", "complex128+readonly", "complex128+F+readonly",
           "complex64", "complex64+F", "float64", "float64+F", "float32", "int64", "int8+F"]
AF_CROSS = ["float64", "float64+list", "float64+tuple", "float64+readonly", "float64+strided", "float32", "float32+list", "int64", "int64+list", "int64+tuple"]


def arg_forms(res, arg, values, *key):
    if arg == "projector":
        return AF.choose(res, "projector", values, AF_PROJ, *key, base=np.complex128)
    return AF.choose(res, "crosshair_position", values, AF_CROSS, *key, base=np.float64)


# ------------------------------------------------------------------ exact Gaussian rationals
def gmul(a, b):
    return (a[0] * b[0] - a[1] * b[1], a[0] * b[1] + a[1] * b[0])


def gadd(a, b):
    return (a[0] + b[0], a[1] + b[1])


def gsub(a, b):
    return (a[0] - b[0], a[1] - b[1])


def ginv(a):
    d = a[0] * a[0] + a[1] * a[1]
    return (a[0] / d, -a[1] / d)


G0 = (Fraction(0), Fraction(0))
G1 = (Fraction(1), Fraction(0))


def mmul(A, B):
    n, m, p = len(A), len(B), (len(B[0]) if B else 0)
    out = []
    for i in range(n):
        row = []
        for j in range(p):
            s = G0
            for k in range(m):
                if A[i][k] != G0 and B[k][j] != G0:
                    s = gadd(s, gmul(A[i][k], B[k][j]))
            row.append(s)
        out.append(row)
    return out


def madj(A):
    if not A:
        return []
    return [[(A[i][j][0], -A[i][j][1]) for i in range(len(A))] for j in range(len(A[0]))]


def minv(M):
    """Gauss-Jordan over Q(i); None when singular"""
    n = len(M)
    W = [list(M[i]) + [G1 if i == j else G0 for j in range(n)] for i in range(n)]
    for c in range(n):
        piv = next((r for r in range(c, n) if W[r][c] != G0), None)
        if piv is None:
            return None
        W[c], W[piv] = W[piv], W[c]
        iv = ginv(W[c][c])
        W[c] = [gmul(iv, x) for x in W[c]]
        for r in range(n):
            if r != c and W[r][c] != G0:
                f = W[r][c]
                W[r] = [gsub(x, gmul(f, y)) for x, y in zip(W[r], W[c])]
    return [row[n:] for row in W]


def exact_projector(V, rank, rng):
    """P = A (A^* A)^-1 A^* for a random V x rank Gaussian-rational A of full column rank"""
    if rank == 0:
        return [[G0] * V for _ in range(V)]
    for _ in range(50):
        dens = rng.choice([1, 1, 2, 3], size=(V, rank))
        A = [[(Fraction(int(rng.integers(-3, 4)), int(dens[i][j])), Fraction(int(rng.integers(-3, 4)), int(dens[i][j])))
              for j in range(rank)] for i in range(V)]
        Ah = madj(A)
        G = minv(mmul(Ah, A))
        if G is None:
            continue
        return mmul(mmul(A, G), Ah)
    raise RuntimeError("could not draw a full-rank A")


def is_exact_projector(P):
    return madj(P) == P and mmul(P, P) == P


def common_den(P):
    D = 1
    for row in P:
        for z in row:
            for q in z:
                D = D * q.denominator // math.gcd(D, q.denominator)
    return D


def exact_marker(P, a, b):
    """Im diag(P diag(a) P diag(b) P) in exact arithmetic (a, b lists of Fractions): the property's formula
    written out as a triple sum, independently of the model"""
    V = len(P)
    out = []
    for i in range(V):
        s = G0
        for j in range(V):
            if a[j] == 0 or P[i][j] == G0:
                continue
            for k in range(V):
                if b[k] == 0:
                    continue
                t = gmul(gmul(P[i][j], P[j][k]), P[k][i])
                s = gadd(s, (t[0] * a[j] * b[k], t[1] * a[j] * b[k]))
        out.append(s[1])
    return out


def to_complex(P):
    return np.array([[complex(float(z[0]), float(z[1])) for z in row] for row in P], dtype=complex).reshape(len(P), len(P))


# ------------------------------------------------------------------ lattices
def small_lattice(c):
    """lattice of a K case (V <= 12): arrays"""
    k = c["lat"]
    if k["kind"] == "dyadic":       # ring graph on random dyadic positions (multiples of 1/32), ties in x and y likely
        rng = np.random.default_rng([k["seed"], k["V"]])
        V = k["V"]
        pos = rng.integers(0, 32, size=(V, 2)) / 32.0
        edges = np.array([[i, (i + 1) % V] for i in range(V)], dtype=int)
        return pos, edges, np.zeros((V, 2), dtype=int)
    return gen.build(k["case"])


def crosshair_positions(pos, rng):
    """inside, outside, exactly on vertex coordinates"""
    V = len(pos)
    v, w = int(rng.integers(0, V)), int(rng.integers(0, V))
    out = [("inside", [float(rng.uniform(0.1, 0.9)), float(rng.uniform(0.1, 0.9))]),
           ("on-vertex", [float(pos[v][0]), float(pos[v][1])]),
           ("on-x-of-v-y-of-w", [float(pos[v][0]), float(pos[w][1])]),
           # a hair above a vertex: that vertex is STRICTLY below the crosshair and must count (one ulp, and a few 1e-6)
           ("one-ulp-above-vertex", [float(np.nextafter(float(pos[v][0]), np.inf)), float(np.nextafter(float(pos[v][1]), np.inf))]),
           ("hair-above-vertex", [float(pos[w][0]) * (1 + 2e-6) + 1e-7, float(pos[v][1]) * (1 + 3e-6) + 1e-7]),
           ("on-x-only", [float(pos[w][0]), float(rng.uniform(0.1, 0.9))]),
           ("outside", [float(rng.choice([-0.37, 1.6, 2.0])), float(rng.uniform(0.1, 0.9))]),
           ("outside-all-below", [3.0, 5.0])]
    return out


# ------------------------------------------------------------------ K + exact S on small exact projectors
def k_cases(tier, seed):
    rng = np.random.default_rng([seed, 18])
    cases = []
    lat_descr = []
    for V in range(2, 13):
        lat_descr.append({"kind": "dyadic", "V": V, "seed": int(rng.integers(0, 2**31))})
    lat_descr.append({"kind": "gen", "case": {"family": "example", "name": "honeycomb_lattice", "args": [1]}})
    lat_descr.append({"kind": "gen", "case": {"family": "example", "name": "honeycomb_lattice", "args": [2]}})
    lat_descr.append({"kind": "gen", "case": {"family": "example", "name": "two_triangles"}})
    for n in (2, 3, 4, 5, 6):
        for r in range(1 if tier == "quick" else 3):
            lat_descr.append({"kind": "gen", "case": {"family": "voronoi", "style": gen.POINT_STYLES[(n + r) % 6], "n": n,
                                                      "seed": int(rng.integers(0, 2**31)), "shift": bool(r % 2)}})
    reps = 1 if tier == "quick" else 3
    for ld in lat_descr:
        try:
            pos, _, _ = small_lattice({"lat": ld})
        except Exception:
            continue
        V = len(pos)
        if V > 12 or V < 1:
            continue
        for rank in range(0, V + 1):
            for rep in range(reps):
                cases.append({"kind": "exact", "lat": ld, "rank": rank, "seed": int(rng.integers(0, 2**31))})
    return cases


def ser_matrix(Pz):
    toks = [str(len(Pz))]
    for row in Pz:
        toks.append(str(len(row)))
        for re, im in row:
            toks += [hx(re), hx(im)]
    return toks


def eval_exact(ctx, cases, label):
    res = ctx.res
    jobs = []     # (case, what, line, meta)
    prepared = []
    for c in cases:
        pos, edges, crossing = small_lattice(c)
        pos = np.asarray(pos, dtype=float)
        V = len(pos)
        rng = np.random.default_rng([c["seed"], V, c["rank"]])
        P = exact_projector(V, c["rank"], rng)
        assert is_exact_projector(P)
        D = common_den(P)
        Pz = [[(int(z[0] * D), int(z[1] * D)) for z in row] for row in P]
        Pf = to_complex(P)
        chs = crosshair_positions(pos, rng)
        S = common_scale(np.concatenate([pos.ravel(), np.array([x for _, ch in chs for x in ch])]))
        xs = [int(Fraction(float(x)) * S) for x in pos[:, 0]]
        ys = [int(Fraction(float(y)) * S) for y in pos[:, 1]]
        mt = ser_matrix(Pz)
        vx = [str(V)] + [hx(x) for x in xs]
        vy = [str(V)] + [hx(y) for y in ys]
        lat = Lattice(pos.copy(), np.asarray(edges).copy(), np.asarray(crossing).copy())
        items = [("proj", None, " ".join(["proj", hx(D)] + mt)), ("chern", None, " ".join(["chern"] + mt + vx + vy))]
        for name, ch in chs:
            X, Y = int(Fraction(ch[0]) * S), int(Fraction(ch[1]) * S)
            items.append(("crosshair:" + name, ch, " ".join(["crosshair"] + mt + vx + vy + [hx(X), hx(Y)])))
        prepared.append((c, pos, lat, P, Pf, D, S, items))
        for it in items:
            jobs.append(it[2])
    outs = run_driver_parallel(ctx.exe["c18"], jobs)
    oi = 0
    for c, pos, lat, P, Pf, D, S, items in prepared:
        V = len(pos)
        fx = [Fraction(float(x)) for x in pos[:, 0]]
        fy = [Fraction(float(y)) for y in pos[:, 1]]
        nontriv = False
        for what, ch, _ in items:
            o = outs[oi]
            oi += 1
            case = dict(c, what=what, crosshair=ch)
            if what == "proj":
                # the proved-sound checker gz_projb (Proofs/MarkerBridge.v gz_projb_sound): the input satisfies the theorems' hypotheses
                if o.get("proj") != ["1"]:
                    raise RuntimeError(f"generator bug: extracted gz_projb rejects the exact projector of {case}: {o}")
                res.extra["inputs_accepted_by_proved_projector_check"] = res.extra.get("inputs_accepted_by_proved_projector_check", 0) + 1
                continue
            if "error" in o or o["marker"][0] == "ERR":
                raise RuntimeError(f"driver error on {case}: {o}")
            cur = Cursor(o["marker"])
            nums = cur.list(cur.z)
            if what == "chern":
                model = [Fraction(n, D**3 * S * S) for n in nums]
                spec = exact_marker(P, fx, fy)
                Pa = arg_forms(res, "projector", Pf, "chern")
                try:
                    impl = np.asarray(cn.chern_marker(lat, Pa))
                except Exception as e:
                    res.violation("marker-raises", f"chern_marker raised {type(e).__name__}: {e} on a {type(Pa).__name__} projector "
                                  f"(writeable={getattr(getattr(Pa, 'flags', None), 'writeable', None)}) V={V} rank={c['rank']}", case)
                    continue
            else:
                model = [Fraction(n, D**3) for n in nums]
                ax = [Fraction(int(x < Fraction(ch[0]))) for x in fx]
                ay = [Fraction(int(y < Fraction(ch[1]))) for y in fy]
                spec = exact_marker(P, ax, ay)
                Pa = arg_forms(res, "projector", Pf, ch)
                try:
                    impl = np.asarray(cn.crosshair_marker(lat, Pa, arg_forms(res, "crosshair", ch, V, c["rank"])))
                except Exception as e:
                    res.violation("marker-raises", f"crosshair_marker raised {type(e).__name__}: {e} on a {type(Pa).__name__} projector "
                                  f"(writeable={getattr(getattr(Pa, 'flags', None), 'writeable', None)}) V={V} rank={c['rank']} crosshair={ch}", case)
                    continue
            if not np.array_equal(Pa, Pf):
                res.violation("marker-modifies-projector", f"{what}: the projector passed in was modified", case)
            scale = 1.0 + max(abs(float(m)) for m in spec)
            tol = TOL * scale
            res.traces += 1
            bad_shape = impl.shape != (V,) or np.iscomplexobj(impl)
            if bad_shape:
                res.violation("marker-not-real-vector", f"{what}: output shape {impl.shape} dtype {impl.dtype}", case)
                continue
            iv = impl / FOURPI
            ds = max(abs(iv[i] - float(spec[i])) for i in range(V))
            if ds > tol:
                i = int(np.argmax([abs(iv[k] - float(spec[k])) for k in range(V)]))
                res.violation(("crosshair-formula" if what != "chern" else "chern-formula"),
                              f"{what} V={V} rank={c['rank']}: marker[{i}]/(4 pi) = {iv[i]!r} but the property's formula gives {float(spec[i])!r} "
                              f"(exact {spec[i]}); crosshair={ch}", case)
            if model != spec:
                ctx.k_mismatch(f"{label}: {what}: extracted model differs from the exact python restatement", case)
            elif max(abs(iv[i] - float(model[i])) for i in range(V)) > tol and ds <= tol:
                ctx.k_mismatch(f"{label}: {what}: implementation differs from model", case)
            if any(m != 0 for m in spec):
                nontriv = True
            # exact identities on the exact values (sanity of the generator; theorems cover them)
            if sum(spec) != 0:
                ctx.k_mismatch(f"{label}: {what}: exact marker does not sum to zero — input is not a projector?", case)
        fam = f"exactK/{c['lat']['kind']}" + ("/" + c["lat"]["case"]["family"] if c["lat"]["kind"] == "gen" else "")
        res.count(fam, digest(c) if nontriv else None)
        res.hist_rank = getattr(res, "hist_rank", {})
        key = f"V={V}"
        res.hist_rank[key] = res.hist_rank.get(key, 0) + 1
        if nontriv:
            res.sample({"case": c, "V": V, "rank": c["rank"], "common_denominator_bits": D.bit_length(),
                        "chern_marker_over_4pi_exact": [str(x) for x in exact_marker(P, fx, fy)][:4]})
    res.extra["exactK_V_histogram"] = getattr(res, "hist_rank", {})
    if label.startswith("K("):
        coq_crosscheck(ctx, list(zip(jobs, outs)))     # extraction cross-check: a sample of the driver's answers re-derived inside Coq


# ------------------------------------------------------------------ extraction cross-check (DESIGN 1.3)
def coq_crosscheck(ctx, sent):
    """sent: (line sent to the c18 driver, its answer) for every command of the exact K phase (V <= 12).  A small random sample
    per command is re-derived INSIDE Coq: the line is read back into Gallina literals (all integers hex, the driver's grammar)
    and every answer line must be what vm_compute gives: gz_projb; chern_num; theta (both axes) and crosshair_num."""
    import xcheck as X
    quick = ctx.tier == "quick"
    rng = np.random.default_rng([ctx.seed, 18, 99])
    pools = {"proj": [], "chern": [], "crosshair": []}
    for line, o in sent:
        t = line.split()
        if "error" not in o:
            pools[t[0]].append((t, o))
    quota = {"proj": 3 if quick else 20, "chern": 4 if quick else 30, "crosshair": 6 if quick else 50}
    mat = lambda P: X.lst(lambda row: X.lst(X.zpair, row), P)
    marker = lambda toks: "None" if toks[0] == "ERR" else "Some " + X.zlist([unhx(x) for x in toks[1:]])
    body = []
    g = lambda lhs, rhs: body.append(X.goal(lhs, rhs))
    n_cases = {}
    for kind in ("proj", "chern", "crosshair"):
        pool = pools[kind]
        idx = sorted(rng.choice(len(pool), size=min(len(pool), quota[kind]), replace=False).tolist()) if pool else []
        n_cases[kind] = len(idx)
        for i in idx:
            t, o = pool[i]
            c = Cursor(t[1:])
            rd_mat = lambda: c.list(lambda: c.list(lambda: (c.z(), c.z())))
            if kind == "proj":
                D = c.z()
                P = rd_mat()
                g(f"gz_projb {X.nat(len(P))} {X.z(D)} {mat(P)}", X.boolean(o["proj"] == ["1"]))
            else:
                P = rd_mat()
                xs, ys = c.list(c.z), c.list(c.z)
                if kind == "chern":
                    g(f"chern_num {mat(P)} {X.zlist(xs)} {X.zlist(ys)}", marker(o["marker"]))
                else:
                    Xc, Yc = c.z(), c.z()
                    g(f"(map fst (theta {X.zlist(xs)} {X.z(Xc)}), map fst (theta {X.zlist(ys)} {X.z(Yc)}))",
                      f"({X.zlist([unhx(x) for x in o['theta_x'][1:]])}, {X.zlist([unhx(x) for x in o['theta_y'][1:]])})")
                    g(f"crosshair_num {mat(P)} {X.zlist(xs)} {X.zlist(ys)} {X.z(Xc)} {X.z(Yc)}", marker(o["marker"]))
            if not c.done():
                raise RuntimeError(f"extraction cross-check: could not read back the whole {kind} line")
    res = ctx.res
    res.extra["extraction_crosscheck_goals_vm_compute"] = X.compile_goals("c18", "Model.Marker", body, "c18")
    res.extra["extraction_crosscheck_cases"] = n_cases
    res.extra["extraction_crosscheck_wall_s"] = X.LAST_WALL


# ------------------------------------------------------------------ numeric S on larger systems
def numeric_cases(tier, seed):
    rng = np.random.default_rng([seed, 1818])
    cases = []
    nrand = 40 if tier == "quick" else 200
    for i in range(nrand):
        V = int(rng.integers(2, 61))
        rank = int(rng.integers(0, V + 1)) if i % 5 else (0 if i % 10 else V)
        cases.append({"kind": "random-projector", "V": V, "rank": rank, "seed": int(rng.integers(0, 2**31))})
    # all ranks on one size
    for V in ((7,) if tier == "quick" else (7, 16, 33)):
        for rank in range(V + 1):
            cases.append({"kind": "random-projector", "V": V, "rank": rank, "seed": int(rng.integers(0, 2**31))})
    # nearly real projectors (imaginary parts 1e-7..1e-6 of the real parts): genuinely complex, markers ~1e-7..1e-5; V <= 8, so the
    # float error of the triple product is ~1e-15 and the tolerance is tightened by 1e-3 for this family
    for i in range(12 if tier == "quick" else 60):
        V = int(rng.integers(4, 9))
        cases.append({"kind": "random-projector", "V": V, "rank": int(rng.integers(1, V)), "seed": int(rng.integers(0, 2**31)),
                      "imag_scale": [1e-6, 3e-7, 1e-7, 1e-3][i % 4], "tol_scale": 1e-3})
    nm = 10 if tier == "quick" else 60
    for i in range(nm):
        if i % 3 == 0:
            base = {"family": "example", "name": "honeycomb_lattice", "args": [int(rng.integers(1, 6))]}
        else:
            base = {"family": "voronoi", "style": gen.POINT_STYLES[i % 6], "n": int(rng.integers(2, 31)),
                    "seed": int(rng.integers(0, 2**31)), "shift": bool(i % 2)}
        cases.append({"kind": "majorana", "base": base, "seed": int(rng.integers(0, 2**31)), "fill": ["half", "random"][i % 2]})
    return cases


def numeric_setup(c):
    rng = np.random.default_rng([c["seed"], 7])
    if c["kind"] == "random-projector":
        V, r = c["V"], c["rank"]
        pos = rng.uniform(-0.2, 1.2, size=(V, 2)) if c["seed"] % 2 else rng.integers(0, 16, size=(V, 2)) / 16.0
        edges = np.array([[i, (i + 1) % V] for i in range(V)], dtype=int)
        lat = Lattice(pos, edges, np.zeros((V, 2), dtype=int))
        A = rng.standard_normal((V, r)) + 1j * c.get("imag_scale", 1.0) * rng.standard_normal((V, r))
        if r:
            Q, _ = np.linalg.qr(A)
            P = Q @ Q.conj().T
        else:
            P = np.zeros((V, V), dtype=complex)
        return lat, P
    from koala.graph_color import color_lattice
    from koala.hamiltonian import majorana_hamiltonian
    p, e, cr = gen.build(c["base"])
    lat = Lattice(p, e, cr)
    col = color_lattice(lat)
    u = rng.choice([-1, 1], size=lat.n_edges)
    J = rng.uniform(0.2, 1.5, size=3)
    H = majorana_hamiltonian(lat, col, u, J)
    H = (H + H.conj().T) / 2
    E, W = np.linalg.eigh(H)
    V = lat.n_vertices
    if c["fill"] == "half":
        occ = np.arange(V) < V // 2
    else:
        occ = rng.uniform(size=V) < 0.5
    Wo = W[:, occ]
    return lat, Wo @ Wo.conj().T


def indep(P, a, b):
    """4 pi Im sum_jk P_ij a_j P_jk b_k P_ki — written with einsum, not with @ / np.diag"""
    return FOURPI * np.einsum("ij,j,jk,k,ki->i", P, a, P, b, P).imag


class ImplRaised(Exception):
    pass


def f0_raw(cn, lat, Q, ch):
    try:
        return np.asarray(cn.chern_marker(lat, Q) if ch is None else cn.crosshair_marker(lat, Q, ch))
    except Exception as e:
        raise ImplRaised(f"{type(e).__name__}: {e}") from e


def eval_numeric(ctx, cases, label):
    res = ctx.res
    worst = res.extra.setdefault("numeric_worst_residual_over_tol", {})
    for c in cases:
        try:
            lat, P = numeric_setup(c)
        except Exception as e:
            res.skip(f"numeric-setup-failed:{type(e).__name__}")
            continue
        V = lat.n_vertices
        rng = np.random.default_rng([c["seed"], 9])
        pos = lat.vertices.positions
        herm = np.max(np.abs(P - P.conj().T), initial=0)
        idem = np.max(np.abs(P @ P - P), initial=0)
        if herm > 1e-10 or idem > 1e-10:
            res.skip("numeric-projector-not-accurate")
            continue
        x, y = pos[:, 0].astype(float), pos[:, 1].astype(float)
        order = rng.permutation(V)
        d = rng.choice([-1.0, 1.0], size=V)
        latp = permute_vertices(lat, order)
        Pp = P[np.ix_(order, order)]
        Pg = d[:, None] * P * d[None, :]
        lats = Lattice(pos[:, ::-1].copy(), lat.edges.indices.copy(), lat.edges.crossing[:, ::-1].copy())
        calls = [("chern", None)] + [("crosshair:" + n, ch) for n, ch in crosshair_positions(pos, rng)[:5]]
        nontriv = False
        for what, ch in calls:
            case = dict(c, what=what, crosshair=ch)
            if ch is None:
                f = lambda L, Q, sw=False: np.asarray(cn.chern_marker(L, arg_forms(res, "projector", Q, "chern", sw)))
                a, b = x, y
            else:
                f = lambda L, Q, sw=False, ch=ch: np.asarray(cn.crosshair_marker(L, arg_forms(res, "projector", Q, ch, sw), arg_forms(res, "crosshair", ch[::-1] if sw else ch, V, sw)))
                a, b = 1.0 * (x < ch[0]), 1.0 * (y < ch[1])
            f0 = f

            def f(*a_, f0=f0, **k_):
                try:
                    return f0(*a_, **k_)
                except Exception as e:
                    raise ImplRaised(f"{type(e).__name__}: {e}") from e
            try:
                m = f(lat, P.copy())
                # a second evaluation with the very same projector object: the marker is a function of (lattice, P)
                Q = arg_forms(res, "projector", P.copy(), "twice", what)
                Q0 = np.array(Q, copy=True)
                m1, m2 = f0_raw(cn, lat, Q, ch), f0_raw(cn, lat, Q, ch)
            except ImplRaised as e:
                res.violation("marker-raises", f"{what} V={V}: the implementation raised {e}; crosshair={ch}", case)
                continue
            if not np.array_equal(np.asarray(Q), Q0):
                res.violation("marker-modifies-projector", f"{what} V={V}: the projector passed in was modified; crosshair={ch}", case)
            if np.shape(m1) == np.shape(m2) and not np.allclose(m1, m2, rtol=0, atol=1e-9 * (1 + np.max(np.abs(m1), initial=0))):
                res.violation("marker-differs-on-second-call", f"{what} V={V}: two calls with the same lattice and the same projector object returned markers "
                              f"differing by {np.max(np.abs(np.asarray(m1) - np.asarray(m2))):.3g}; crosshair={ch}", case)
            tol = FOURPI * TOL * max(V, 1) * (1 + np.max(np.abs(a), initial=0) * np.max(np.abs(b), initial=0)) * c.get("tol_scale", 1.0)

            def chk(key, resid, msg):
                r = float(resid) / tol
                worst[key] = max(worst.get(key, 0.0), r)
                if r > 1:
                    res.violation(key, f"{what} V={V}: {msg} (residual {float(resid):.3e}, tolerance {tol:.1e}); crosshair={ch}", case)
            if m.shape != (V,) or np.iscomplexobj(m):
                res.violation("marker-not-real-vector", f"{what}: output shape {m.shape} dtype {m.dtype}", case)
                continue
            chk("crosshair-formula" if ch else "chern-formula", np.max(np.abs(m - indep(P, a, b)), initial=0),
                "differs from 4 pi Im diag(P a P b P)")
            chk("sum-not-zero", abs(np.sum(m)), "marker does not sum to zero over the sites")
            try:
                chk("swap-antisymmetry", np.max(np.abs(f(lats, P.copy(), True) + m), initial=0), "exchanging x and y does not flip the sign")
                chk("relabelling", np.max(np.abs(f(latp, Pp.copy()) - m[order]), initial=0), "marker does not follow the sites under permute_vertices")
                chk("gauge", np.max(np.abs(f(lat, Pg.copy()) - m), initial=0), "marker changes under a site-wise sign change of P")
            except ImplRaised as e:
                res.violation("marker-raises", f"{what} V={V}: the implementation raised {e}; crosshair={ch}", case)
                continue
            if np.max(np.abs(m), initial=0) > 1e-6:
                nontriv = True
        res.count("numericS/" + c["kind"], digest(c) if nontriv else None)
        b = "V<=10" if V <= 10 else "V<=30" if V <= 30 else "V<=60" if V <= 60 else "V>60"
        hs = res.extra.setdefault("numericS_size_histogram", {})
        hs[b] = hs.get(b, 0) + 1


def evaluate(ctx, cases, label):
    eval_exact(ctx, [c for c in cases if c["kind"] == "exact"], label)
    eval_numeric(ctx, [c for c in cases if c["kind"] != "exact"], label)


def run(ctx):
    ctx.res.rule = ("exact: Gaussian-rational projectors A(A*A)^-1A* of every rank 0..V on dyadic ring lattices V=2..12, honeycomb(1,2), two_triangles and "
                    "2..6-seed Voronoi lattices, Chern marker + crosshair at 8 positions (inside, on a vertex, on x of one vertex and y of another, one ulp and a few 1e-6 above a vertex, outside, all-below); "
                    "numeric: random complex projectors (V=2..60, every rank) and spectral projectors of Majorana Hamiltonians (Voronoi, honeycomb; random u, J; half / random filling); "
                    "non-trivial = some marker value is non-zero (exact) / exceeds 1e-6 (numeric)")
    evaluate(ctx, k_cases(ctx.tier, ctx.seed) + numeric_cases(ctx.tier, ctx.seed), "K(marker)")


def search(ctx):
    evaluate(ctx, k_cases("thorough", ctx.seed + 1)[:: (4 if ctx.tier == "quick" else 1)] + numeric_cases("thorough", ctx.seed + 1)[:: (4 if ctx.tier == "quick" else 1)], "search")


def replay(ctx, payload):
    c = dict(payload["case"])
    c.pop("what", None)
    c.pop("crosshair", None)
    evaluate(ctx, [c], "replay")
