"""Lattice generators shared by the checks (DESIGN 1.5).  Every case is described by a
small JSON-able dict so that a failure replays alone; build(case) is deterministic."""
import itertools
import numpy as np
from lib import *  # noqa
from koala import example_graphs as eg
from koala import voronization, graph_utils
from koala.lattice import Lattice, cut_boundaries

POINT_STYLES = ["uniform", "clustered", "two_cluster", "jittered", "boundary", "collinear"]


def points(style, n, seed):
    rng = np.random.default_rng([seed, n, POINT_STYLES.index(style)])
    if style == "uniform":
        p = rng.uniform(size=(n, 2))
    elif style == "clustered":
        p = (0.5 + 0.12 * rng.standard_normal((n, 2))) % 1
    elif style == "two_cluster":
        c = np.where(rng.uniform(size=(n, 1)) < 0.5, 0.25, 0.75)
        p = (c + 0.08 * rng.standard_normal((n, 2))) % 1
    elif style == "jittered":
        m = int(np.ceil(np.sqrt(n)))
        g = np.array([(i + 0.5, j + 0.5) for i in range(m) for j in range(m)])[:n] / m
        p = (g + rng.uniform(-0.3, 0.3, size=(n, 2)) / m) % 1
    elif style == "boundary":
        p = rng.uniform(size=(n, 2))
        k = rng.integers(0, 2, size=n)
        p[np.arange(n), k] = (rng.uniform(-0.02, 0.02, size=n)) % 1
    elif style == "collinear":
        t = np.sort(rng.uniform(size=n))
        p = np.stack([t, (0.37 + 0.61 * t + 0.01 * rng.standard_normal(n)) % 1], axis=1)
    else:
        raise ValueError(style)
    return p


def arrays(lat):
    return (np.array(lat.vertices.positions, dtype=float), np.array(lat.edges.indices, dtype=int).reshape(-1, 2),
            np.array(lat.edges.crossing, dtype=int).reshape(-1, 2))


SMALL_BASES = {
    # name -> (positions, edges, crossing); <= 14 edges, crossing-free straight-line drawings
    "two_triangles": lambda: arrays(eg.two_triangles()),
    "bridge": lambda: arrays(eg.bridge_graph()),
    "tri_square_pent": lambda: arrays(eg.tri_square_pent()),
    "star_sheared": lambda: arrays(eg.star_lattice_sheared()[0]),
    "honeycomb1": lambda: arrays(eg.honeycomb_lattice(1)),
    "trinon1": lambda: arrays(eg.tri_non_lattice(1)),
    "square3x2": lambda: arrays(eg.square_lattice(3, 2)),
    "wheel6": lambda: arrays(eg.higher_coordination_number_example(6)),
    "voronoi4": lambda: arrays(voronization.generate_lattice(points("uniform", 4, 11))),
    "ladder4": lambda: arrays(eg.n_ladder(4, True)),
}


def build(case):
    """case dict -> (positions, edges, crossing) numpy arrays"""
    f = case["family"]
    if f == "voronoi":
        lat = voronization.generate_lattice(points(case["style"], case["n"], case["seed"]),
                                            shift_vertices=case.get("shift", True))
        return arrays(lat)
    if f == "example":
        name = case["name"]
        args = case.get("args", [])
        r = getattr(eg, name)(*args)
        lat = r[0] if isinstance(r, tuple) else r
        return arrays(lat)
    if f == "small_base":
        return SMALL_BASES[case["name"]]()
    if f == "cut":
        p, e, c = build(case["base"])
        bx, by = case["cut"]
        keep = ~(((c[:, 0] != 0) & bx) | ((c[:, 1] != 0) & by))
        return p, e[keep], c[keep]
    if f == "edge_subset":          # keep edges given by a bit mask / index list
        p, e, c = build(case["base"])
        keep = np.array(case["keep"], dtype=int)
        return p, e[keep], c[keep]
    if f == "edge_deleted":
        p, e, c = build(case["base"])
        rng = np.random.default_rng([case["seed"], len(e)])
        keep = rng.uniform(size=len(e)) < case["frac"]
        return p, e[keep], c[keep]
    if f == "vertex_isolated":      # delete every edge at a random vertex subset (vertices stay, isolated)
        p, e, c = build(case["base"])
        rng = np.random.default_rng([case["seed"], len(p)])
        iso = rng.uniform(size=len(p)) < case["frac"]
        if case.get("last", False):
            iso[-1] = True
        keep = ~(iso[e[:, 0]] | iso[e[:, 1]])
        return p, e[keep], c[keep]
    if f == "dual":
        p, e, c = build(case["base"])
        d = graph_utils.make_dual(Lattice(p, e, c))
        return arrays(d)
    if f == "tiled":
        p, e, c = build(case["base"])
        lat = eg.tile_unit_cell(p, e, c, case["nxy"])
        return arrays(lat)
    if f == "relabel":              # same embedded graph: edges listed in another order, some stored the other way round
        p, e, c = build(case["base"])
        rng = np.random.default_rng([case["seed"], len(e), 7])
        perm = rng.permutation(len(e))
        e, c = e[perm].copy(), c[perm].copy()
        flip = rng.uniform(size=len(e)) < case.get("flip", 0.5)
        e[flip] = e[flip][:, ::-1]
        c[flip] = -c[flip]
        if case.get("vertices", False):
            vp = rng.permutation(len(p))      # new index of old vertex v is vp[v]
            q = np.empty_like(p)
            q[vp] = p
            p, e = q, vp[e]
        return p, e, c
    if f == "pendant":              # dangling edges stuck into a random subset of the (convex) faces
        p, e, c = build(case["base"])
        rng = np.random.default_rng([case["seed"], len(e), 11])
        lat = Lattice(p, e, c)
        newp, newe, newc = [], [], []
        for pl in lat.plaquettes:
            if rng.uniform() >= case.get("frac", 0.6):
                continue
            vec = lat.edges.vectors[pl.edges] * pl.directions[:, None]
            cr = vec[:, 0] * np.roll(vec[:, 1], -1) - vec[:, 1] * np.roll(vec[:, 0], -1)
            if not np.all(cr > 1e-9):
                continue                      # only convex faces: the segment to the centroid stays inside
            k = int(rng.integers(0, len(pl.vertices)))
            pts = p[pl.vertices[0]] + np.concatenate([[[0.0, 0.0]], np.cumsum(vec, 0)[:-1]])
            q = pts[k] + float(rng.choice([0.25, 0.4])) * (pl.center - pts[k])
            # q is in the unwrapped frame of pts[0] = stored position of vertices[0]; the pendant leaves vertex
            # vertices[k], whose stored position differs from pts[k] by an integer vector
            shift = np.round(pts[k] - p[pl.vertices[k]])
            q = q - shift
            n = np.floor(q)
            newp.append(q - n)
            newe.append([int(pl.vertices[k]), len(p) + len(newp) - 1])
            newc.append(n.astype(int))
        if newp:
            p = np.concatenate([p, np.array(newp)])
            e = np.concatenate([e, np.array(newe, dtype=int)])
            c = np.concatenate([c, np.array(newc, dtype=int)])
        return p, e, c
    if f == "pinch":                # small triangles hung inside (convex) faces from one of their corners: the face then
        p, e, c = build(case["base"])      # visits that corner twice without using any edge twice (a pinched, still valid, plaquette)
        rng = np.random.default_rng([case["seed"], len(e), 17])
        lat = Lattice(p, e, c)
        newp, newe, newc = [], [], []
        for pl in lat.plaquettes:
            if rng.uniform() >= case.get("frac", 0.5) or len(pl.vertices) < 3:
                continue
            vec = lat.edges.vectors[pl.edges] * pl.directions[:, None]
            cr = vec[:, 0] * np.roll(vec[:, 1], -1) - vec[:, 1] * np.roll(vec[:, 0], -1)
            if not np.all(cr > 1e-9):
                continue
            k = int(rng.integers(0, len(pl.vertices)))
            pts = p[pl.vertices[0]] + np.concatenate([[[0.0, 0.0]], np.cumsum(vec, 0)[:-1]])
            d = pl.center - pts[k]
            perp = np.array([-d[1], d[0]])
            shift = np.round(pts[k] - p[pl.vertices[k]])
            def inside(q):          # strictly inside the convex polygon pts (anticlockwise), with a margin
                nxt = np.roll(pts, -1, axis=0)
                return bool(np.all((nxt[:, 0] - pts[:, 0]) * (q[1] - pts[:, 1]) - (nxt[:, 1] - pts[:, 1]) * (q[0] - pts[:, 0]) > 1e-6))
            w = 0.08
            while w > 0.005 and not (inside(pts[k] + 0.3 * d + w * perp) and inside(pts[k] + 0.3 * d - w * perp)):
                w /= 2                # thin wedge at this corner: make the triangle narrower
            if w <= 0.005:
                continue
            ids = []
            for q in (pts[k] + 0.3 * d + w * perp, pts[k] + 0.3 * d - w * perp):
                q = q - shift
                n = np.floor(q)
                newp.append(q - n)
                ids.append((len(p) + len(newp) - 1, n.astype(int)))
            v = int(pl.vertices[k])
            (a, na), (b, nb) = ids
            newe += [[v, a], [a, b], [b, v]]
            newc += [na, nb - na, -nb]
        if newp:
            p = np.concatenate([p, np.array(newp)])
            e = np.concatenate([e, np.array(newe, dtype=int)])
            c = np.concatenate([c, np.array(newc, dtype=int)])
        return p, e, c
    if f == "tiny":                 # a very small (area < 1e-8) or very thin irregular polygon as a free component inside a convex face:
        p, e, c = build(case["base"])      # still a legitimate plaquette with a centroid that is far (relative to its size) from its vertex mean
        rng = np.random.default_rng([case["seed"], len(e), 23])
        lat = Lattice(p, e, c)
        newp, newe, newc = [], [], []
        for pl in lat.plaquettes:
            if rng.uniform() >= case.get("frac", 0.5) or len(pl.vertices) < 3:
                continue
            vec = lat.edges.vectors[pl.edges] * pl.directions[:, None]
            cr = vec[:, 0] * np.roll(vec[:, 1], -1) - vec[:, 1] * np.roll(vec[:, 0], -1)
            if not np.all(cr > 1e-9):
                continue
            pts = p[pl.vertices[0]] + np.concatenate([[[0.0, 0.0]], np.cumsum(vec, 0)[:-1]])
            ctr = pts.mean(axis=0)
            nxt = np.roll(pts, -1, axis=0)
            def inside(q):
                return bool(np.all((nxt[:, 0] - pts[:, 0]) * (q[1] - pts[:, 1]) - (nxt[:, 1] - pts[:, 1]) * (q[0] - pts[:, 0]) > 1e-6))
            kind = case.get("kind", "kite")
            if kind == "kite":        # irregular quadrilateral / pentagon of diameter ~ size (anticlockwise, star-shaped about ctr)
                m = int(rng.integers(4, 6))
                ang = np.sort(rng.uniform(0, 2 * np.pi / m * 0.6, size=m) + 2 * np.pi / m * np.arange(m)) + rng.uniform(0, 2 * np.pi)
                rad = case["size"] * rng.uniform(0.35, 1.0, size=m)
                poly = ctr + np.stack([rad * np.cos(ang), rad * np.sin(ang)], axis=1)
            else:                     # thin trapezoid: long side L, short side L/3, height h (area ~ 2/3 L h)
                L, h = case["size"], case["height"]
                th = rng.uniform(0, 2 * np.pi)
                ux, uy = np.array([np.cos(th), np.sin(th)]), np.array([-np.sin(th), np.cos(th)])
                poly = np.array([ctr - L / 2 * ux, ctr + L / 2 * ux, ctr + (L / 2 - L / 3 * 2) * ux + h * uy, ctr - L / 2 * ux + h * uy])
            if not all(inside(q) for q in poly):
                continue
            base = len(p) + len(newp)
            fl = []
            for q in poly:
                n = np.floor(q)
                newp.append(q - n)
                fl.append(n.astype(int))
            m = len(poly)
            for i in range(m):
                j = (i + 1) % m
                newe.append([base + i, base + j])
                newc.append(fl[j] - fl[i])
        if newp:
            p = np.concatenate([p, np.array(newp)])
            e = np.concatenate([e, np.array(newe, dtype=int)])
            c = np.concatenate([c, np.array(newc, dtype=int)])
        return p, e, c
    if f == "island":               # one plaquette cut free from the rest: a contractible island component with a cycle inside a
        p, e, c = build(case["base"])      # lattice that is still periodic; the walk round the OUTSIDE of the island is clockwise, not a plaquette
        rng = np.random.default_rng([case["seed"], len(e), 19])
        pls = Lattice(p, e, c).plaquettes
        if len(pls) < 3:
            return p, e, c
        F = pls[int(rng.integers(0, len(pls)))]
        own = set(int(x) for x in F.edges)
        vs = set(int(x) for x in F.vertices)
        keep = np.array([i for i in range(len(e)) if i in own or not (int(e[i][0]) in vs or int(e[i][1]) in vs)], dtype=int)
        return p, e[keep], c[keep]
    if f == "face_last":            # sweep-order adversary: one chosen plaquette F gets all its edges listed first and stored
        p, e, c = build(case["base"])      # against its direction of travel, so F can only be found by a backward search
        rng = np.random.default_rng([case["seed"], len(e), 13])
        pls = Lattice(p, e, c).plaquettes
        if len(pls) == 0:
            return p, e, c
        F = pls[int(rng.integers(0, len(pls)))]
        e, c = e.copy(), c.copy()
        for ed, d in zip(F.edges, F.directions):
            if d == 1:
                e[ed] = e[ed][::-1]
                c[ed] = -c[ed]
        first = [int(x) for x in F.edges]
        rest = [i for i in range(len(e)) if i not in set(first)]
        rng.shuffle(rest)
        order = np.array(first + rest, dtype=int)
        return p, e[order], c[order]
    if f == "raw":
        return (np.array(case["positions"], dtype=float).reshape(-1, 2), np.array(case["edges"], dtype=int).reshape(-1, 2),
                np.array(case["crossing"], dtype=int).reshape(-1, 2))
    raise ValueError(f)


def example_cases(tier):
    out = []
    for name in ["two_triangles", "tri_square_pent", "tutte_graph", "bridge_graph", "concave_plaquette", "star_lattice_sheared"]:
        out.append({"family": "example", "name": name})
    mx = 6 if tier == "quick" else 12
    for n in range(1, mx + 1):
        out.append({"family": "example", "name": "honeycomb_lattice", "args": [n]})
    for n in range(1, (3 if tier == "quick" else 6) + 1):
        out.append({"family": "example", "name": "hex_square_oct_lattice", "args": [n]})
        out.append({"family": "example", "name": "tri_non_lattice", "args": [n]})
    for nx, ny in [(1, 1), (2, 2), (2, 3), (3, 4), (5, 2)] + ([(7, 7), (8, 3)] if tier != "quick" else []):
        out.append({"family": "example", "name": "square_lattice", "args": [nx, ny]})
    for n in [3, 4, 5, 7, 12] + ([20, 40] if tier != "quick" else []):
        out.append({"family": "example", "name": "single_plaquette", "args": [n]})
        out.append({"family": "example", "name": "higher_coordination_number_example", "args": [n]})
    for n in [3, 4, 6, 9] + ([15, 30] if tier != "quick" else []):
        out.append({"family": "example", "name": "n_ladder", "args": [n, False]})
        out.append({"family": "example", "name": "n_ladder", "args": [n, True]})
    return out


def voronoi_cases(tier, rng, count, nmax):
    out = []
    for i in range(count):
        style = POINT_STYLES[i % len(POINT_STYLES)]
        # sizes skewed to small (2..12) where the multigraph / self-touching cases live
        if i % 3 == 0:
            n = int(rng.integers(2, 13))
        else:
            n = int(rng.integers(2, nmax + 1))
        out.append({"family": "voronoi", "style": style, "n": n, "seed": int(rng.integers(0, 2**31)),
                    "shift": bool(i % 2)})
    return out


def derived_cases(bases, rng):
    """cuts, edge-deleted and vertex-isolated subgraphs, duals, tilings of given bases"""
    out = []
    for i, b in enumerate(bases):
        k = i % 8
        if k == 0:
            out.append({"family": "cut", "base": b, "cut": [True, False]})
        elif k == 1:
            out.append({"family": "cut", "base": b, "cut": [False, True]})
        elif k == 2:
            out.append({"family": "cut", "base": b, "cut": [True, True]})
        elif k == 3:
            out.append({"family": "edge_deleted", "base": b, "frac": float(rng.choice([0.5, 0.7, 0.85, 0.95])),
                        "seed": int(rng.integers(0, 2**31))})
        elif k == 4:
            out.append({"family": "vertex_isolated", "base": b, "frac": float(rng.choice([0.05, 0.2, 0.5])),
                        "seed": int(rng.integers(0, 2**31)), "last": True})
        elif k == 5:
            out.append({"family": "edge_deleted", "base": {"family": "cut", "base": b, "cut": [True, True]},
                        "frac": 0.8, "seed": int(rng.integers(0, 2**31))})
        elif k == 6:
            out.append({"family": "dual", "base": b})
        else:
            out.append({"family": "tiled", "base": b, "nxy": [int(rng.integers(1, 4)), int(rng.integers(1, 4))]})
    return out


def exhaustive_subset_cases(max_edges, names=None):
    out = []
    for name, mk in SMALL_BASES.items():
        if names and name not in names:
            continue
        p, e, c = mk()
        ne = len(e)
        if ne > max_edges:
            continue
        for mask in range(1 << ne):
            keep = [i for i in range(ne) if (mask >> i) & 1]
            out.append({"family": "edge_subset", "base": {"family": "small_base", "name": name}, "keep": keep})
    return out


def lattice_cases(tier, seed, exhaustive=True):
    """the C01 input space, sized per tier"""
    rng = np.random.default_rng(seed)
    cases = example_cases(tier)
    if tier == "quick":
        vor = voronoi_cases(tier, rng, 60, 60)
        ex_edges = 9
    else:
        vor = voronoi_cases(tier, rng, 400, 200)
        ex_edges = 12
    cases += vor
    cases += derived_cases(vor + [c for c in example_cases(tier) if c["name"] in
                                  ("honeycomb_lattice", "hex_square_oct_lattice", "tri_non_lattice", "square_lattice")], rng)
    # relabelled / re-oriented copies: the plaquette SET must not depend on the order or the stored direction of edges
    pool = [c for c in cases if c["family"] in ("edge_deleted", "cut", "vertex_isolated", "example", "voronoi")]
    for i in range(min(len(pool), 120 if tier == "quick" else 800)):
        b = pool[int(rng.integers(0, len(pool)))]
        cases.append({"family": "relabel", "base": b, "seed": int(rng.integers(0, 2**31)),
                      "flip": float(rng.choice([0.2, 0.5, 1.0])), "vertices": bool(i % 2)})
    # dangling edges inside faces (a face with a dangling tree is NOT a plaquette), relabelled: whether a neighbouring
    # plaquette is found must not depend on which directed edge first discovers the rejected face
    pbase = [c for c in cases if c["family"] in ("voronoi", "example", "cut", "dual") and c.get("n", 0) <= 40]
    for i in range(min(len(pbase), 60 if tier == "quick" else 400) * 3):
        b = pbase[int(rng.integers(0, len(pbase)))]
        pc = {"family": "pendant", "base": b, "seed": int(rng.integers(0, 2**31)), "frac": float(rng.choice([0.5, 0.75, 0.9]))}
        cases.append({"family": "relabel", "base": pc, "seed": int(rng.integers(0, 2**31)), "flip": 0.5, "vertices": False})
        cases.append({"family": "face_last", "base": pc, "seed": int(rng.integers(0, 2**31))})
    # islands: a plaquette cut free from a lattice that stays periodic (its outside walk must not be reported)
    for i in range(min(len(pbase), 30 if tier == "quick" else 200)):
        b = pbase[int(rng.integers(0, len(pbase)))]
        cases.append({"family": "island", "base": b, "seed": int(rng.integers(0, 2**31))})
    # pinched faces: a valid plaquette that visits a vertex twice (vertex tables must list it once)
    for i in range(min(len(pbase), 40 if tier == "quick" else 300)):
        b = pbase[int(rng.integers(0, len(pbase)))]
        pc = {"family": "pinch", "base": b, "seed": int(rng.integers(0, 2**31)), "frac": float(rng.choice([0.3, 0.6]))}
        cases.append(pc)
        cases.append({"family": "relabel", "base": pc, "seed": int(rng.integers(0, 2**31)), "flip": 0.5, "vertices": bool(i % 2)})
    # tiny / thin plaquettes (area below 1e-8): still plaquettes, with the area centroid as centre
    for i in range(min(len(pbase), 24 if tier == "quick" else 200)):
        b = pbase[int(rng.integers(0, len(pbase)))]
        if i % 3 == 2:
            cases.append({"family": "tiny", "base": b, "seed": int(rng.integers(0, 2**31)), "kind": "sliver", "frac": 0.4,
                          "size": float(rng.choice([0.05, 0.02])), "height": float(rng.choice([1e-7, 3e-8]))})
        else:
            cases.append({"family": "tiny", "base": b, "seed": int(rng.integers(0, 2**31)), "kind": "kite", "frac": 0.4,
                          "size": float(rng.choice([6e-5, 4e-5]))})
    if exhaustive:
        cases += exhaustive_subset_cases(ex_edges)
        # and relabelled edge subsets of the small bases (dangling edges inside faces, bridges, ...)
        sub = [c for c in cases if c["family"] == "edge_subset"]
        for i in range(min(len(sub), 300 if tier == "quick" else 3000)):
            b = sub[int(rng.integers(0, len(sub)))]
            cases.append({"family": "relabel", "base": b, "seed": int(rng.integers(0, 2**31)), "flip": 0.5, "vertices": False})
    return cases


def try_build(case):
    """returns (arrays, None) or (None, reason) when the generator itself cannot produce the base"""
    try:
        return build(case), None
    except Exception as e:  # generator failure (e.g. dual of a too-small lattice)
        return None, f"{type(e).__name__}: {e}"
