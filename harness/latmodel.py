"""Correspondence K for the lattice core: run koala's Lattice and the extracted Gallina
model on the same arrays and compare every public table."""
from lib import *  # noqa
from koala.lattice import Lattice, LatticeException


def parse_model(d, S):
    """driver output dict -> python structure"""
    if "error" in d:
        return {"error": " ".join(d["error"])}
    m = {}
    m["wf"] = d["wf"][0] == "1"
    m["noloops"] = d["noloops"][0] == "1"
    c = Cursor(d["vectors"]); m["vectors"] = c.list(lambda: (c.z(), c.z()))
    c = Cursor(d["adj"]); m["adj"] = c.list(lambda: c.list(c.int))
    c = Cursor(d["coord_bincount"]); m["coord_bincount"] = c.list(c.int)
    c = Cursor(d["coord"]); m["coord"] = c.list(c.int)
    c = Cursor(d["edge_nb"]); m["edge_nb"] = c.list(lambda: c.list(c.int))
    if d["plaquettes"][0] == "ERR":
        m["plaquettes"] = None
        return m
    n = int(d["plaquettes"][0])
    ps = []
    for i in range(n):
        c = Cursor(d[f"p{i}"])
        vs = c.list(c.int); es = c.list(c.int); ds = c.list(lambda: 1 if c.next() == "1" else -1)
        cn = (c.z(), c.z()); a2 = c.z(); w = c.z()
        ps.append({"vertices": vs, "edges": es, "directions": ds, "cnum": cn, "area2": a2, "winding": w})
    m["plaquettes"] = ps
    c = Cursor(d["ep"]); m["ep"] = c.list(lambda: (c.onat(), c.onat()))
    if d["vp"][0] == "ERR":
        m["vp"] = None
    else:
        c = Cursor(d["vp"]); m["vp"] = c.list(lambda: c.list(c.onat))
    c = Cursor(d["pnb"]); m["pnb"] = c.list(lambda: c.list(c.onat))
    return m


def inv(x):
    x = int(x)
    return None if x == INVALID else x


def impl_report(pos, edges, crossing, want_plaquettes=True):
    """run the implementation; returns dict with the same keys (or 'exception')"""
    r = {}
    pos_, edges_, crossing_, r["layout"] = layout_variant(pos, edges, crossing)
    lat = Lattice(pos_, edges_, crossing_)
    r["lat"] = lat
    r["vectors"] = lat.edges.vectors
    r["adj"] = [[int(e) for e in row] for row in lat.vertices.adjacent_edges]
    r["coord_impl"] = [int(x) for x in lat.vertices.coordination_numbers]
    r["edge_nb"] = [[int(e) for e in row] for row in lat.edges.adjacent_edges]
    if not want_plaquettes:
        return r
    try:
        pl = lat.plaquettes
    except LatticeException as e:
        r["plaquettes"] = None
        return r
    r["plaquettes"] = [{"vertices": [int(x) for x in p.vertices], "edges": [int(x) for x in p.edges],
                        "directions": [int(x) for x in p.directions], "center": p.center, "n_sides": int(p.n_sides),
                        "adjacent": [inv(x) for x in p.adjacent_plaquettes]} for p in pl]
    r["ep"] = [(inv(a), inv(b)) for a, b in lat.edges.adjacent_plaquettes]
    r["vp"] = [[inv(x) for x in row] for row in lat.vertices.adjacent_plaquettes]
    r["n_plaquettes"] = lat.n_plaquettes
    return r


def centre_of(mp, S):
    """exact centre (Fractions) of a model plaquette, or None when the area vanishes"""
    if mp["area2"] == 0:
        return None
    den = 3 * mp["area2"] * S
    return (Fraction(mp["cnum"][0], den), Fraction(mp["cnum"][1], den))


def compare(m, r, S, tol=1e-9):
    """list of (section, detail) where model and implementation differ"""
    diffs = []
    if m["adj"] != r["adj"]:
        bad = [v for v in range(len(r["adj"])) if v >= len(m["adj"]) or m["adj"][v] != r["adj"][v]]
        diffs.append(("adjacent_edges", f"vertices {bad[:5]}"))
    if m["coord_bincount"] != r["coord_impl"]:
        diffs.append(("coordination_bincount", f"model {m['coord_bincount'][:8]} impl {r['coord_impl'][:8]}"))
    if m["edge_nb"] != r["edge_nb"]:
        diffs.append(("edge_neighbours", ""))
    ve = np.array([[float(Fraction(a, S)), float(Fraction(b, S))] for a, b in m["vectors"]]).reshape(-1, 2)
    if ve.shape != np.asarray(r["vectors"]).reshape(-1, 2).shape or (ve.size and np.max(np.abs(ve - r["vectors"])) > 1e-12):
        diffs.append(("vectors", ""))
    if "plaquettes" not in r:
        return diffs
    if (m["plaquettes"] is None) != (r["plaquettes"] is None):
        diffs.append(("plaquettes_exception", f"model_err={m['plaquettes'] is None} impl_err={r['plaquettes'] is None}"))
        return diffs
    if m["plaquettes"] is None:
        return diffs
    mp, rp = m["plaquettes"], r["plaquettes"]
    # The property constrains the SET of plaquettes (each a cyclic sequence of directed edges), not the
    # discovery order nor the dart a walk starts on: align the two lists by canonical rotation first.
    def canon(p):
        darts = list(zip(p["edges"], p["directions"]))
        if not darts:
            return (), 0
        i = darts.index(min(darts))
        return tuple(darts[i:] + darts[:i]), i
    mkey = {}
    for j, a in enumerate(mp):
        mkey.setdefault(canon(a)[0], []).append(j)
    rmap, rrot = {}, {}
    missing = []
    for i, b in enumerate(rp):
        k, off_r = canon(b)
        js = mkey.get(k)
        if not js:
            missing.append(i)
            continue
        j = js.pop(0)
        rmap[i] = j
        rrot[i] = (canon(mp[j])[1] - off_r) % max(1, len(b["edges"]))   # impl walk = model walk rotated left by rrot
    unmatched_model = [j for js in mkey.values() for j in js]
    if len(mp) != len(rp):
        diffs.append(("n_plaquettes", f"model {len(mp)} impl {len(rp)}"))
    if missing or unmatched_model:
        diffs.append(("plaquette_set", f"impl plaquettes not in model {missing[:3]} (e.g. {[list(zip(rp[i]['edges'], rp[i]['directions']))[:6] for i in missing[:1]]}); "
                                        f"model plaquettes not in impl {unmatched_model[:3]}"))
        return diffs
    order_same = all(rmap[i] == i and rrot[i] == 0 for i in rmap)
    for i, b in enumerate(rp):
        a = mp[rmap[i]]
        n = len(a["edges"])
        rot = rrot[i]
        if a["vertices"][rot:] + a["vertices"][:rot] != b["vertices"]:
            diffs.append((f"plaquette[{i}].vertices", f"model {a['vertices']} (rotated by {rot}) impl {b['vertices']}"))
            continue
        c = centre_of(a, S)
        if c is not None:
            cf = np.array([float(c[0]), float(c[1])])
            # the centre is computed from the unwrapped polygon starting at the stored position of the walk's FIRST
            # vertex: a rotated walk may be unwrapped into a different periodic image, so compare modulo 1
            # when the start differs (C01 says "centroid of that polygon"; the image is not constrained)
            dv = cf - b["center"]
            if rot != 0:
                dv = dv - np.round(dv)
            # conditioning of the float centroid formula: numerator and area are sums of n products of coordinates of size
            # M <= 2, so the quotient carries an absolute error of order n * eps * M^3 / area (matters only for tiny plaquettes)
            cond = 512 * n * 2.3e-16 / (a["area2"] / (2.0 * S * S))
            if not np.all(np.abs(dv) <= tol * (1 + np.abs(cf)) + cond):
                diffs.append((f"plaquette[{i}].center", f"model {cf} impl {b['center']}"))
        if b["n_sides"] != n:
            diffs.append((f"plaquette[{i}].n_sides", ""))
    if not diffs:
        inv_map = lambda x: None if x is None else rmap.get(x, -1)
        if [(inv_map(a), inv_map(b)) for a, b in r["ep"]] != m["ep"]:
            diffs.append(("edges.adjacent_plaquettes", ""))
        if m["vp"] is None:
            diffs.append(("vertices.adjacent_plaquettes", "model IndexError"))
        elif order_same:
            if m["vp"] != r["vp"]:
                diffs.append(("vertices.adjacent_plaquettes", ""))
        else:
            # slot order within a row follows the discovery order, which is not constrained: compare as multisets
            for v, (rowm, rowr) in enumerate(zip(m["vp"], r["vp"])):
                if len(rowm) != len(rowr) or sorted((x is None, x) for x in rowm) != sorted((inv_map(x) is None, inv_map(x)) for x in rowr):
                    diffs.append(("vertices.adjacent_plaquettes", f"vertex {v}"))
                    break
            else:
                if len(m["vp"]) != len(r["vp"]):
                    diffs.append(("vertices.adjacent_plaquettes", "row count"))
        for i, b in enumerate(rp):
            a = m["pnb"][rmap[i]]
            rot = rrot[i]
            if a[rot:] + a[:rot] != [inv_map(x) for x in b["adjacent"]]:
                diffs.append(("plaquette.adjacent_plaquettes", f"plaquette {i}"))
                break
    if not order_same and not diffs:
        diffs_order = True   # noqa: F841  (order/rotation differences are reported separately by callers that care, e.g. C09)
    return diffs


# ---------------------------------------------------------------- extraction cross-check (DESIGN 1.3)
def coq_crosscheck(samples, workdir=None):
    """samples: list of (pos, edges, crossing, S, m) with m = parse_model(driver output).  The extracted driver's
    answers (rotation system and plaquette list with area and winding numbers) are re-derived INSIDE Coq by
    vm_compute on the same lattice literal and must coincide, so a wrong extraction or driver bug cannot
    silently vouch for the model.  Returns the number of goals checked; raises RuntimeError on a difference."""
    import tempfile
    def z(n):
        return f"({int(n)})%Z"
    def nl(xs):
        return "[" + "; ".join(str(int(x)) for x in xs) + "]%nat"
    body = ["From Coq Require Import List ZArith Bool.", "From Koala Require Import Model.Lattice.",
            "Import ListNotations.", "Open Scope Z_scope."]
    goals = 0
    for i, (pos, edges, crossing, S, m) in enumerate(samples):
        P = scaled_ints(pos, S)
        lat = ("(mkLattice " + z(S) + " [" + "; ".join(f"({z(x)}, {z(y)})" for x, y in P) + "] ["
               + "; ".join(f"({int(j)}, {int(k)})%nat" for j, k in edges) + "] ["
               + "; ".join(f"({z(a)}, {z(b)})" for a, b in crossing) + "])")
        body.append(f"Definition L{i} : lattice := {lat}.")
        adj = "[" + "; ".join(nl(r) for r in m["adj"]) + "]"
        body.append(f"Goal adj_table L{i} = {adj}. Proof. vm_compute. reflexivity. Qed.")
        goals += 1
        if m["plaquettes"] is None:
            body.append(f"Goal find_all_plaquettes L{i} = None. Proof. vm_compute. reflexivity. Qed.")
        else:
            ps = "[" + "; ".join(
                "(" + ", ".join([nl(p["vertices"]), nl(p["edges"]),
                                 "[" + "; ".join("true" if d == 1 else "false" for d in p["directions"]) + "]",
                                 z(p["area2"]), z(p["winding"])]) + ")" for p in m["plaquettes"]) + "]"
            body.append(f"Goal option_map (map (fun p => (p_verts p, p_edges p, p_dirs p, p_area2 p, p_winding p))) "
                        f"(find_all_plaquettes L{i}) = Some {ps}. Proof. vm_compute. reflexivity. Qed.")
        goals += 1
    d = workdir or tempfile.mkdtemp(prefix="latx-", dir="/var/tmp")
    path = os.path.join(d, "cases.v")
    with open(path, "w") as f:
        f.write("\n".join(body) + "\n")
    p = subprocess.run(["timeout", "900", "coqc", "-Q", os.path.join(VERIF, "coq"), "Koala", path], cwd=d,
                       stdout=subprocess.PIPE, stderr=subprocess.STDOUT, text=True)
    import shutil
    if p.returncode != 0:
        msg = p.stdout[-800:]
        shutil.rmtree(d, ignore_errors=True)
        raise RuntimeError("extraction cross-check: the lat driver's answer is not what vm_compute gives inside Coq: " + msg)
    shutil.rmtree(d, ignore_errors=True)
    return goals
