"""C05 — plaquette fluxes are the oriented gauge-invariant product of bond variables.

S (on the implementation): the defining formula is recomputed from the implementation's own
  plaquettes (p.edges / p.directions, and independently from p.vertices + edges.indices =
  "direction of travel") in Python integers AND by the extracted Gallina flux_real / flux_cplx /
  flux_spec / fluxes_to_labels, and compared with fluxes_from_ujk (real, complex) and
  fluxes_to_labels; every single-vertex gauge move; every single-bond flip (the set of flipped
  plaquettes must be the non-INVALID entries of edges.adjacent_plaquettes[e]); global parity on
  closed lattices; the boolean hypotheses of the theorems (plaq_consistent, NoDup edges,
  darts_cover) are evaluated by the extracted model on the implementation's plaquettes.
K: the extracted model end to end (Lattice.find_all_plaquettes + Flux.fluxes_real/cplx) against
  fluxes_from_ujk on random u and on ALL u in {-1,+1}^E for E <= 10 (quick) / 14 (thorough)."""
from lib import *  # noqa
import gen
import argforms as AF
from koala.lattice import Lattice, LatticeException
from koala.flux_finder import fluxes_from_ujk, fluxes_to_labels

DRIVERS = ("c05",)
MODEL_TARGETS = ["Model/Lattice.vo", "Model/Flux.vo"]
TARGETS = ["Proofs/FluxFacts.vo", "Proofs/FluxLattice.vo", "Proofs/FluxAdjacent.vo", "Proofs/FluxGaugeGroup.vo"]
LEVEL = "proof"
TRUST = [
    "hand-written Gallina model coq/Model/Flux.v of flux_finder.fluxes_from_ujk / fluxes_to_labels (numpy fancy indexing, np.prod, complex arithmetic as Gaussian integers): modelled, not verified; tied to the code by the correspondence run (random u, and every u for E<=10/14)",
    "plaquettes come from coq/Model/Lattice.v (C01's model and trust items: exact angular predicates, margin skip < 1e-9)",
    "C05_gauge_invariant(_plaquette) take walk_consistent / plaq_consistent (each step leaves vertex i, arrives at vertex i+1, no self-loop edge) as a boolean hypothesis; it is PROVED for every plaquette of the model (C05_model_plaquette_consistent, from C01's lemmas in Proofs/LatticeFacts.v) and evaluated by the extracted model on every plaquette the implementation returned",
    "'plaquettes adjacent to an edge': C05_single_flip_local reads it as 'plaquettes whose edge list contains the edge'; C05_single_flip_adjacent_model proves, for the model's tables (via C02's edge_sides lemma in Proofs/PlaqTablesFacts.v), that these are the non-INVALID entries of edges_plaquettes[e]; on the implementation the flipped set is compared with the non-INVALID entries of edges.adjacent_plaquettes[e] for every flip (S)",
    "the gauge move and the bond flip are defined by the harness (u[vertices.adjacent_edges[v]] *= -1, u[e] *= -1 on a copy); compared with Flux.gauge / Flux.flip_at on small lattices",
]
ASSUMPTIONS = ["lattices of C01's input space with at least one plaquette, no self-loop edges; bond variables in {-1,+1}"]

I_POW = [1, 1j, -1, -1j]


# ------------------------------------------------------------------ independent restatement
def formula(lat, u):
    """the property's formula in Python integers, twice: with p.directions, and with the
    direction of travel derived from p.vertices and edges.indices.  Returns (by_dir, by_travel)."""
    idx = lat.edges.indices
    a, b = [], []
    for p in lat.plaquettes:
        n = len(p.edges)
        fa = fb = 1
        for k in range(n):
            e = int(p.edges[k])
            ue = int(u[e])
            d = int(p.directions[k])
            fa *= -(ue if d == 1 else -ue) if d in (1, -1) else 0
            tail, head = int(p.vertices[k]), int(p.vertices[(k + 1) % n])
            j, kk = int(idx[e][0]), int(idx[e][1])
            if (j, kk) == (tail, head) and (kk, j) != (tail, head):
                fb *= -ue
            elif (kk, j) == (tail, head) and (j, kk) != (tail, head):
                fb *= ue
            else:
                fb *= 0      # not a step of the walk / self-loop: reported through plaq_consistent
        a.append(fa)
        b.append(fb)
    return a, b


def ser_plaquettes(lat):
    toks = [str(len(lat.plaquettes))]
    for p in lat.plaquettes:
        toks.append(str(len(p.vertices))); toks += [str(int(x)) for x in p.vertices]
        toks.append(str(len(p.edges))); toks += [str(int(x)) for x in p.edges]
        toks.append(str(len(p.directions))); toks += ["1" if int(x) == 1 else "0" for x in p.directions]
    return " ".join(toks)


def ser_u(u):
    return " ".join([str(len(u))] + [hx(int(x)) for x in u])


def zlist(toks):
    c = Cursor(toks)
    return c.list(c.z)


def zpairs(toks):
    c = Cursor(toks)
    return c.list(lambda: (c.z(), c.z()))


def cplx_eq(arr, pairs):
    arr = np.asarray(arr)
    if arr.shape != (len(pairs),):
        return False
    return all(complex(arr[i]) == complex(a, b) for i, (a, b) in enumerate(pairs))


def exact_ints(arr):
    """numpy output -> list of Python ints, or None if some entry is not an integer value"""
    out = []
    for x in np.asarray(arr).ravel():
        if isinstance(x, (complex, np.complexfloating)):
            return None
        if float(x) != int(x):
            return None
        out.append(int(x))
    return out


def make_us(rng, E, k):
    us = []
    for i in range(k):
        u = 1 - 2 * rng.integers(0, 2, size=E)
        us.append(u.astype(np.int8) if i % 2 else u.astype(int))
    return us


# ------------------------------------------------------------------ argument forms (argforms.py)
# The bond array's dtype / memory layout is not part of its value: +-1 stored as int8 ... float64, read-only or as a
# non-contiguous view must give the same fluxes.  The harness and the model keep working on the plain int array `u`;
# only what is handed to koala is re-formed (form chosen from the content of u, so a failure replays).
U_FORMS = ["int64", "int8", "int16", "int32", "float64", "float32", "int64+readonly", "float64+readonly", "int64+strided", "int8+strided"]
FLUX_FORMS = ["int64", "int8", "float64", "int64+readonly", "int64+strided", "int8+strided"]
FORMS_EXCLUDED = {("fluxes_from_ujk.ujk", "list/tuple"): "type hint and docstring say np.ndarray; ujk[p.edges] is numpy fancy indexing (a list raises TypeError)",
                  ("fluxes_to_labels.fluxes", "list/tuple"): "type hint says np.ndarray; `1 - fluxes` is array arithmetic (a list raises TypeError)"}


def arg_forms(res, arg, values):
    """`values` (+-1 integers) in the form handed to koala for argument `arg` ('ujk' of fluxes_from_ujk / 'fluxes' of fluxes_to_labels)"""
    values = np.asarray(values)
    forms = U_FORMS if arg == "ujk" else (FLUX_FORMS + (["int64+F", "int8+F"] if values.ndim == 2 else []))
    name = "fluxes_from_ujk.ujk" if arg == "ujk" else "fluxes_to_labels.fluxes"
    form = AF.pick(forms, arg, values.astype(np.int64))
    if not AF.fits(values, form):
        form = "int64"      # (only reachable with a wrong flux value: keep it visible to the caller's own check)
    AF.note(res, name, form)
    for (a, f), why in FORMS_EXCLUDED.items():
        AF.exclude(res, a, f, why)
    return AF.as_form(values, form, base=np.int64)


# ------------------------------------------------------------------ per (lattice, u) spec checks
def spec_one(lat, u, with_moves, rng, max_moves, res, viol):
    """S on the implementation for one bond configuration.  viol(key, what, extra)"""
    F, E, V = lat.n_plaquettes, lat.n_edges, lat.n_vertices
    u_in = u.copy()
    uf = arg_forms(res, "ujk", u)
    fr = fluxes_from_ujk(lat, uf, real=True)
    fc = fluxes_from_ujk(lat, uf, real=False)
    if not np.array_equal(uf, u_in) or not np.array_equal(u, u_in):
        viol("input-modified", "fluxes_from_ujk modified the bond array passed to it", {})
    a, b = formula(lat, u)
    fri = exact_ints(fr)
    if fri is None or len(fri) != F:
        viol("flux-formula-real", f"fluxes_from_ujk returned {np.asarray(fr)[:6]} (not {F} integers)", {})
        return None
    if any(x not in (1, -1) for x in fri):
        viol("flux-not-pm1", f"flux values {sorted(set(fri))} for bonds in +-1", {})
    if fri != b:
        i = next(i for i in range(F) if fri[i] != b[i])
        viol("flux-formula-real", f"plaquette {i}: fluxes_from_ujk = {fri[i]}, product of minus the bonds read along the direction of travel = {b[i]}", {"plaquette": i})
    elif fri != a:
        i = next(i for i in range(F) if fri[i] != a[i])
        viol("flux-formula-real", f"plaquette {i}: fluxes_from_ujk = {fri[i]}, prod(-u[p.edges]*p.directions) = {a[i]}", {"plaquette": i})
    exp_c = [b[i] * I_POW[len(lat.plaquettes[i].edges) % 4] for i in range(F)]
    fc = np.asarray(fc)
    if fc.shape != (F,) or any(complex(fc[i]) != complex(exp_c[i]) for i in range(F)):
        i = next((i for i in range(min(F, fc.size)) if complex(fc.ravel()[i]) != complex(exp_c[i])), 0)
        viol("flux-formula-complex", f"plaquette {i} ({len(lat.plaquettes[i].edges)} sides): complex flux {fc.ravel()[i] if fc.size > i else None}, expected real flux * i^sides = {exp_c[i]}", {"plaquette": i})
    lab = fluxes_to_labels(arg_forms(res, "fluxes", fri))
    labi = exact_ints(lab)
    if labi != [0 if x == 1 else 1 for x in fri] and all(x in (1, -1) for x in fri):
        viol("labels", f"fluxes_to_labels({fri[:6]}) = {labi[:6] if labi else lab}", {})
    # global parity on closed lattices
    ep = lat.edges.adjacent_plaquettes
    closed = F > 0 and not np.any(ep == INVALID)
    if closed:
        res.extra["closed_lattice_evaluations"] = res.extra.get("closed_lattice_evaluations", 0) + 1
        pr = 1
        for x in fri:
            pr *= x
        if pr != (-1) ** E:
            viol("parity", f"closed lattice with {E} edges: product of all fluxes = {pr}, expected {(-1) ** E}", {})
    if not with_moves:
        return fri
    # gauge moves
    vs = list(range(V))
    es = list(range(E))
    if len(vs) > max_moves:
        vs = sorted(rng.choice(V, size=max_moves, replace=False).tolist())
    if len(es) > max_moves:
        es = sorted(rng.choice(E, size=max_moves, replace=False).tolist())
    for v in vs:
        u2 = u.copy()
        u2[lat.vertices.adjacent_edges[v]] *= -1
        u2f = arg_forms(res, "ujk", u2)
        g = fluxes_from_ujk(lat, u2f, real=True)
        gc = fluxes_from_ujk(lat, u2f, real=False)
        res.extra["gauge_moves"] = res.extra.get("gauge_moves", 0) + 1
        if not np.array_equal(g, fr) or not np.array_equal(gc, fc):
            bad = np.nonzero(np.asarray(g) != np.asarray(fr))[0][:4].tolist()
            viol("gauge", f"flipping all {len(lat.vertices.adjacent_edges[v])} bonds at vertex {v} changed the flux of plaquettes {bad}", {"vertex": int(v)})
            break
    # a composition of gauge moves (C05_gauge_group_invariant_model): random vertices with repeats, applied one after
    # the other; its own generator so that the other draws of this case are unchanged
    if V > 0:
        rg = np.random.default_rng([V, E, int(np.abs(u).sum()) if len(u) else 0, 5])
        seq = rg.integers(0, V, size=int(rg.integers(2, min(2 * V, 60) + 1))).tolist()
        u2 = u.copy()
        for v in seq:
            u2[lat.vertices.adjacent_edges[v]] *= -1
        u2f = arg_forms(res, "ujk", u2)
        g = fluxes_from_ujk(lat, u2f, real=True)
        gc = fluxes_from_ujk(lat, u2f, real=False)
        res.extra["gauge_compositions"] = res.extra.get("gauge_compositions", 0) + 1
        if not np.array_equal(g, fr) or not np.array_equal(gc, fc):
            viol("gauge-composition", f"a composition of {len(seq)} vertex gauge moves changed the fluxes", {"vertices": seq})
    for e in es:
        u2 = u.copy()
        u2[e] *= -1
        u2f = arg_forms(res, "ujk", u2)
        g = np.asarray(fluxes_from_ujk(lat, u2f, real=True))
        gc = np.asarray(fluxes_from_ujk(lat, u2f, real=False))
        res.extra["bond_flips"] = res.extra.get("bond_flips", 0) + 1
        adj = sorted({int(x) for x in ep[e] if x != INVALID})
        flipped = sorted(np.nonzero(g != np.asarray(fr))[0].tolist())
        s = np.ones(F, dtype=int)
        s[adj] = -1
        if flipped != adj or not np.array_equal(g, np.asarray(fr) * s) or not np.array_equal(gc, fc * s):
            viol("single-flip", f"flipping bond {e} flipped the fluxes of plaquettes {flipped}; plaquettes adjacent to the edge: {adj}", {"edge": int(e)})
            break
    return fri


# ------------------------------------------------------------------ exhaustive over all u
def exhaustive_tables(lat, res):
    """implementation's flux for every u in {-1,+1}^E: u_n[k] = 1 - 2*bit_k(n)"""
    E, F = lat.n_edges, lat.n_plaquettes
    N = 1 << E
    bits = (np.arange(N)[:, None] >> np.arange(E)[None, :]) & 1
    U = (1 - 2 * bits).astype(int)
    # argument form: the rows U[n] handed to koala are contiguous int64 / non-contiguous (rows of a Fortran-ordered table) / int8
    tform = AF.pick(["int64", "int64+F", "int8", "int8+F"], "exhaustive", np.asarray(lat.edges.indices, dtype=np.int64))
    U = AF.as_form(U, tform)
    AF.note(res, "fluxes_from_ujk.ujk(exhaustive rows)", tform.replace("+F", "+strided-row"), N)
    TR = np.zeros((N, F), dtype=int)
    TC = np.zeros((N, F), dtype=complex)
    ok = True
    for n in range(N):
        r = fluxes_from_ujk(lat, U[n], real=True)
        c = fluxes_from_ujk(lat, U[n], real=False)
        if np.asarray(r).shape != (F,) or np.asarray(c).shape != (F,):
            return U, None, None
        TR[n] = r
        TC[n] = c
    return U, TR, TC


def spec_exhaustive(lat, res, viol):
    E, F, V = lat.n_edges, lat.n_plaquettes, lat.n_vertices
    U, TR, TC = exhaustive_tables(lat, res)
    U = np.ascontiguousarray(U, dtype=int)
    if TR is None:
        viol("flux-formula-real", "fluxes_from_ujk did not return one value per plaquette", {})
        return None, None
    N = 1 << E
    idx = lat.edges.indices
    # formula with direction of travel from the vertices
    EXP = np.ones((N, F), dtype=int)
    for i, p in enumerate(lat.plaquettes):
        n = len(p.edges)
        for k in range(n):
            e = int(p.edges[k])
            tail, head = int(p.vertices[k]), int(p.vertices[(k + 1) % n])
            j, kk = int(idx[e][0]), int(idx[e][1])
            if (j, kk) == (tail, head) and j != kk:
                EXP[:, i] *= -U[:, e]
            elif (kk, j) == (tail, head) and j != kk:
                EXP[:, i] *= U[:, e]
            else:
                EXP[:, i] *= 0
    if not np.array_equal(TR, EXP):
        n, i = [int(x[0]) for x in np.nonzero(TR != EXP)]
        viol("flux-formula-real", f"plaquette {i}: fluxes_from_ujk = {TR[n, i]}, product of minus the bonds read along the direction of travel = {EXP[n, i]}", {"u": U[n].tolist(), "plaquette": i})
    ipow = np.array([I_POW[len(p.edges) % 4] for p in lat.plaquettes], dtype=complex)
    if not np.array_equal(TC, EXP * ipow[None, :]):
        n, i = [int(x[0]) for x in np.nonzero(TC != EXP * ipow[None, :])]
        viol("flux-formula-complex", f"plaquette {i} ({len(lat.plaquettes[i].edges)} sides): complex flux {TC[n, i]}, expected {EXP[n, i] * ipow[i]}", {"u": U[n].tolist(), "plaquette": i})
    # labels on the whole table (elementwise function) and row by row for a few
    lab = np.asarray(fluxes_to_labels(arg_forms(res, "fluxes", TR)))
    if lab.shape != TR.shape or not np.array_equal(lab, np.where(TR == 1, 0, 1)):
        viol("labels", "fluxes_to_labels does not map +1 -> 0, -1 -> 1", {})
    ar = np.arange(N)
    # gauge moves: u_n -> u_{n xor mask(v)}
    for v in range(V):
        mask = 0
        for e in lat.vertices.adjacent_edges[v]:
            mask |= 1 << int(e)
        res.extra["gauge_moves"] = res.extra.get("gauge_moves", 0) + N
        if not (np.array_equal(TR[ar ^ mask], TR) and np.array_equal(TC[ar ^ mask], TC)):
            n = int(np.nonzero(np.any(TR[ar ^ mask] != TR, axis=1) | np.any(TC[ar ^ mask] != TC, axis=1))[0][0])
            viol("gauge", f"flipping all bonds at vertex {v} changed the fluxes", {"u": U[n].tolist(), "vertex": v})
            break
    ep = lat.edges.adjacent_plaquettes
    for e in range(E):
        adj = sorted({int(x) for x in ep[e] if x != INVALID})
        s = np.ones(F, dtype=int)
        s[adj] = -1
        res.extra["bond_flips"] = res.extra.get("bond_flips", 0) + N
        if not (np.array_equal(TR[ar ^ (1 << e)], TR * s[None, :]) and np.array_equal(TC[ar ^ (1 << e)], TC * s[None, :])):
            n = int(np.nonzero(np.any(TR[ar ^ (1 << e)] != TR * s[None, :], axis=1))[0][0]) if np.any(TR[ar ^ (1 << e)] != TR * s[None, :]) else 0
            flipped = np.nonzero(TR[n ^ (1 << e)] != TR[n])[0].tolist()
            viol("single-flip", f"flipping bond {e} flipped the fluxes of plaquettes {flipped}; plaquettes adjacent to the edge: {adj}", {"u": U[n].tolist(), "edge": e})
            break
    if F > 0 and not np.any(ep == INVALID):
        res.extra["closed_lattice_evaluations"] = res.extra.get("closed_lattice_evaluations", 0) + N
        pr = np.prod(TR, axis=1)
        if not np.all(pr == (-1) ** E):
            n = int(np.nonzero(pr != (-1) ** E)[0][0])
            viol("parity", f"closed lattice with {E} edges: product of all fluxes = {pr[n]}, expected {(-1) ** E}", {"u": U[n].tolist()})
    return TR, TC


def decode_all(tok, F):
    """driver 'all' token -> (real list, complex list) or None"""
    if tok == "-":
        return [], []
    r, c = [], []
    for ch in tok:
        if ch == "X":
            return None
        k = ord(ch) - 97
        r.append(1 if k // 4 == 0 else -1)
        c.append(I_POW[k % 4])
    return r, c


# ------------------------------------------------------------------ extraction cross-check (DESIGN 1.3)
XCHECK_MAX_V, XCHECK_MAX_E = 40, 80


def coq_crosscheck(ctx, jobs, outs, all_list, mv_by_key):
    """For a small random sample of the lattices sent to the c05 driver, every line the driver printed for the commands
    flux / moves / all (for 'all': 16 of the 2^E bond configurations) is re-derived INSIDE Coq by vm_compute on the same
    literals (lattice, the implementation's plaquettes, bond arrays) and must coincide.  jobs/outs: evaluate()'s flux jobs
    and answers; all_list: the answers of the exhaustive jobs in job order; mv_by_key: lattice key -> moves answer."""
    import xcheck as X
    all_by_key = dict(zip([j[3] for j in jobs if j[6]], all_list))
    small = [(j, o) for j, o in zip(jobs, outs) if "error" not in o and j[2].n_vertices <= XCHECK_MAX_V and j[2].n_edges <= XCHECK_MAX_E]
    rng = np.random.default_rng([ctx.seed, 5, 99])
    # half of the sample from the lattices that also have an 'all' answer
    k = min(len(small), 8 if ctx.tier == "quick" else 80)
    with_all = [i for i, (j, o) in enumerate(small) if j[3] in all_by_key and "error" not in all_by_key[j[3]]]
    idx = set(rng.choice(with_all, size=min(len(with_all), k // 2), replace=False).tolist()) if with_all else set()
    rest = [i for i in range(len(small)) if i not in idx]
    idx |= set(rng.choice(rest, size=min(len(rest), k - len(idx)), replace=False).tolist()) if rest and k > len(idx) else set()
    gz = X.pair(X.z, X.z)
    body = []
    g = lambda lhs, rhs: body.append(X.goal(lhs, rhs))
    n_all = 0
    for n, i in enumerate(sorted(idx)):
        (c, arr, lat, key, _, us, exh), o = small[i]
        L, IP, US = f"L{n}", f"IP{n}", f"US{n}"
        S = ser_lattice_arrays(*arr)[1]
        body.append(f"Definition {L} : lattice := {X.lattice(arr[0], arr[1], arr[2], S)}.")
        body.append(f"Definition {IP} : list plaquette := " + X.lst(
            lambda p: f"plaq_of_arrays {X.natlist(p.vertices)} {X.natlist(p.edges)} {X.lst(lambda d: X.boolean(int(d) == 1), p.directions)}", lat.plaquettes) + ".")
        body.append(f"Definition {US} : list (list Z) := " + X.lst(X.zlist, us) + ".")
        g(f"(wf_lattice {L}, no_self_loops {L})", f"({X.boolean(o['wf'][0] == '1')}, {X.boolean(o['noloops'][0] == '1')})")
        g(f"option_map (@length plaquette) (find_all_plaquettes {L})", "None" if o["mp"][0] == "ERR" else f"Some {X.nat(o['mp'][0])}")
        bl = lambda toks: X.lst(lambda t: X.boolean(t == "1"), toks[1:])
        g(f"map (plaq_consistent {L}) {IP}", bl(o["icons"]))
        g(f"map (fun p => nodupb (p_edges p)) {IP}", bl(o["inodup"]))
        if o["icover"][0] != "skip":
            g(f"darts_cover {L} {IP}", X.boolean(o["icover"][0] == "1"))
        g(f"map all_pm1 {US}", X.lst(lambda t: X.boolean(t == "1"), [o[f"pm{q}"][0] for q in range(len(us))]))
        if o["mp"][0] != "ERR":
            g(f"option_map (fun ps => map (fun u => (fluxes_real u ps, fluxes_cplx u ps)) {US}) (find_all_plaquettes {L})",
              "Some " + X.lst(lambda q: f"({X.zlist(zlist(o[f'mr{q}']))}, {X.lst(gz, zpairs(o[f'mc{q}']))})", range(len(us))))
        g(f"map (fun u => (fluxes_real u {IP}, fluxes_cplx u {IP}, map (fun p => flux_spec u (plaq_darts p)) {IP}, fluxes_to_labels (fluxes_real u {IP}))) {US}",
          X.lst(lambda q: f"({X.zlist(zlist(o[f'ir{q}']))}, {X.lst(gz, zpairs(o[f'ic{q}']))}, {X.zlist(zlist(o[f'is{q}']))}, {X.zlist(zlist(o[f'lab{q}']))})", range(len(us))))
        m = mv_by_key.get(key)
        if m is not None and "error" not in m:
            cg = Cursor(m["gauge"]); mg = cg.list(lambda: cg.list(cg.z))
            cf = Cursor(m["flip"]); mf = cf.list(lambda: cf.list(cf.z))
            g(f"map (fun v => gauge {L} v (hd [] {US})) (seq 0 (nV {L}))", X.lst(X.zlist, mg))
            g(f"map (fun e => flip_at e (hd [] {US})) (seq 0 (nE {L}))", X.lst(X.zlist, mf))
        ao = all_by_key.get(key)
        if ao is not None and "error" not in ao and ao["mp"][0] != "ERR":
            E, F = lat.n_edges, int(ao["mp"][0])
            ns = sorted(rng.choice(1 << E, size=min(1 << E, 16), replace=False).tolist())
            dec = [decode_all(ao["all"][q], F) for q in ns]
            if all(d is not None for d in dec):
                # u_n[k] = 1 - 2*bit_k(n) (the driver's enumeration, and exhaustive_tables()'s)
                g(f"option_map (fun ps => map (fun u => (fluxes_real u ps, fluxes_cplx u ps)) "
                  + X.lst(lambda q: X.zlist([1 - 2 * ((q >> b) & 1) for b in range(E)]), ns) + f") (find_all_plaquettes {L})",
                  "Some " + X.lst(lambda d: f"({X.zlist(d[0])}, {X.lst(lambda w: gz((int(w.real), int(w.imag))), d[1])})", dec))
                n_all += 1
    res = ctx.res
    res.extra["extraction_crosscheck_goals_vm_compute"] = X.compile_goals("c05", "Model.Lattice Model.Flux", body, "c05")
    res.extra["extraction_crosscheck_lattices"] = len(idx)
    res.extra["extraction_crosscheck_lattices_with_all_u_sample"] = n_all
    res.extra["extraction_crosscheck_wall_s"] = X.LAST_WALL


# ------------------------------------------------------------------ main evaluation
def evaluate(ctx, cases, label, n_u=3, exhaustive_max=10, exhaustive_cap=None, max_moves=40, forced_u=None):
    res = ctx.res
    t_start = time.time()
    built = []
    seen = set()
    for c in cases:
        arr, why = gen.try_build(c)
        if arr is None:
            res.skip("generator-could-not-build-base")
            continue
        pos, edges, crossing = arr
        if len(edges) == 0:
            res.skip("no-plaquette")
            continue
        if np.any(edges[:, 0] == edges[:, 1]):
            res.skip("malformed-self-loop")
            continue
        key = digest([pos.tolist(), edges.tolist(), crossing.tolist()])
        if key in seen:
            res.skip("duplicate-lattice")
            continue
        seen.add(key)
        try:
            lat = Lattice(*layout_variant(pos, edges, crossing)[:3])
            F = lat.n_plaquettes
        except LatticeException:
            res.skip("plaquette-finder-raised(C01)")
            continue
        except Exception as e:
            # fluxes_from_ujk(lattice, u) cannot be evaluated on a lattice of the input space
            res.count(c["family"], key)
            res.violation("fluxes-raise", f"accessing lattice.plaquettes (needed by fluxes_from_ujk) raises {type(e).__name__}: {e}", {"lattice": c})
            continue
        if F == 0:
            res.skip("no-plaquette")
            continue
        built.append((c, arr, lat, key))
    # bond configurations
    n_exh = 0
    jobs = []
    for c, arr, lat, key in built:
        E = lat.n_edges
        rng = np.random.default_rng([ctx.seed, int(key, 16) % (2 ** 31)])
        us = make_us(rng, E, n_u)
        us.append(np.ones(E, dtype=int))
        if forced_u is not None and len(forced_u) == E:
            us.insert(0, np.array(forced_u, dtype=int))
        exh = E <= exhaustive_max and (exhaustive_cap is None or E <= 10 or n_exh < exhaustive_cap)
        if exh and E > 10:
            n_exh += 1
        jobs.append((c, arr, lat, key, rng, us, exh))
    lines = []
    for c, arr, lat, key, rng, us, exh in jobs:
        line, S = ser_lattice_arrays(*arr)
        lines.append("flux " + line + " " + ser_plaquettes(lat) + " " + str(len(us)) + " " + " ".join(ser_u(u) for u in us))
    outs = run_driver_parallel(ctx.exe["c05"], lines)
    all_lines = ["all " + ser_lattice_arrays(*arr)[0] for c, arr, lat, key, rng, us, exh in jobs if exh]
    all_list = run_driver_parallel(ctx.exe["c05"], all_lines)
    all_outs = iter(all_list)
    mv_jobs = [j for j in jobs if j[2].n_vertices * j[2].n_edges <= 600]
    mv_outs = run_driver_parallel(ctx.exe["c05"], ["moves " + ser_lattice_arrays(*j[1])[0] + " " + ser_u(j[5][0]) for j in mv_jobs])
    mv_by_key = {j[3]: o for j, o in zip(mv_jobs, mv_outs)}

    hist = res.extra.setdefault("size_histogram_E", {})
    for (c, arr, lat, key, rng, us, exh), o in zip(jobs, outs):
        if "error" in o:
            raise RuntimeError(f"driver error {o['error']} on {c}")
        pos, edges, crossing = arr
        E, F, V = lat.n_edges, lat.n_plaquettes, lat.n_vertices
        fam = c["family"] + ("/" + c["base"]["family"] if "base" in c else "")
        res.count(fam, key)
        b = "E<=10" if E <= 10 else "E<=14" if E <= 14 else "E<=100" if E <= 100 else "E<=400" if E <= 400 else "E>400"
        hist[b] = hist.get(b, 0) + 1
        margin = angular_margin(lat)
        generic = margin >= 1e-9

        def viol(k, what, extra, c=c, us=us):
            case = {"lattice": c}
            case.update(extra)
            if "u" not in case:
                case["u"] = [int(x) for x in cur_u[0]]
            res.violation(k, what, case)

        # hypotheses of the theorems on the implementation's plaquettes
        cur_u = [us[0]]
        icons = o["icons"][1:]
        inodup = o["inodup"][1:]
        if any(x != "1" for x in icons):
            i = icons.index("0")
            viol("closed-walk", f"plaquette {i} is not a consistent closed walk (vertices/edges/directions disagree with edges.indices)", {"plaquette": i})
        if any(x != "1" for x in inodup):
            viol("edge-twice", f"plaquette {inodup.index('0')} uses an edge twice", {})
        closed_impl = not np.any(lat.edges.adjacent_plaquettes == INVALID)
        cover = o["icover"][0] == "1"
        if o["icover"][0] == "skip":
            cover = closed_impl
            res.extra["darts_cover_not_evaluated(E>400)"] = res.extra.get("darts_cover_not_evaluated(E>400)", 0) + 1
        if cover:
            res.extra["closed_lattices"] = res.extra.get("closed_lattices", 0) + 1
        if cover != closed_impl:
            # every dart in exactly one plaquette <=> no INVALID entry in edges.adjacent_plaquettes (C02)
            viol("closed-lattice-tables", f"darts_cover(model checker on implementation plaquettes) = {cover} but edges.adjacent_plaquettes has {'no ' if closed_impl else ''}INVALID entries", {})
        # "the flux of EACH plaquette": the fluxes cover the plaquettes of the lattice, not only those the implementation lists.
        # Ground truth for the number of plaquettes on a generic lattice: the model finder (proved to return exactly the
        # legitimate faces, C01); a missing or extra plaquette also silently breaks the global product rule, because the
        # lattice then no longer looks closed to the tables
        if generic and o["mp"][0] != "ERR" and int(o["mp"][0]) != F:
            viol("fluxes-do-not-cover-the-plaquettes", f"the lattice has {o['mp'][0]} plaquettes (exact finder), fluxes_from_ujk returns {F} fluxes: "
                 f"{'a plaquette has no flux' if int(o['mp'][0]) > F else 'a flux is reported for a face that is no plaquette'}", {})
        # S + K per bond configuration
        for i, u in enumerate(us):
            cur_u[0] = u
            nv = len(res.violations)
            try:
                fri = spec_one(lat, u, with_moves=(i == 0), rng=rng, max_moves=max_moves, res=res, viol=viol)
            except Exception as e:
                viol("fluxes-raise", f"fluxes_from_ujk / fluxes_to_labels raised {type(e).__name__}: {e}", {})
                break
            if fri is None:
                continue
            fc = np.asarray(fluxes_from_ujk(lat, arg_forms(res, "ujk", u), real=False))
            # extracted spec on the implementation's plaquettes
            if o[f"pm{i}"][0] != "1":
                raise RuntimeError("harness generated a non +-1 bond array")
            ir, ic, isp, lab = zlist(o[f"ir{i}"]), zpairs(o[f"ic{i}"]), zlist(o[f"is{i}"]), zlist(o[f"lab{i}"])
            if len(res.violations) == nv:
                if ir != fri or isp != fri:
                    viol("flux-formula-real", f"extracted flux_real/flux_spec on the implementation's plaquettes = {ir[:6]}, fluxes_from_ujk = {fri[:6]}", {})
                if not cplx_eq(fc, ic):
                    viol("flux-formula-complex", f"extracted flux_cplx on the implementation's plaquettes = {ic[:4]}, fluxes_from_ujk(real=False) = {fc[:4]}", {})
                if exact_ints(fluxes_to_labels(arg_forms(res, "fluxes", fri))) != lab:
                    viol("labels", f"extracted fluxes_to_labels = {lab[:6]}", {})
            # K: model end to end
            if generic:
                if o["mp"][0] == "ERR":
                    ctx.k_mismatch(f"{label}: model plaquette finder fails, implementation returns {F} plaquettes", {"lattice": c})
                    break
                mr, mc = zlist(o[f"mr{i}"]), zpairs(o[f"mc{i}"])
                res.traces += 1
                if mr != fri or not cplx_eq(fc, mc):
                    ctx.k_mismatch(f"{label}: model fluxes {mr[:8]} / implementation {fri[:8]} (u #{i})", {"lattice": c, "u": [int(x) for x in u]})
        if not generic:
            res.skip("K-skipped-nongeneric-angular-margin<1e-9")
        # harness moves vs model moves
        if key in mv_by_key:
            m = mv_by_key[key]
            u = us[0]
            cg = Cursor(m["gauge"]); mg = cg.list(lambda: cg.list(cg.z))
            cf = Cursor(m["flip"]); mf = cf.list(lambda: cf.list(cf.z))
            for v in range(V):
                u2 = u.copy(); u2[lat.vertices.adjacent_edges[v]] *= -1
                if [int(x) for x in u2] != mg[v]:
                    ctx.k_mismatch(f"{label}: gauge move at vertex {v}: harness {u2.tolist()} model {mg[v]}", {"lattice": c})
                    break
            for e in range(E):
                u2 = u.copy(); u2[e] *= -1
                if [int(x) for x in u2] != mf[e]:
                    ctx.k_mismatch(f"{label}: bond flip {e}: harness/model differ", {"lattice": c})
                    break
        # exhaustive over all u
        if exh:
            ao = next(all_outs)
            cur_u[0] = us[0]
            try:
                TR, TC = spec_exhaustive(lat, res, viol)
            except Exception as e:
                viol("fluxes-raise", f"fluxes_from_ujk / fluxes_to_labels raised {type(e).__name__}: {e}", {})
                TR = TC = None
            res.extra["exhaustive_u_lattices"] = res.extra.get("exhaustive_u_lattices", 0) + 1
            res.extra["exhaustive_u_configs"] = res.extra.get("exhaustive_u_configs", 0) + (1 << E)
            res.extra["exhaustive_u_max_E"] = max(res.extra.get("exhaustive_u_max_E", 0), E)
            if TR is not None and generic:
                if "error" in ao:
                    raise RuntimeError(f"driver error {ao['error']}")
                if ao["mp"][0] == "ERR" or int(ao["mp"][0]) != F:
                    ctx.k_mismatch(f"{label}: model finds {ao['mp'][0]} plaquettes, implementation {F}", {"lattice": c})
                else:
                    toks = ao["all"]
                    for n, tok in enumerate(toks):
                        d = decode_all(tok, F)
                        res.traces += 1
                        if d is None or d[0] != TR[n].tolist() or any(complex(x) != complex(y) for x, y in zip(d[1], TC[n])):
                            ctx.k_mismatch(f"{label}: exhaustive: model and implementation fluxes differ at u #{n}", {"lattice": c, "u": (1 - 2 * ((n >> np.arange(E)) & 1)).tolist()})
                            break
        res.sample({"case": c, "V": V, "E": E, "plaquettes": F, "u": [int(x) for x in us[0]][:24],
                    "fluxes": exact_ints(fluxes_from_ujk(lat, us[0]))[:24], "closed": bool(closed_impl), "exhaustive_u": bool(exh)})
    res.extra["evaluate_seconds_" + label] = round(time.time() - t_start, 1)
    if label == "K":
        coq_crosscheck(ctx, jobs, outs, all_list, mv_by_key)     # extraction cross-check: a sample of the driver's answers re-derived inside Coq


RULE = ("lattice families of DESIGN 1.5 (C01's input space) restricted to lattices without self-loops and with >= 1 plaquette, deduplicated by array hash; "
        "per lattice: 3 random u (int / int8 alternating) + all-ones, every gauge move and bond flip on the first u (sampled to 40 vertices / 40 edges on larger lattices in the quick tier, 200 / 200 in the thorough tier), "
        "and every u in {-1,+1}^E with every gauge move and bond flip for E <= 10 (quick) / 14 (thorough); every counted lattice is non-trivial (has plaquettes)")


def small_closed_cases(tier, seed):
    """small periodic Voronoi lattices (N seeds: 2N vertices, 3N edges, N plaquettes when no face
    winds around the torus) and their cuts: the lattices on which ALL u are enumerated"""
    rng = np.random.default_rng([seed, 5])
    out = []
    sizes = [2, 3, 3, 3] if tier == "quick" else [2, 3, 3, 4, 4, 4]
    for i in range(24 if tier == "quick" else 90):
        n = sizes[i % len(sizes)]
        b = {"family": "voronoi", "style": gen.POINT_STYLES[i % 4], "n": n, "seed": int(rng.integers(0, 2 ** 31)), "shift": bool(i % 2)}
        out.append(b)
        if i % 3 == 0:
            out.append({"family": "cut", "base": b, "cut": [bool(i % 2), True]})
    return out


def run(ctx):
    ctx.res.rule = RULE
    cases = gen.lattice_cases(ctx.tier, ctx.seed)
    cases.append({"family": "raw", "positions": [[.25, .25], [.75, .25], [.25, .75], [.75, .75]],
                  "edges": [[0, 1], [1, 0], [2, 3], [3, 2], [0, 2], [2, 0], [1, 3], [3, 1]],
                  "crossing": [[0, 0], [1, 0], [0, 0], [1, 0], [0, 0], [0, 1], [0, 0], [0, 1]]})
    cases += small_closed_cases(ctx.tier, ctx.seed)
    if ctx.tier == "quick":
        evaluate(ctx, cases, "K", n_u=3, exhaustive_max=10, max_moves=40)
    else:
        evaluate(ctx, cases, "K", n_u=3, exhaustive_max=14, exhaustive_cap=120, max_moves=200)
    stream_phase(ctx, 60 if ctx.tier == "quick" else 400)


def stream_phase(ctx, n):
    """Generate-and-drop stream: many short-lived lattices of the SAME size, one flux evaluation each, the lattice
    released (and collected) before the next one is built.  The flux of a lattice must not depend on which lattices
    were evaluated earlier in the process (e.g. through a cache keyed on object identity or on sizes)."""
    import gc
    from koala import voronization
    from koala.flux_finder import fluxes_from_ujk
    res = ctx.res
    rng = np.random.default_rng([ctx.seed, 505])
    for i in range(n):
        npts = 12 if i % 2 == 0 else 16
        lat = voronization.generate_lattice(rng.uniform(size=(npts, 2)))
        u = (1 - 2 * rng.integers(0, 2, size=lat.n_edges)).astype(int)
        want, _ = formula(lat, u)
        for cplx in (False, True):
            try:
                got = fluxes_from_ujk(lat, u, real=not cplx)
            except Exception as e:
                res.count("stream/same-size-short-lived", ("stream", i, cplx))
                res.violation("stream:raises", f"fluxes_from_ujk raised {type(e).__name__}: {e} on the {i}-th short-lived lattice of a stream "
                              f"(a fresh evaluation of the same lattice alone works): result depends on earlier calls", {"stream_index": i, "n_points": npts, "seed": ctx.seed})
                continue
            exp = np.array(want) * (1 if not cplx else np.array([1j ** len(p.edges) for p in lat.plaquettes]))
            res.count("stream/same-size-short-lived", ("stream", i, cplx))
            if len(got) != len(exp) or not np.allclose(np.asarray(got), exp):
                res.violation("stream:flux-depends-on-history", f"flux of the {i}-th short-lived lattice of a generate-and-drop stream differs from the "
                              f"boundary product computed from its own plaquettes (complex={cplx})", {"stream_index": i, "n_points": npts, "seed": ctx.seed})
        del lat
        gc.collect()


def search(ctx):
    cases = gen.lattice_cases("thorough", ctx.seed + 1, exhaustive=(ctx.tier != "quick"))
    if ctx.tier == "quick":
        cases = cases[:150]
    evaluate(ctx, cases + small_closed_cases("thorough", ctx.seed + 1), "search", n_u=4, exhaustive_max=12, exhaustive_cap=40, max_moves=40)


def replay(ctx, payload):
    case = payload["case"]
    evaluate(ctx, [case["lattice"]], "replay", n_u=3, exhaustive_max=14, max_moves=10 ** 9, forced_u=case.get("u"))
